"""Reader for the reStructuredText documents of the repository (code blocks, bullet lists)."""

from __future__ import annotations

import json
import re
from typing import Any, Iterator

from .loader import Repo


def code_blocks(text: str, lang: str | None = None) -> Iterator[tuple[int, str, str]]:
    """Yields (line, language, dedented body) for every ``.. code:: lang`` / ``::`` literal block."""
    lines = text.splitlines()
    i = 0
    while i < len(lines):
        m = re.match(r"^(\s*)\.\. code(?:-block)?::\s*(\S*)\s*$", lines[i])
        if m:
            base = len(m.group(1))
            j = i + 1
            body = []
            while j < len(lines) and (not lines[j].strip() or len(lines[j]) - len(lines[j].lstrip()) > base):
                body.append(lines[j])
                j += 1
            nonempty = [b for b in body if b.strip()]
            ind = min((len(b) - len(b.lstrip()) for b in nonempty), default=0)
            yield i + 1, m.group(2), "\n".join(b[ind:] for b in body).strip("\n")
            i = j
            continue
        i += 1


def json_blocks(repo: Repo, rel: str) -> list[tuple[int, Any]]:
    out = []
    for line, lang, body in code_blocks(repo.read_text(rel)):
        if lang != "json":
            continue
        try:
            out.append((line, json.loads(body)))
        except json.JSONDecodeError:
            continue
    return out


def walk_json(v: Any) -> Iterator[Any]:
    yield v
    if isinstance(v, dict):
        for x in v.values():
            yield from walk_json(x)
    elif isinstance(v, list):
        for x in v:
            yield from walk_json(x)


def section(text: str, title: str) -> str:
    """Text of the section with the given title (until the next title of the same or higher adornment)."""
    lines = text.splitlines()
    for i in range(len(lines) - 1):
        if lines[i].strip() == title and re.match(r"^([=\-~#^\"'`*+])\1{2,}\s*$", lines[i + 1]):
            ch = lines[i + 1][0]
            body = []
            j = i + 2
            while j < len(lines):
                if j + 1 < len(lines) and re.match(r"^([=\-~#^\"'`*+])\1{2,}\s*$", lines[j + 1]) and lines[j].strip():
                    ch2 = lines[j + 1][0]
                    order = "=-~#"
                    if ch2 == ch or (ch2 in order and ch in order and order.index(ch2) <= order.index(ch)):
                        break
                body.append(lines[j])
                j += 1
            return "\n".join(body)
    return ""
