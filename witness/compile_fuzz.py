import random, sys, collections, logging, warnings, re, traceback
warnings.filterwarnings("ignore"); logging.disable(logging.CRITICAL)
sys.path.insert(0,'/verif/witness')
from explorerscript.ssb_converting.ssb_compiler import ExplorerScriptSsbCompiler
from explorerscript.error import ParseError, SsbCompilerError
import random_programs as randprog, macro_probe as macroprobe
TOK=re.compile(r"\s+|[A-Za-z_$@§~][\w]*|\d+\.?\d*|'[^']*'|\"[^\"]*\"|==|<=|>=|!=|\|\||&<<|[-+*/]=|.", re.S)
EXTRA=["{","}","(",")",";",",","if","else","elseif","switch","case","default","break","continue","break_loop","forever","while","for","def","macro","coro","jump","call","return","end","hold","not","§l","@l","~m","$V","1","0x","1.5","'s","\"\"\"","/*","//","<",">","Position","with","actor","alias","previous","import","message_SwitchTalk","scn","[","]",":","=","value","debug","::","\\","\n","é","\x00"]
c=collections.Counter(); shown=0
for seed in range(int(sys.argv[1]),int(sys.argv[2])):
    r=random.Random(seed)
    if r.random()<0.5:
        g=randprog.G(random.Random(seed)); src="\n".join(g.routine(i) for i in range(r.randint(1,2)))
    else:
        g=macroprobe.Gen(seed); g.make(); src=g.with_macros()
    toks=TOK.findall(src)
    for _ in range(r.randint(1,3)):
        k=r.random(); i=r.randrange(len(toks)) if toks else 0
        if k<0.35 and toks: del toks[i]
        elif k<0.7: toks.insert(i, r.choice(EXTRA))
        elif toks: toks[i]=r.choice(EXTRA)
    text="".join(toks)
    try:
        cc=ExplorerScriptSsbCompiler("$PERF",[]); cc.compile(text,"/nonexistent/a.exps"); c['ok']+=1
    except (ParseError, SsbCompilerError, ValueError) as ex:
        c[type(ex).__name__]+=1
    except RecursionError: c['RecursionError']+=1
    except Exception as ex:
        c['OTHER '+type(ex).__name__]+=1
        if shown<5:
            shown+=1; print('OTHER',seed,type(ex).__name__,ex); print(text[:300]); traceback.print_exc(limit=-3)
print(dict(c))
