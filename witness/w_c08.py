from wlib import *
import tempfile, os
d = tempfile.mkdtemp()
os.makedirs(os.path.join(d, "lib", "deep"))
open(os.path.join(d, "lib", "deep", "b.exps"), "w").write("macro inner() { i(Position<'pi', 1, 2>); }\n")
open(os.path.join(d, "lib", "a.exps"), "w").write('import "./deep/b.exps";\nmacro m1() { x(Position<\'p1\', 1, 2>); ~inner(); }\nmacro m2() { y(Position<\'p2\', 3, 4>); }\n')
main = os.path.join(d, "main.exps")
src = 'import "./lib/a.exps";\ndef 0 { ~m2(); ~inner(); ~m1(); end; }\n'
c = comp(src, main); show(c)
for off, m in c.source_map.collect_mappings__macros():
    print(off, m.relpath_included_file, m.macro_name, m.line, m.column, m.called_in, m.return_addr)
for pm in c.source_map.get_position_marks__macros(): print("mark", pm[0], pm[1], pm[2].name)
