"""C16 — layout, comments and alternative spellings do not change the compiled ops."""

from __future__ import annotations

import ast
from typing import Any

from ..engine import astq
from ..engine.g4 import generated_names
from ..engine.loader import AnalysisError, Func, dotted, norm, walk_no_nested, parents
from ..engine.report import Check, fkey
from .c07 import listener_kind_table

CH = "explorerscript.ssb_converting.compiler.compile_handlers"
LISTENER = "explorerscript.ssb_script.ssb_converting.compiler.compiler_listener"
UTILS = "explorerscript.ssb_converting.compiler.utils"
POSITION_SINKS = {"add_opcode", "next_macro_opcode_called_in", "SourceMapPositionMark", "add_position_mark", "add_macro_opcode"}
LITERAL_DECODERS = [
    f"{UTILS}:singleline_string_literal", f"{UTILS}:multiline_string_literal", f"{UTILS}:string_literal", "explorerscript.util:exps_int",
    "explorerscript.common_syntax:parse_position_marker_arg", f"{CH}.functions.for_target_def:ForTargetDefCompileHandler.collect",
    f"{LISTENER}:SsbScriptCompilerListener.exitFor_target_def", "explorerscript.ssb_converting.ssb_data_types:SsbOpParamFixedPoint.from_str",
]


def bad_strip_calls(fn: ast.FunctionDef, fold: Any, mod: Any) -> list[tuple[ast.Call, str]]:
    out = []
    for c in walk_no_nested(fn):
        if isinstance(c, ast.Call) and isinstance(c.func, ast.Attribute) and c.func.attr in ("strip", "lstrip", "rstrip") and len(c.args) == 1:
            v = fold.try_expr(mod, c.args[0])
            if isinstance(v, str) and len(set(v)) > 1:
                out.append((c, v))
    return out


def run(chk: Check, ctx: Any) -> None:
    repo = ctx.repo
    fold = ctx.fold
    ctx.require_generated_tables_in_sync = False  # reported below as C16-R5 instead of failing the load
    chk.rule("C16-R5", "the generated lexers and parsers are the tables of the grammar files: every lexer and parser rule of the serialized ATNs accepts the same "
                       "language as the rule written in the .g4 files (finite automata compared for equality, fragments inlined), same rule order, token types, "
                       "non-greedy loops and lexer commands; the .interp files carry the same tables")
    from ..engine.atn import agreement
    from ..engine.g4 import load_grammar
    n_cmp = 0
    for gname in ("ExplorerScript", "SsbScript"):
        gg = load_grammar(repo, gname)
        problems, facts = agreement(repo, gg, gname)
        n_cmp += facts["rules_compared"]
        where = (f"explorerscript/antlr/{gname}Parser.py", 0)
        if problems:
            for pr in problems[:6]:
                # not a verdict about the property: the rules below read the .g4 files, which are then not what runs
                chk.unknown("C16-R5", f"{gname}:{pr[:80]}", where, f"{gname}: generated tables and grammar files disagree: {pr}")
        else:
            chk.hold("C16-R5", f"{gname}:tables", where, f"{facts['rules_compared']} rules: same language in the generated tables ({facts['lexer_states']} + "
                                                        f"{facts['parser_states']} ATN states) and in the grammar files", facts=facts)
    chk.floor("C16-R5", "lexer and parser rules compared between generated tables and grammar files", n_cmp, 230)
    chk.explanation = (
        "Decides for all programs: (R1) grammar facts — SKIP_ covers blanks, both comment forms and line joining, carries `-> skip` and is referenced by "
        "no parser rule; every keyword token precedes IDENTIFIER in the effective lexer order; label accepts both sigils, routine targets both "
        "spellings, argument lists and language strings a trailing comma; the generated lexer/parser name tables equal the .g4 files. (R2) taint: "
        "token positions (.line/.column/.start/.stop) are used in compiler code only inside source-map calls and error messages, and getText() of "
        "composite contexts is not used at all — so layout cannot reach op names, parameters, routine tables or labels. (R3) spelling tables: both "
        "routine-target spellings map to the same kind in the ExplorerScript handler and in the SsbScript listener; labels are keyed by their "
        "identifier text in label/jump/call; string delimiters are removed by slicing exactly one (three) characters per side, never by "
        "str.strip(<character set>); integers go through int(text, 0). Not decided: ANTLR's adaptive prediction on arbitrary token juxtapositions."
        " (R4, interpreter-based) re-spellings of a base program are compiled (whole compiler evaluated) and must give identical ops, routine table and marks."
    )
    chk.rule("C16-R1", "grammar: skip channel, keyword-before-identifier order, alternative spellings present, generated tables in sync")
    chk.rule("C16-R2", "token positions flow only into source-map calls and error messages; no getText() of composite contexts in compiler code")
    chk.rule("C16-R4", "re-spellings of a base program (whitespace, CRLF, comments incl. one still open at end of file, @/§, for_actor(X), trailing commas, integer bases, "
                       "leading zeros of decimals, quote styles, import quote style) compile - whole compiler interpreted on the grammar's parse tree - to identical ops, "
                       "routine table and position marks")
    chk.rule("C16-R3", "spelling tables agree (routine targets, label keys); delimiters removed by slicing, not by strip(set); integers via int(text, 0)")

    g = ctx.grammar_exps
    gs = ctx.grammar_ssbs
    g4 = ("explorerscript/antlr/SsbCommon.g4", 0)
    # ------------------------------------------------------------------ R1
    for gram in (g, gs):
        if "SKIP_" not in gram.rules:
            chk.violation("C16-R1", f"{gram.name}:skip-rule", g4, "no SKIP_ rule: blanks and comments would reach the parser")
            continue
        sk = gram.rules["SKIP_"]
        chk.decide("C16-R1", f"{gram.name}:skip-command", gram.is_skip("SKIP_"), g4, "SKIP_ does not carry `-> skip`: blanks/comments become tokens", "-> skip")
        refs = gram.refs("SKIP_")
        need = {"LINE_COMMENT", "BLOCK_COMMENT", "SPACES", "LINE_JOINING"}
        chk.decide("C16-R1", f"{gram.name}:skip-covers", need <= refs, g4, f"SKIP_ does not cover {sorted(need - refs)}", "blanks, // and /* */ comments, line joining")
        used = [r for r in gram.parser_rules if "SKIP_" in gram.refs(r)]
        chk.decide("C16-R1", f"{gram.name}:skip-not-parsed", not used, g4, f"parser rules {used} reference SKIP_", "no parser rule sees SKIP_")
        for frag, must in (("SPACES", [" ", "\t", "\n", "\r"]), ("LINE_COMMENT", ["//"]), ("BLOCK_COMMENT", ["/*"])):
            import re
            rx = re.compile(gram.rule_regex(frag))
            bad = [m for m in must if not rx.match(m + ("x*/" if frag == "BLOCK_COMMENT" else ""))]
            chk.decide("C16-R1", f"{gram.name}:{frag}", not bad, g4, f"{frag} does not match {bad}", f"{frag} ok")
    # keyword order
    order = g.lexer_rules
    if "IDENTIFIER" not in order:
        raise AnalysisError("IDENTIFIER token missing")
    ipos = order.index("IDENTIFIER")
    import re
    ident_rx = re.compile(g.rule_regex("IDENTIFIER") + r"\Z")
    n_kw = 0
    for name in order:
        r = g.rules[name]
        if len(r.alts) == 1 and len(r.alts[0].elems) == 1 and r.alts[0].elems[0].kind == "lit":
            lit = r.alts[0].elems[0].value
            if ident_rx.match(lit):
                n_kw += 1
                chk.decide("C16-R1", f"keyword-order:{name}", order.index(name) < ipos, ("explorerscript/antlr/ExplorerScript.g4", 0),
                           f"keyword token {name} ('{lit}') is defined after IDENTIFIER: the word lexes as an identifier and the construct it introduces no longer parses",
                           "before IDENTIFIER")
    chk.floor("C16-R1", "keyword tokens", n_kw, 45)
    # alternative spellings in the grammar
    lab = g.rules["label"]
    sig = {x.value for s in lab.alts for e in s.elems if e.kind == "group" for a in e.value for x in a.elems if x.kind == "tok"}
    sig |= {e.value for s in lab.alts for e in s.elems if e.kind == "tok"}
    chk.decide("C16-R1", "label:sigils", {"PARAGRAPH", "AT"} <= sig, g4, f"label accepts {sorted(sig)}; both '§' and '@' are documented", "§ and @")
    ft = g.rules["for_target_def_target"]
    toks = {x.value for s in ft.alts for e in s.elems for x in ([e] if e.kind != "group" else [y for a in e.value for y in a.elems]) if x.kind == "tok"}
    chk.decide("C16-R1", "for-target:spellings", {"FOR", "IDENTIFIER", "FOR_TARGET"} <= toks, g4, f"routine target accepts {sorted(toks)}", "`for actor X` and `for_actor(X)`")
    for rule, with_c, without in (("arglist", "1, 'a',", "1, 'a'"), ("lang_string", "{a='x', b='y',}", "{a='x', b='y'}")):
        t1 = g.parse_text(rule, with_c)
        t2 = g.parse_text(rule, without)
        chk.decide("C16-R1", f"{rule}:trailing-comma", t1 is not None and t2 is not None, g4,
                   f"{rule} does not accept both `{with_c}` and `{without}`", "with and without trailing comma")
    # generated tables in sync
    for gram, gname in ((g, "ExplorerScript"), (gs, "SsbScript")):
        gen_l = generated_names(repo, gname, "Lexer")
        gen_p = generated_names(repo, gname, "Parser")
        mine = [f"T__{i}" for i in range(len(gram.implicit))] + [n for n in gram.order if gram.rules[n].is_lexer]
        chk.decide("C16-R1", f"{gname}:generated-lexer-in-sync", gen_l.get("ruleNames") == mine, (f"explorerscript/antlr/{gname}Lexer.py", 0),
                   "the generated lexer's rule list differs from the .g4 files (regenerate the parser): facts about the grammar do not describe the running lexer",
                   f"{len(mine)} lexer rules in order")
        chk.decide("C16-R1", f"{gname}:generated-parser-in-sync", gen_p.get("ruleNames") == gram.parser_rules, (f"explorerscript/antlr/{gname}Parser.py", 0),
                   "the generated parser's rule list differs from the .g4 files", f"{len(gram.parser_rules)} parser rules in order")

    # ------------------------------------------------------------------ R2 taint
    n_pos = 0
    for f in repo.all_funcs():
        mn = f.mod.name
        if not (mn.startswith("explorerscript.ssb_converting.compiler") or mn == "explorerscript.macro" or mn.startswith(LISTENER)):
            continue
        par = parents(f.node)
        for n in walk_no_nested(f.node):
            if isinstance(n, ast.Call) and isinstance(n.func, ast.Attribute) and n.func.attr == "getText":
                chk.violation("C16-R2", fkey(f, n), f, f"`{norm(n)}`: the text of a composite context includes or omits layout depending on the token stream; "
                                                      "compiler values must be read from individual tokens", node=n)
            if not (isinstance(n, ast.Attribute) and n.attr in ("line", "column") and isinstance(n.value, ast.Attribute) and n.value.attr in ("start", "stop")):
                continue
            n_pos += 1
            # climb to the enclosing call / raise / f-string
            cur: ast.AST = n
            ok = False
            why = ""
            while cur in par:
                cur = par[cur]
                if isinstance(cur, ast.Call):
                    d = (dotted(cur.func) or "").split(".")[-1]
                    if d in POSITION_SINKS:
                        ok = True
                        break
                    if d in ("f", "_", "SsbCompilerError", "ValueError", "ParseError", "debug", "warning", "info"):
                        ok = True
                        break
                if isinstance(cur, ast.JoinedStr):
                    ok = True
                    break
                if isinstance(cur, ast.Raise):
                    ok = True
                    break
                if isinstance(cur, ast.Compare):
                    # listener: same-line bookkeeping for position marks only
                    why = "compared"
                if isinstance(cur, (ast.Assign, ast.AugAssign)):
                    tg = cur.targets if isinstance(cur, ast.Assign) else [cur.target]
                    if all(astq.self_attr(t) in ("_last_op_line", "_op_idx_in_current_line") for t in tg):
                        ok = True
                    break
                if isinstance(cur, ast.stmt):
                    if isinstance(cur, ast.If) and all(astq.self_attr(x) in ("_last_op_line", None) for x in ast.walk(cur.test) if isinstance(x, ast.Attribute)
                                                       and isinstance(x.value, ast.Name) and x.value.id == "self"):
                        ok = True
                    break
            chk.decide("C16-R2", fkey(f, None, norm(n) + f"@{getattr(n, 'lineno', 0) - f.node.lineno}"), ok, f,
                       f"the token position `{norm(n)}` is used outside source-map calls and messages (`{norm(par.get(n, n))[:60]}`): the compiled result "
                       "would depend on the layout of the source", "position flows into the source map / a message", node=n)
    chk.floor("C16-R2", "token position reads in compiler code", n_pos, 18)

    # ------------------------------------------------------------------ R3 spelling tables
    ex = repo.func(f"{CH}.functions.for_target_def:ForTargetDefCompileHandler.collect")
    li = repo.func(f"{LISTENER}:SsbScriptCompilerListener.exitFor_target_def")
    te, tl = listener_kind_table(ctx, ex), listener_kind_table(ctx, li)
    want = {"for_actor": "ACTOR", "actor": "ACTOR", "for_object": "OBJECT", "object": "OBJECT", "for_performer": "PERFORMER", "performer": "PERFORMER"}
    for name, tab, f in (("explorerscript", te, ex), ("ssbscript", tl, li)):
        if not tab:
            chk.unknown("C16-R3", f"target-kinds:{name}", f, "kind table (str(<token>) == \"word\" -> SsbRoutineType) not recognised")
            continue
        diff = {w: (tab.get(w), k) for w, k in want.items() if tab.get(w) != k}
        chk.decide("C16-R3", f"target-kinds:{name}", not diff, f,
                   f"routine target spellings do not map to the documented kinds: {diff}", "for_X and `for X` map to the same kind")
    chk.decide("C16-R3", "target-kinds:siblings", te == tl if te and tl else None, ex, f"ExplorerScript handler {te} and SsbScript listener {tl} disagree", "both compilers agree")
    # legacy/new token sources compared as whole words (no prefix arithmetic)
    for f in (ex, li):
        for c, v in bad_strip_calls(f.node, fold, f.mod):
            chk.violation("C16-R3", fkey(f, c), f,
                          f"`{norm(c)}` removes a *set of characters* ({sorted(set(v))}), not a prefix: 'for_object'.lstrip('for_') is 'bject', so one spelling of "
                          "the routine target stops working while the others still do", node=c)
    # labels keyed by identifier text
    keys = {}
    for spec in (f"{CH}.atoms.label:LabelCompileHandler.collect", f"{CH}.statements.jump:JumpCompileHandler.collect", f"{CH}.statements.call:CallCompileHandler.collect"):
        f = repo.func(spec)
        d = [n for n in walk_no_nested(f.node) if isinstance(n, ast.Assign) and norm(n.targets[0]) == "label_name"]
        keys[f.short] = norm(d[0].value) if d else None
        look = any(isinstance(n, ast.Compare) and isinstance(n.ops[0], ast.In) and norm(n.left) == "label_name" and "collected_labels" in norm(n.comparators[0])
                   for n in walk_no_nested(f.node))
        chk.decide("C16-R3", f"label-key:{f.short}", keys[f.short] == "str(self.ctx.IDENTIFIER())" and look, f,
                   f"labels are keyed by `{keys[f.short]}`; the sigil (§ or @) and layout must not be part of the key", "keyed by the identifier text")
    # string delimiters
    sl = repo.func(f"{UTILS}:singleline_string_literal")
    ml = repo.func(f"{UTILS}:multiline_string_literal")
    for f, lo, hi in ((sl, 1, -1), (ml, 3, -3)):
        slices = [n for n in walk_no_nested(f.node) if isinstance(n, ast.Subscript) and isinstance(n.slice, ast.Slice)
                  and isinstance(n.value, ast.Call) and dotted(n.value.func) == "str"]
        ok = None
        if slices:
            s0 = slices[0].slice
            lv = s0.lower.value if isinstance(s0.lower, ast.Constant) else None  # type: ignore[union-attr]
            uv = astq.const_index(ast.Subscript(value=ast.Name("x"), slice=s0.upper)) if s0.upper is not None else None  # type: ignore[arg-type]
            ok = (lv, uv) == (lo, hi)
        strips = bad_strip_calls(f.node, fold, f.mod)
        if strips:
            c, v = strips[0]
            chk.violation("C16-R3", f"delimiters:{f.short}", f,
                          f"`{norm(c)}` strips every leading/trailing character out of {sorted(set(v))}: quote characters of the content that touch a delimiter are "
                          "lost, so \"He said \\\"hi\\\"\" and 'He said \"hi\"' compile to different strings", node=c)
        else:
            chk.decide("C16-R3", f"delimiters:{f.short}", ok, f, f"the delimiters are not removed by the slice [{lo}:{hi}]", f"delimiters removed by [{lo}:{hi}]")
    # integers
    ei = repo.func("explorerscript.util:exps_int")
    conv = [c for c in walk_no_nested(ei.node) if isinstance(c, ast.Call) and dotted(c.func) == "int" and len(c.args) == 2]
    p0 = astq.params_of(ei.node)[0]
    ok = bool(conv) and norm(conv[0].args[0]) == p0 and isinstance(conv[0].args[1], ast.Constant) and conv[0].args[1].value == 0
    if ok:
        chk.hold("C16-R3", "exps_int:base-detection", ei, "int(text, 0): Python's own base and sign handling")
    else:
        # a hand-written base detection: at least the sign must survive
        strips_sign = [c for c in walk_no_nested(ei.node) if isinstance(c, ast.Call) and isinstance(c.func, ast.Attribute)
                       and c.func.attr in ("lstrip", "removeprefix", "strip", "replace") and c.args and fold.try_expr(ei.mod, c.args[0]) == "-"]
        negates = any(isinstance(n, ast.UnaryOp) and isinstance(n.op, ast.USub) and not isinstance(n.operand, ast.Constant) for n in walk_no_nested(ei.node)) or any(
            isinstance(n, ast.BinOp) and isinstance(n.op, ast.Mult) and "-1" in norm(n) for n in walk_no_nested(ei.node))
        if strips_sign and not negates:
            chk.violation("C16-R3", "exps_int:base-detection", ei,
                          f"`{norm(strips_sign[0])}` removes the sign of the literal and nothing puts it back: `-0x10` compiles to +16 while its decimal "
                          "spelling `-16` stays negative", node=strips_sign[0])
        else:
            chk.unknown("C16-R3", "exps_int:base-detection", ei, "strings are not converted with int(text, 0); the hand-written base detection is not analysed")
    n_int = 0
    for f in repo.all_funcs():
        if not (f.mod.name.startswith(CH) or f.mod.name.startswith(LISTENER) or f.mod.name == "explorerscript.common_syntax"):
            continue
        for c in walk_no_nested(f.node):
            if isinstance(c, ast.Call) and dotted(c.func) == "int" and c.args and "INTEGER" in norm(c.args[0]):
                chk.violation("C16-R3", fkey(f, c), f, f"`{norm(c)}` converts an INTEGER token without base detection (0x10 fails or means something else)", node=c)
            if isinstance(c, ast.Call) and dotted(c.func) == "exps_int" and c.args and "INTEGER" in norm(c.args[0]):
                n_int += 1
    chk.floor("C16-R3", "INTEGER tokens converted through exps_int", n_int, 10)
    respelling_rule(chk, ctx, "C16-R4")



# --------------------------------------------------------------------------- R4: re-spellings compile identically (whole compiler interpreted)

BASE = """def 0 {
    @start;
    foo(16, -16, 0, 255, 1.5, -7.5, -0.5, 0.25, 'abc', 'it\\'s', 'say "hi"', "x");
    bar(1, 2, Position<'mark', 10, 20.5>);
    if ($V == 3) { jump @start; }
    switch ($S) { case 1: a(); break; default: b(); }
    baz<actor 7>({english='one', german="zwei"});
    $A = 8;
    end;
}
def 1 for actor 5 { c(); }
def 2 for object OBJ_X { d(); }
def 3 for performer 2 { e(); }
"""

RESPELLINGS: list[tuple[str, list[tuple[str, str]]]] = [
    ("label-definition-sign", [("@start;", "§start;")]),
    ("routine-header-style", [("for actor 5", "for_actor(5)"), ("for object OBJ_X", "for_object(OBJ_X)"), ("for performer 2", "for_performer(2)")]),
    ("trailing-commas", [('"x");', '"x",);'), ("20.5>);", "20.5>,);"), ('german="zwei"}', 'german="zwei",}')]),
    ("integer-bases-hex", [("foo(16, -16, 0, 255,", "foo(0x10, -0x10, 0x0, 0xFF,"), ("$A = 8;", "$A = 0x8;"), ("case 1:", "case 0x1:"), ("$V == 3", "$V == 0x3")]),
    ("integer-bases-bin-oct", [("foo(16, -16, 0, 255,", "foo(0b10000, -0b10000, 0b0, 0o377,"), ("$A = 8;", "$A = 0o10;"), ("actor 7", "actor 0b111")]),
    ("integer-zeros", [("foo(16, -16, 0, 255,", "foo(16, -16, 000, 255,")]),
    ("decimal-leading-zeros", [("1.5, -7.5, -0.5, 0.25", "001.5, -07.5, -00.5, 00.25"), ("20.5>", "020.5>")]),
    ("decimal-leading-zeros-2", [("1.5, -7.5, -0.5, 0.25", "01.5, -007.5, -000.5, 0.25")]),
    ("quote-style", [("'abc'", '"abc"'), ("'it\\'s'", '"it\'s"'), ("'say \"hi\"'", '"say \\"hi\\""'), ('"x"', "'x'"), ("'mark'", '"mark"'), ("'one'", '"one"'), ('"zwei"', "'zwei'")]),
    ("multi-line-quote-style", [("'abc'", "'''abc'''"), ('"x"', '"""x"""')]),
]


def _comments_variant(text: str) -> str:
    # block comments by the shape of their end (no, one, two, three stars before the slash), with stars and slashes inside
    out = "/* leading block\n   comment */\n// line comment\n/** doc style **/\n/***/ /* a * b / c ***/ /* // */\n" + text
    out = out.replace("{\n", "{ // after brace\n").replace(";\n", "; /* c */\n").replace("(16,", "( /* in args */ 16,").replace("== 3", "== /**/ 3").replace("$A = 8;", "/** before **/ $A = 8; /* * / **/")
    return out + "// trailing line comment without newline"


def respelling_rule(chk: Check, ctx: Any, rule: str) -> None:
    from ..engine.absint import AObj, PyExc, Unsupported
    from ..engine.sta import SpecError, WholeCompiler, TreeCompiler
    repo = ctx.repo
    g = ctx.grammar_exps
    wc = WholeCompiler(repo, ctx.fold, g)
    pr = TreeCompiler(repo, ctx.fold, {}).param_repr
    anchor = repo.func("explorerscript.ssb_converting.ssb_compiler:ExplorerScriptSsbCompiler.compile")

    def summary(text: str) -> Any:
        res = wc.compile(text, "$PERF")
        ops = [[(op.attrs["op_code"].attrs["name"], [pr(p) for p in op.attrs["params"]]) for op in r] for r in res["routine_ops"]]
        infos = [(i.attrs["type"].name, i.attrs["linked_to"], i.attrs["linked_to_name"]) if isinstance(i, AObj) else None for i in res["routine_infos"]]
        smb = res["visitor"].attrs["source_map_builder"]
        marks = [(m.attrs.get("name"), m.attrs.get("x_offset"), m.attrs.get("y_offset"), m.attrs.get("x_relative"), m.attrs.get("y_relative"))
                 for m in smb.attrs.get("_pos_marks", []) if isinstance(m, AObj)]
        return {"ops": ops, "routines": infos, "coroutines": [n for n in res["named_coroutines"] if isinstance(n, str)], "marks": marks}

    try:
        ref = summary(BASE)
    except (PyExc, Unsupported, SpecError) as e:
        chk.unknown(rule, "respelling:base", anchor, f"the base program is not evaluated: {e}")
        return
    variants: list[tuple[str, str]] = []
    for name, subs in RESPELLINGS:
        t = BASE
        ok = True
        for a, b in subs:
            if a not in t:
                ok = False
            t = t.replace(a, b, 1)
        variants.append((name, t if ok else ""))
    variants.append(("whitespace-one-line", " ".join(ln.strip() for ln in BASE.split("\n"))))
    variants.append(("whitespace-wide", BASE.replace("(", "(   ").replace(")", "\t )").replace("\n", "\n\n\t ")))
    variants.append(("whitespace-crlf", BASE.replace("\n", "\r\n")))
    variants.append(("whitespace-tight", BASE.replace(", ", ",").replace(" == ", "==").replace(" = ", "=").replace(") {", "){")))
    variants.append(("comments", _comments_variant(BASE)))
    variants.append(("comment-open-at-end-of-file", BASE + "/* a block comment that is still open at the end of the file"))
    variants.append(("comment-stars", BASE.replace("end;", "end; /** doc * with * stars **/ /***/")))
    n = 0
    for name, text in variants:
        key = f"respelling:{name}"
        if not text:
            chk.unknown(rule, key, anchor, "the re-spelling table no longer applies to the base program")
            continue
        n += 1
        try:
            got = summary(text)
        except SpecError as e:
            chk.violation(rule, key, anchor, f"the re-spelled program is rejected by the grammar although only its spelling changed: {e}")
            continue
        except PyExc as e:
            chk.violation(rule, key, anchor, f"the re-spelled program fails to compile ({e.cls_name}: {e.msg}) although only its spelling changed")
            continue
        except (Unsupported, AnalysisError) as e:
            chk.unknown(rule, key, anchor, f"abstract interpretation left the modelled subset: {e}")
            continue
        diffs = []
        for k in ("ops", "routines", "coroutines", "marks"):
            if got[k] != ref[k]:
                if k == "ops":
                    d = next(((a, b) for ra, rb in zip(ref[k], got[k]) for a, b in zip(ra, rb) if a != b), (None, None))
                    diffs.append(f"ops differ: {d[0]} became {d[1]}")
                else:
                    diffs.append(f"{k} differ: {ref[k]} became {got[k]}")
        chk.decide(rule, key, not diffs, anchor, f"re-spelling `{name}` changes the compiled program: " + "; ".join(diffs), "identical ops, routine table and position marks")
    # import paths: quote style
    iv = repo.cls("explorerscript.ssb_converting.compiler.compiler_visitor.import_visitor.ImportVisitor")
    outs = []
    for text in ('import "lib/a.exps";\nimport "b.exps";\ndef 0 { a(); }', "import 'lib/a.exps';\nimport 'b.exps';\ndef 0 { a(); }"):
        try:
            wc.I.steps = 0
            outs.append(wc.I.visit_dispatch(wc.I.new(iv), wc.parse(text)))
        except (PyExc, Unsupported, SpecError) as e:
            outs.append(f"not evaluated: {e}")
    n += 1
    chk.decide(rule, "respelling:import-quote-style", (outs[0] == outs[1] == ["lib/a.exps", "b.exps"]) if all(isinstance(o, list) for o in outs) else None, iv.mod,
               f"the imports of the double-quoted spelling are {outs[0]}, of the single-quoted spelling {outs[1]}", "import paths do not depend on the quote style")
    chk.floor(rule, "re-spellings compiled abstractly", n, 18)
