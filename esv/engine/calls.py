"""Resolved call graph and raise-set inference.

Call resolution: ``self.m()`` through the MRO plus overrides in subclasses, ``super().m()``, ``Cls(...)`` ->
``__init__``, module functions, ``Cls.m()`` static/class calls, attribute calls on objects of unknown class by
class-hierarchy analysis over in-repo method names, and the ANTLR visitor dispatch (``visit``/``accept``/
``visitChildren`` may reach every ``visit*`` method of the visitor classes).

Raise sets are sets of (escaping class, root class): *root* is the class of the exception at the bottom of the
``__context__`` chain when the escaping exception was raised inside an ``except`` handler — ExplorerScript's
``compile()`` re-raises exactly that root.
"""

from __future__ import annotations

import ast
import builtins
from dataclasses import dataclass, field
from typing import Any, Iterable

from .loader import Repo, Func, Cls, dotted, walk_no_nested
from .consts import Folder

# method names that are overwhelmingly container/stdlib calls: never resolved by name alone
_CONTAINER = {
    "append", "extend", "insert", "pop", "remove", "clear", "copy", "index", "count", "sort", "reverse", "get", "keys", "values",
    "items", "update", "setdefault", "add", "discard", "union", "join", "split", "strip", "lstrip", "rstrip", "replace", "startswith",
    "endswith", "format", "lower", "upper", "splitlines", "search", "match", "group", "read", "write", "close", "debug", "warning",
    "info", "error", "popitem", "intersection_update", "most_common", "isdigit", "partition", "rpartition", "find", "encode", "decode",
}

# in-repo method names that collide with container names but are real dispatch targets on handler objects
_REPO_DISPATCH = {"add", "collect"}

LIB_RAISES: dict[str, tuple[str, ...]] = {
    "int": ("ValueError",),
    "float": ("ValueError",),
    "next": ("StopIteration",),
    "json.loads": ("ValueError",),
    "json.load": ("ValueError",),
}


def builtin_exc(name: str) -> type | None:
    o = getattr(builtins, name, None)
    return o if isinstance(o, type) and issubclass(o, BaseException) else None


@dataclass
class CallSite:
    caller: Func
    node: ast.Call
    callees: list[Func]
    kind: str


class CallGraph:
    def __init__(self, repo: Repo, fold: Folder) -> None:
        self.repo = repo
        self.fold = fold
        self.methods_by_name: dict[str, list[Func]] = {}
        for f in repo.all_funcs():
            if f.cls is not None:
                self.methods_by_name.setdefault(f.node.name, []).append(f)
        self._sites: dict[str, list[CallSite]] = {}
        self._visitor_classes = [c for c in repo.all_classes() if any(m.startswith("visit") for m in c.methods)]
        self._listener_classes = [c for c in repo.all_classes() if any(m.startswith(("enter", "exit")) and m[4:5].isupper() or
                                                                       m.startswith("enter") and m[5:6].isupper() for m in c.methods)]
        self.unresolved: dict[str, int] = {}

    # ------------------------------------------------------------------ exception hierarchy
    def exc_supers(self, name: str) -> list[str]:
        """Class name and all its ancestors (in-repo classes by name, builtins by the real hierarchy)."""
        out = [name]
        try:
            c = self.repo.find_class(name)
        except Exception:
            c = None
        if c is not None:
            for k in self.repo.mro(c)[1:]:
                out.append(k.name)
            # first non-repo base
            for k in self.repo.mro(c):
                for b in k.base_exprs:
                    d = dotted(b)
                    if d and builtin_exc(d.split(".")[-1]):
                        out.extend(x.__name__ for x in builtin_exc(d.split(".")[-1]).__mro__ if x is not object)  # type: ignore[union-attr]
            return out
        b = builtin_exc(name)
        if b is not None:
            out.extend(x.__name__ for x in b.__mro__[1:] if x is not object)
        return out

    def catches(self, handler_types: Iterable[str] | None, exc: str) -> bool:
        if handler_types is None:
            return True  # bare except
        sup = set(self.exc_supers(exc))
        return any(h in sup for h in handler_types)

    # ------------------------------------------------------------------ call resolution
    def sites(self, f: Func) -> list[CallSite]:
        if f.qual in self._sites:
            return self._sites[f.qual]
        out: list[CallSite] = []
        for c in walk_no_nested(f.node):
            if isinstance(c, ast.Call):
                cs = self._resolve(f, c)
                if cs is not None:
                    out.append(cs)
        self._sites[f.qual] = out
        return out

    def _resolve(self, f: Func, c: ast.Call) -> CallSite | None:
        repo = self.repo
        fn = c.func
        d = dotted(fn)
        # self.m(...)
        if isinstance(fn, ast.Attribute) and isinstance(fn.value, ast.Name) and fn.value.id in ("self", "cls") and f.cls is not None:
            name = fn.attr
            if name in ("visit", "visitChildren") and any(m.startswith("visit") for k in repo.mro(f.cls) for m in k.methods):
                return CallSite(f, c, self._visit_targets([f.cls]), "antlr-visit")
            cands: list[Func] = []
            m = repo.find_method(f.cls, name)
            if m is not None:
                cands.append(m)
            for sub in repo.subclasses(f.cls, strict=True):
                if name in sub.methods:
                    cands.append(Func(sub.mod, sub, sub.methods[name]))
            if cands:
                return CallSite(f, c, _uniq(cands), "self")
            return None
        # super().m(...)
        if isinstance(fn, ast.Attribute) and isinstance(fn.value, ast.Call) and dotted(fn.value.func) == "super" and f.cls is not None:
            mro = repo.mro(f.cls)
            for k in mro[1:]:
                if fn.attr in k.methods:
                    return CallSite(f, c, [Func(k.mod, k, k.methods[fn.attr])], "super")
            return None
        # Name(...) / mod.func(...) / Cls.m(...)
        if d is not None:
            r = repo.resolve(f.mod, d)
            if r is not None:
                kind, obj = r
                if kind == "func":
                    return CallSite(f, c, [obj], "direct")  # type: ignore[list-item]
                if kind == "class":
                    init = repo.find_method(obj, "__init__")  # type: ignore[arg-type]
                    return CallSite(f, c, [init] if init else [], "ctor")
        # x.m(...) on something else
        if isinstance(fn, ast.Attribute):
            name = fn.attr
            if name in ("accept",):
                # tree.accept(visitor): visitor is usually the first argument
                vis = []
                if c.args:
                    a0 = c.args[0]
                    if isinstance(a0, ast.Call) and dotted(a0.func):
                        rr = repo.resolve(f.mod, dotted(a0.func) or "")
                        if rr and rr[0] == "class":
                            vis = [rr[1]]
                    elif isinstance(a0, ast.Name) and a0.id == "self" and f.cls is not None:
                        vis = [f.cls]
                return CallSite(f, c, self._visit_targets(vis or self._visitor_classes), "antlr-visit")  # type: ignore[arg-type]
            if name in ("visit", "visitChildren"):
                vis = []
                recv = fn.value
                if isinstance(recv, ast.Call) and dotted(recv.func):
                    rr = repo.resolve(f.mod, dotted(recv.func) or "")
                    if rr and rr[0] == "class":
                        vis = [rr[1]]
                return CallSite(f, c, self._visit_targets(vis or self._visitor_classes), "antlr-visit")  # type: ignore[arg-type]
            if name == "start" and isinstance(fn.value, ast.Name) and fn.value.id == "parser":
                # parse listeners run during parsing
                return CallSite(f, c, self._listener_targets(f), "antlr-listener")
            if name in _CONTAINER and name not in _REPO_DISPATCH:
                return None
            cands2 = self.methods_by_name.get(name, [])
            if name in _REPO_DISPATCH:
                # only handler-like classes (skip when the receiver is evidently a container: a local list/set literal)
                cands2 = [m for m in cands2 if m.cls is not None and ("Handler" in m.cls.name or "Handler" in "".join(
                    k.name for k in repo.mro(m.cls)))]
            if cands2:
                return CallSite(f, c, _uniq(cands2), "cha")
            self.unresolved[name] = self.unresolved.get(name, 0) + 1
        return None

    def _visit_targets(self, classes: list[Cls]) -> list[Func]:
        out: list[Func] = []
        for c in classes:
            seen = set()
            for k in self.repo.mro(c):
                for mname, m in k.methods.items():
                    if mname.startswith("visit") and mname not in seen and mname not in ("visitChildren", "visit"):
                        seen.add(mname)
                        out.append(Func(k.mod, k, m))
        return _uniq(out)

    def _listener_targets(self, f: Func) -> list[Func]:
        # listener classes instantiated in the calling function
        out: list[Func] = []
        for c in walk_no_nested(f.node):
            if isinstance(c, ast.Call) and dotted(c.func):
                r = self.repo.resolve(f.mod, dotted(c.func) or "")
                if r and r[0] == "class" and any(m.startswith(("enter", "exit")) for m in r[1].methods):  # type: ignore[union-attr]
                    k: Cls = r[1]  # type: ignore[assignment]
                    for mname, m in k.methods.items():
                        if mname.startswith(("enter", "exit")):
                            out.append(Func(k.mod, k, m))
        return _uniq(out)

    def reachable(self, roots: Iterable[Func]) -> dict[str, Func]:
        seen: dict[str, Func] = {}
        todo = list(roots)
        while todo:
            f = todo.pop()
            if f.qual in seen:
                continue
            seen[f.qual] = f
            for cs in self.sites(f):
                for g in cs.callees:
                    if g.qual not in seen:
                        todo.append(g)
        return seen


def _uniq(fs: list[Func]) -> list[Func]:
    seen = set()
    out = []
    for f in fs:
        if f.qual not in seen:
            seen.add(f.qual)
            out.append(f)
    return out


# --------------------------------------------------------------------------- raise sets


@dataclass(frozen=True)
class Esc:
    cls: str  # escaping exception class
    root: str  # class at the bottom of the __context__ chain
    site: str  # "file:line function"


@dataclass
class RaiseFacts:
    escapes: set[Esc] = field(default_factory=set)


class RaiseAnalysis:
    """Fixpoint over the call graph.  ``assert_policy(func, assert_node) -> bool`` says whether an assert may fire."""

    def __init__(self, cg: CallGraph, assert_policy: Any = None, extra_raises: Any = None) -> None:
        self.cg = cg
        self.repo = cg.repo
        self.assert_policy = assert_policy or (lambda f, n: False)
        self.extra_raises = extra_raises
        self.summary: dict[str, set[Esc]] = {}

    def analyse(self, roots: Iterable[Func]) -> None:
        funcs = self.cg.reachable(roots)
        for q in funcs:
            self.summary.setdefault(q, set())
        changed = True
        rounds = 0
        while changed and rounds < 50:
            changed = False
            rounds += 1
            for q, f in funcs.items():
                new = self.body_escapes(f, f.node.body, ctx_roots=None)
                if new != self.summary[q]:
                    if not new >= self.summary[q]:
                        new = new | self.summary[q]
                    if new != self.summary[q]:
                        self.summary[q] = new
                        changed = True

    # escapes of a statement list; ctx_roots = roots of the exception being handled when inside an except body
    def body_escapes(self, f: Func, body: list[ast.stmt], ctx_roots: set[str] | None) -> set[Esc]:
        out: set[Esc] = set()
        for st in body:
            out |= self.stmt_escapes(f, st, ctx_roots)
        return out

    def _mk(self, f: Func, node: ast.AST, cls: str, ctx_roots: set[str] | None, own_root: str | None = None) -> set[Esc]:
        site = f"{f.mod.relpath}:{getattr(node, 'lineno', 0)} {f.short}"
        if ctx_roots:
            return {Esc(cls, r, site) for r in ctx_roots}
        return {Esc(cls, own_root or cls, site)}

    def stmt_escapes(self, f: Func, st: ast.stmt, ctx_roots: set[str] | None) -> set[Esc]:
        out: set[Esc] = set()
        if isinstance(st, (ast.FunctionDef, ast.AsyncFunctionDef, ast.ClassDef)):
            return out
        if isinstance(st, ast.Try):
            body_esc = self.body_escapes(f, st.body, ctx_roots)
            # implicit lookups: a handler for KeyError/IndexError/LookupError says the author expects the subscripts of the body to fail
            declared_all = set()
            for h in st.handlers:
                declared_all |= set(self._handler_types(f, h) or [])
            for want in ("KeyError", "IndexError"):
                if want in declared_all or "LookupError" in declared_all:
                    for n in walk_no_nested(ast.Module(body=st.body, type_ignores=[])):
                        if isinstance(n, ast.Subscript) and isinstance(n.ctx, ast.Load) and not isinstance(n.slice, (ast.Slice, ast.Constant)) \
                                and want == "KeyError":
                            body_esc |= self._mk(f, n, "KeyError", ctx_roots)
                        elif isinstance(n, ast.Subscript) and isinstance(n.ctx, ast.Load) and want == "IndexError" \
                                and not isinstance(n.slice, ast.Slice):
                            body_esc |= self._mk(f, n, "IndexError", ctx_roots)
            remaining = set(body_esc)
            for h in st.handlers:
                types = self._handler_types(f, h)
                caught = {e for e in remaining if self.cg.catches(types, e.cls)}
                remaining -= caught
                # roots seen by the handler body: roots of what it catches; plus the declared classes themselves
                # (the author believes they can occur even if the analysis does not see the raise)
                roots = {e.root for e in caught}
                # the "raise the root of the context chain" idiom: `while ex.__context__ ...: ex = ex.__context__; raise ex`
                if self._is_unwrap_handler(h):
                    for r in roots:
                        out |= {Esc(r, r, f"{f.mod.relpath}:{h.lineno} {f.short} (context root re-raised)")}
                    continue
                hb = self.body_escapes(f, h.body, roots or None)
                # bare `raise` re-raises what was caught
                for n in walk_no_nested(ast.Module(body=h.body, type_ignores=[])):
                    if isinstance(n, ast.Raise) and n.exc is None:
                        hb |= caught
                    elif isinstance(n, ast.Raise) and isinstance(n.exc, ast.Name) and h.name and n.exc.id == h.name:
                        hb |= caught
                out |= hb
            out |= remaining
            out |= self.body_escapes(f, st.orelse, ctx_roots)
            out |= self.body_escapes(f, st.finalbody, ctx_roots)
            return out
        if isinstance(st, ast.Raise):
            if st.exc is not None:
                name = None
                e = st.exc
                if isinstance(e, ast.Call):
                    name = dotted(e.func)
                elif isinstance(e, (ast.Name, ast.Attribute)):
                    name = dotted(e)
                if name:
                    cname = name.split(".")[-1]
                    is_cls = builtin_exc(cname) is not None or self._is_repo_class(f, name)
                    if is_cls and cname != "AssertionError":
                        # an explicit `raise AssertionError(...)` is an internal assertion (policy: does not fire)
                        out |= self._mk(f, st, cname, ctx_roots)
            # expressions inside the raise (arguments) may call functions
            out |= self.expr_escapes(f, st, ctx_roots)
            return out
        if isinstance(st, ast.Assert):
            if self.assert_policy(f, st):
                out |= self._mk(f, st, "AssertionError", ctx_roots)
            out |= self.expr_escapes(f, st, ctx_roots)
            return out
        # compound statements
        for fld in ("body", "orelse", "finalbody"):
            sub = getattr(st, fld, None)
            if isinstance(sub, list) and sub and isinstance(sub[0], ast.stmt):
                out |= self.body_escapes(f, sub, ctx_roots)
        if isinstance(st, ast.Match):
            for case in st.cases:
                out |= self.body_escapes(f, case.body, ctx_roots)
        out |= self.expr_escapes(f, st, ctx_roots)
        return out

    def expr_escapes(self, f: Func, st: ast.stmt, ctx_roots: set[str] | None) -> set[Esc]:
        """Escapes of the calls in the statement's own expressions."""
        out: set[Esc] = set()
        own: list[ast.AST]
        if isinstance(st, (ast.If, ast.While)):
            own = [st.test]
        elif isinstance(st, (ast.For, ast.AsyncFor)):
            own = [st.iter]
        elif isinstance(st, (ast.With, ast.AsyncWith)):
            own = [i.context_expr for i in st.items]
        elif isinstance(st, ast.Try):
            own = []
        elif isinstance(st, ast.Match):
            own = [st.subject]
        else:
            own = [st]
        site_by_node = {id(cs.node): cs for cs in self.cg.sites(f)}
        for o in own:
            for n in walk_no_nested(o):
                if not isinstance(n, ast.Call):
                    continue
                d = dotted(n.func)
                if d in LIB_RAISES:
                    if d == "next" and not (len(n.args) == 1 and isinstance(n.args[0], ast.GeneratorExp)):
                        pass  # next() on counters / with a default does not end
                    else:
                        for cname in LIB_RAISES[d]:
                            out |= self._mk(f, n, cname, ctx_roots)
                if isinstance(n.func, ast.Attribute) and n.func.attr == "index" and len(n.args) == 1:
                    out |= self._mk(f, n, "ValueError", ctx_roots)
                cs = site_by_node.get(id(n))
                if cs is not None:
                    for g in cs.callees:
                        for e in self.summary.get(g.qual, ()):
                            if ctx_roots:
                                out |= {Esc(e.cls, r, e.site) for r in ctx_roots}
                            else:
                                out.add(e)
                if self.extra_raises is not None:
                    for cname in self.extra_raises(f, n) or ():
                        out |= self._mk(f, n, cname, ctx_roots)
        return out

    def _handler_types(self, f: Func, h: ast.ExceptHandler) -> list[str] | None:
        if h.type is None:
            return None
        elts = h.type.elts if isinstance(h.type, ast.Tuple) else [h.type]
        out = []
        for e in elts:
            d = dotted(e)
            if d:
                out.append(d.split(".")[-1])
        return out

    @staticmethod
    def _is_unwrap_handler(h: ast.ExceptHandler) -> bool:
        if not h.name:
            return False
        has_loop = any(isinstance(n, ast.While) and "__context__" in ast.unparse(n.test) for n in ast.walk(h))
        has_raise = any(isinstance(n, ast.Raise) and isinstance(n.exc, ast.Name) and n.exc.id == h.name for n in ast.walk(h))
        return has_loop and has_raise

    def _is_repo_class(self, f: Func, name: str) -> bool:
        r = self.repo.resolve(f.mod, name)
        return bool(r and r[0] == "class")
