from wlib import *
import itertools
IF = "if ($V == 1) { a(); }"
IFE = "if ($V == 1) { a(); } else { b(); }"
SW = "switch ($W) { case 1: c(); break; case 2: d(); break; }"
SWD = "switch ($W) { case 1: c(); break; default: d(); break; }"
bad = 0
for combo in itertools.product([IF, IFE, SW, SWD, "x();"], repeat=3):
    src = "def 0 { " + " ".join(combo) + " end; }"
    c = comp(src)
    txt, sm = decomp(c)
    if "is-ssb-script" in txt or "jump @" in txt:
        bad += 1
        if bad <= 6: print("BAD:", src, "->", "fallback" if "is-ssb-script" in txt else "jump")
print("bad", bad)
