"""Shared, lazily built analysis models."""

from __future__ import annotations

from functools import cached_property

from .loader import Repo
from .consts import Folder


class Ctx:
    def __init__(self, repo: Repo, tier: str) -> None:
        self.repo = repo
        self.tier = tier
        self.fold = Folder(repo)

    @cached_property
    def grammar_exps(self):  # type: ignore[no-untyped-def]
        from .g4 import load_grammar
        return load_grammar(self.repo, "ExplorerScript")

    @cached_property
    def grammar_ssbs(self):  # type: ignore[no-untyped-def]
        from .g4 import load_grammar
        return load_grammar(self.repo, "SsbScript")

    @cached_property
    def callgraph(self):  # type: ignore[no-untyped-def]
        from .calls import CallGraph
        return CallGraph(self.repo, self.fold)

    @cached_property
    def forms(self):  # type: ignore[no-untyped-def]
        from .forms import FormModel
        return FormModel(self)
