from wlib import *
from explorerscript.ssb_converting.ssb_data_types import *
def op(off, name, params): return SsbOperation(off, SsbOpCode(-1, name), params)
# an actor context applied to a branch op: well-formed SSB, not expressible as a with-block
ops = [[op(0, "lives", [1]), op(1, "BranchDebug", [1, 3]), op(2, "a", []), op(3, "End", [])]]
infos = [SsbRoutineInfo(SsbRoutineType.GENERIC, 0)]
d = ExplorerScriptSsbDecompiler(infos, ops, [], "$P", DungeonModeConstants("DC","DO","DR","DOR"))
try:
    txt, sm = d.convert(); print(txt)
except Exception as e:
    print("RAISED", type(e).__name__, e)
