"""REAL code: random macro projects vs. the same program with every call inlined by this generator."""
import random, sys, os, tempfile, logging, warnings, collections
warnings.filterwarnings("ignore"); logging.disable(logging.CRITICAL)
sys.path.insert(0,'/verif/witness')
from oplevel_probe import behaviour
from explorerscript.ssb_converting.ssb_compiler import ExplorerScriptSsbCompiler

class Gen:
    def __init__(self, seed):
        self.r=random.Random(seed); self.nop=0; self.nlab=0; self.nexp=0
        self.macros={}   # name -> (params, body)   body: list of nodes
        self.order=[]
    # nodes: ('op', name, [args]) ; ('if', var_or_param, k, body, else_body|None) ; ('ret',) ; ('lab', name) ; ('jmp', name) ; ('call', macro, [args])
    def arg(self, params):
        k=self.r.random()
        if params and k<0.5: return ('p', self.r.choice(params))
        if k<0.7: return ('c', self.r.randint(0,9))
        return ('c', "CONST_%d"%self.r.randint(0,3))
    def body(self, params, depth, callees, labels):
        out=[]
        for _ in range(self.r.randint(1,4)):
            k=self.r.random()
            if k<0.4:
                self.nop+=1; out.append(('op','op%d'%self.nop,[self.arg(params) for _ in range(self.r.randint(0,2))]))
            elif k<0.6 and depth>0:
                v=('p',self.r.choice(params)) if params and self.r.random()<0.6 else ('c','$V%d'%self.r.randint(0,3))
                out.append(('if', v, self.r.randint(0,3), self.body(params,depth-1,callees,labels), self.body(params,depth-1,callees,labels) if self.r.random()<0.4 else None))
            elif k<0.7:
                out.append(('ret',))
            elif k<0.8 and labels:
                out.append(('jmp', self.r.choice(labels)))
            elif callees:
                m=self.r.choice(callees)
                out.append(('call', m, [self.arg(params) for _ in self.macros[m][0]]))
            else:
                self.nop+=1; out.append(('op','op%d'%self.nop,[]))
        return out
    def make(self):
        n=self.r.randint(1,4)
        names=['m%d'%i for i in range(n)]
        for i,nm in enumerate(names):
            params=['$p%d'%j for j in range(self.r.randint(0,2))]
            labels=['l%d'%j for j in range(self.r.randint(0,2))]
            self.macros[nm]=(params,None)
            b=self.body(params,2,names[:i],labels)
            # place labels
            for lb in labels: b.insert(self.r.randint(0,len(b)),('lab',lb))
            self.macros[nm]=(params,b)
        self.order=names[:]; self.r.shuffle(self.order)
        self.main=self.body([],2,names,[])
    # ---- printing with macros
    def pa(self,a): return a[1] if a[0]=='p' else str(a[1])
    def show(self, body):
        s=[]
        for nd in body:
            if nd[0]=='op': s.append(f"{nd[1]}({', '.join(self.pa(a) for a in nd[2])});")
            elif nd[0]=='if':
                e=f" else {{ {self.show(nd[4])} }}" if nd[4] is not None else ""
                s.append(f"if ({self.pa(nd[1])} == {nd[2]}) {{ {self.show(nd[3])} }}{e}")
            elif nd[0]=='ret': s.append("return;")
            elif nd[0]=='lab': s.append(f"§{nd[1]};")
            elif nd[0]=='jmp': s.append(f"jump @{nd[1]};")
            elif nd[0]=='call': s.append(f"~{nd[1]}({', '.join(self.pa(a) for a in nd[2])});")
        return " ".join(s)
    def with_macros(self):
        defs=[f"macro {nm}({', '.join(self.macros[nm][0])}) {{ {self.show(self.macros[nm][1])} }}" for nm in self.order]
        return "\n".join(defs)+f"\ndef 0 {{ {self.show(self.main)} end; }}\n"
    # ---- inlining
    def inline(self, body, env, endlabel, labmap):
        s=[]
        for nd in body:
            sub=lambda a: (env[a[1]] if a[0]=='p' else str(a[1]))
            if nd[0]=='op': s.append(f"{nd[1]}({', '.join(sub(a) for a in nd[2])});")
            elif nd[0]=='if':
                e=f" else {{ {self.inline(nd[4],env,endlabel,labmap)} }}" if nd[4] is not None else ""
                s.append(f"if ({sub(nd[1])} == {nd[2]}) {{ {self.inline(nd[3],env,endlabel,labmap)} }}{e}")
            elif nd[0]=='ret': s.append(f"jump @{endlabel};" if endlabel else "return;")
            elif nd[0]=='lab': s.append(f"§{labmap[nd[1]]};")
            elif nd[0]=='jmp': s.append(f"jump @{labmap[nd[1]]};")
            elif nd[0]=='call':
                params,b=self.macros[nd[1]]
                self.nexp+=1; k=self.nexp
                env2={p: sub(a) for p,a in zip(params,nd[2])}
                lm={nd2[1]: f"x{k}_{nd2[1]}" for nd2 in self.walk(b) if nd2[0]=='lab'}
                for nd2 in self.walk(b):
                    if nd2[0]=='jmp' and nd2[1] not in lm: lm[nd2[1]]=f"x{k}_{nd2[1]}"
                s.append(self.inline(b,env2,f"xend{k}",lm)+f" §xend{k};")
        return " ".join(s)
    def walk(self, body):
        for nd in body:
            yield nd
            if nd[0]=='if':
                yield from self.walk(nd[3])
                if nd[4] is not None: yield from self.walk(nd[4])
    def inlined(self):
        return f"def 0 {{ {self.inline(self.main,{},None,{})} end; }}\n"

def comp(src):
    d=tempfile.mkdtemp(); p=os.path.join(d,"a.exps"); open(p,"w").write(src)
    c=ExplorerScriptSsbCompiler("$PERF",[]); c.compile(src,p); return c.routine_ops
c=collections.Counter(); shown=0
for seed in range(int(sys.argv[1]), int(sys.argv[2])):
    g=Gen(seed); g.make()
    a=g.with_macros(); b=g.inlined()
    try: ra=comp(a); ea=None
    except Exception as ex: ra=None; ea=type(ex).__name__+': '+str(ex)[:60]
    try: rb=comp(b); eb=None
    except Exception as ex: rb=None; eb=type(ex).__name__+': '+str(ex)[:60]
    if ea or eb:
        if bool(ea)!=bool(eb):
            c['accept-diff']+=1
            if shown<4: shown+=1; print('ACCEPT-DIFF',seed,ea,'|',eb); print(a); print(b)
        else: c['both-reject']+=1
        continue
    if behaviour(ra,depth=14)==behaviour(rb,depth=14): c['ok']+=1
    else:
        c['DIFF']+=1
        if shown<4: shown+=1; print('DIFF',seed); print(a); print(b)
print(dict(c))
