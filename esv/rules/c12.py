"""C12 — concurrent compilation and decompilation give the sequential results (decided by confinement)."""

from __future__ import annotations

import ast
from typing import Any

from ..engine import astq
from ..engine.cfg import build_cfg, stmt_of
from ..engine.loader import Func, dotted, norm, walk_no_nested
from ..engine.report import Check, fkey
from .c11 import inventory_rules, memo_rules, GU


def run(chk: Check, ctx: Any) -> None:
    repo = ctx.repo
    chk.explanation = (
        "Decided by confinement: two calls cannot influence each other if they share no mutable state. (R1) the run-time written module-level "
        "and class-level state of the hand-written package is exactly the audited table (the join-search memo and the CLI's op counter); class-level "
        "mutable defaults are re-bound per instance; no interpreter-wide setting is changed inside a function. (R2) every access to the memo "
        "table addresses the sub-table of one graph, cache[id(g)], with g a parameter (a graph local to one convert() call) — no whole-table clear "
        "or rebinding — and the sub-table is (re)created under the lock before it is written. (R3) = C11-R5: entries do not outlive their graph's "
        "decompilation. The lock discipline itself is reported as evidence only: under the GIL removing the lock changes no result. "
        "Trusted base: CPython's GIL makes single dict operations atomic; the ANTLR runtime's shared DFA caches and igraph are outside the analysis."
    )
    chk.assumptions = ["CPython GIL: single dict get/set operations are atomic", "antlr4 runtime and igraph are thread-safe for independent objects"]
    chk.rule("C12-R1", "shared-state inventory = audited table; class-level mutable defaults shadowed; no run-time change of interpreter-wide settings")
    chk.rule("C12-R2", "every read/write/delete of the memo goes through cache[id(<graph parameter>)]; no operation on the whole table; "
                       "the per-graph sub-table exists before it is written in the same function")
    chk.rule("C12-R3", "memo entries are cleared for every graph after the last pass that uses them (no entry outlives its graph)")

    inventory_rules(chk, ctx, "C12-R1", "C12-R1", "C12-R1")

    gu = repo.mod(GU)
    cache = "find_first_common_next_vertex_in_edges_cache"
    n_acc = 0
    lock_sites = []
    for fname, fn in gu.funcs.items():
        f = Func(gu, None, fn)
        params = set(astq.params_of(fn))
        if any(isinstance(n, ast.Global) and cache in n.names for n in walk_no_nested(fn)):
            chk.violation("C12-R2", f"{fname}:global", f, f"{fname} rebinds the memo table with `global {cache}`: concurrent calls lose or see each other's entries")
        for n in walk_no_nested(fn):
            if isinstance(n, ast.Name) and n.id == cache:
                n_acc += 1
        # classify each use of the table name by its parent expression
        parents = {}
        for p in walk_no_nested(fn):
            for c in ast.iter_child_nodes(p):
                parents[c] = p
        for n in walk_no_nested(fn):
            if not (isinstance(n, ast.Name) and n.id == cache):
                continue
            par = parents.get(n)
            key = fkey(f, par if par is not None else n)
            ok = False
            why = ""
            if isinstance(par, ast.Subscript) and par.value is n:
                k = par.slice
                if isinstance(k, ast.Call) and dotted(k.func) == "id" and k.args and isinstance(k.args[0], ast.Name) and k.args[0].id in params:
                    ok = True
                else:
                    why = f"the memo is indexed with {norm(k)}, not with id(<graph parameter>)"
            elif isinstance(par, ast.Compare) and any(isinstance(o, (ast.In, ast.NotIn)) for o in par.ops):
                l = par.left
                ok = isinstance(l, ast.Call) and dotted(l.func) == "id" and bool(l.args) and isinstance(l.args[0], ast.Name) and l.args[0].id in params
                why = "" if ok else f"membership test {norm(par)} is not on id(<graph parameter>)"
            elif isinstance(par, ast.Attribute) and par.value is n:
                why = (f"`{norm(parents.get(par, par))[:70]}` operates on the whole memo table: it removes or exposes the entries of graphs that other "
                       "threads are working on (their write-back then fails or they read foreign results)")
            else:
                why = f"the memo table is used as a whole in `{norm(par) if par is not None else cache}`"
            chk.decide("C12-R2", key, ok, f, why, "addresses cache[id(g)] of a graph parameter", node=par if par is not None else n)
        # a write cache[id(g)][k] = v must be preceded (in the function) by creation of the sub-table or a membership test
        for n in walk_no_nested(fn):
            if isinstance(n, ast.Assign) and isinstance(n.targets[0], ast.Subscript) and isinstance(n.targets[0].value, ast.Subscript) \
                    and isinstance(n.targets[0].value.value, ast.Name) and n.targets[0].value.value.id == cache:
                creates = [m for m in walk_no_nested(fn) if isinstance(m, ast.Assign) and isinstance(m.targets[0], ast.Subscript)
                           and isinstance(m.targets[0].value, ast.Name) and m.targets[0].value.id == cache and isinstance(m.value, ast.Dict)]

                def ensures(x: object, creates: list[ast.Assign] = creates) -> bool:
                    # an unconditional creation, or `if id(g) not in cache: cache[id(g)] = {}` taken as a whole
                    if any(x is c for c in creates):
                        return True
                    return isinstance(x, ast.If) and isinstance(x.test, ast.Compare) and isinstance(x.test.ops[0], ast.NotIn) and cache in norm(x.test) \
                        and any(c in x.body for c in creates)
                cfg = build_cfg(fn)
                st = stmt_of(cfg, n)
                if st is None or not creates:
                    ok2 = bool(creates) and None
                else:
                    ok2 = not cfg.path_avoiding(cfg.entry, st, ensures)
                chk.decide("C12-R2", fkey(f, n, "sub-table-exists"), ok2 if creates else False, f,
                           "the per-graph sub-table is written on a path on which this call has not made sure it exists (creation skipped or conditional): "
                           "when another thread holds the lock or cleared the table the write raises KeyError and the routine falls back to SsbScript",
                           "every path to the write passes the creation of the sub-table", node=n)
        for n in walk_no_nested(fn):
            if isinstance(n, ast.With) and any("cache_lock" in norm(i.context_expr) for i in n.items):
                lock_sites.append(f"{fname}:{n.lineno}")
    chk.floor("C12-R2", "accesses to the memo table", n_acc, 5)
    chk.extra["lock_discipline_evidence_only"] = {"with cache_lock sites": lock_sites,
                                                  "note": "all memo accesses sit inside `with cache_lock:`; not an armed rule (behaviour-preserving under the GIL)"}
    memo_rules(chk, ctx, "C12-R3")
