"""C09 — the decompile-time source map points at the statement printed for each op."""

from __future__ import annotations

import ast
import re
from typing import Any

from ..engine import astq
from ..engine.cfg import build_cfg, stmt_of
from ..engine.loader import AnalysisError, Func, Cls, dotted, norm, walk_no_nested
from ..engine.report import Check, fkey

DEC = "explorerscript.ssb_converting.ssb_decompiler"
SDEC = "explorerscript.ssb_script.ssb_converting.ssb_decompiler"
WH = "explorerscript.ssb_converting.decompiler.write_handlers"
GM = "explorerscript.ssb_converting.decompiler.graph_building.graph_minimizer"


def _aug_adds(fn: ast.FunctionDef, attr: str) -> list[ast.AugAssign]:
    return [n for n in walk_no_nested(fn) if isinstance(n, ast.AugAssign) and astq.self_attr(n.target) == attr and isinstance(n.op, ast.Add)]


def _newline_count_expr(e: ast.AST, text_var: str) -> bool | None:
    """True: counts exactly the '\\n' characters of text_var; False: known to differ; None: unknown."""
    t = norm(e)
    if t in (f"{text_var}.count('\\n')",):
        return True
    if t in (f"len({text_var}.split('\\n')) - 1",):
        return True
    if "splitlines" in t:
        return False  # splitlines also splits on \r, \x0b, \x0c, \x1c-\x1e, \x85, U+2028, U+2029
    if isinstance(e, ast.Constant):
        return None
    return None


def _line_accounting(chk: Check, ctx: Any, cls: Cls, stmt_writer: str, line_writer: str) -> None:
    repo = ctx.repo
    # who writes _output / _line_number
    allowed = {stmt_writer, line_writer, "convert", "__init__"}
    for mname, m in cls.methods.items():
        f = Func(cls.mod, cls, m)
        for attr, _v, st in astq.self_assigns(m):
            if attr in ("_output", "_line_number") and mname not in allowed:
                chk.violation("C09-R1", fkey(f, st), f,
                              f"{mname} writes self.{attr} directly: output and line counter are only kept in step inside {stmt_writer}/{line_writer}",
                              node=st)
    ws = repo.find_method(cls, stmt_writer)
    wl = repo.find_method(cls, line_writer)
    if ws is None or wl is None:
        raise AnalysisError(f"{cls.name}: {stmt_writer}/{line_writer} missing")
    # statement writer
    outs = _aug_adds(ws.node, "_output")
    lns = _aug_adds(ws.node, "_line_number")
    key = f"{cls.name}.{stmt_writer}"
    if len(outs) != 1 or not isinstance(outs[0].value, ast.Name):
        chk.unknown("C09-R1", key, ws, "self._output += <text parameter> not found exactly once")
    else:
        tv = outs[0].value.id
        if len(lns) != 1:
            chk.decide("C09-R1", key, False if not lns else None, ws,
                       f"{stmt_writer} appends text to the output without advancing the line counter by its newlines: every later source map entry "
                       "is too low after a multi-line string", "", node=outs[0])
        else:
            v = _newline_count_expr(lns[0].value, tv)
            chk.decide("C09-R1", key, v, ws,
                       f"the line counter is advanced by `{norm(lns[0].value)}`, which is not the number of '\\n' characters of the text written "
                       "(str.splitlines also breaks on \\r, \\x0b, \\x0c, \\x85, U+2028 ...): entries after such a string are shifted",
                       "line counter += text.count('\\n')", node=lns[0])
        # the statement writer starts a new line through the line writer when asked to
        calls_line = [c for c in walk_no_nested(ws.node) if isinstance(c, ast.Call) and dotted(c.func) == f"self.{line_writer}"]
        chk.decide("C09-R1", key + ":newline-through-line-writer", len(calls_line) == 1, ws,
                   f"{stmt_writer} does not start the new line through {line_writer} (exactly once)", "new line via the line writer")
    # line writer: += 1 and "\n" exactly once
    outs = _aug_adds(wl.node, "_output")
    lns = _aug_adds(wl.node, "_line_number")
    nl = sum(ctx.fold.try_expr(cls.mod, o.value).count("\n") for o in outs if isinstance(ctx.fold.try_expr(cls.mod, o.value), str))
    inc = sum(l.value.value for l in lns if isinstance(l.value, ast.Constant) and isinstance(l.value.value, int))
    nonconst = [l for l in lns if not isinstance(l.value, ast.Constant)]
    other = [o for o in outs if not isinstance(ctx.fold.try_expr(cls.mod, o.value), str)]
    # non-literal pieces must be indentation: " " * (...)
    indent_ok = all(isinstance(o.value, ast.BinOp) and isinstance(o.value.op, ast.Mult) and isinstance(o.value.left, ast.Constant)
                    and "\n" not in str(o.value.left.value) for o in other)
    chk.decide("C09-R1", f"{cls.name}.{line_writer}", (nl == inc and not nonconst and indent_ok) if outs else None, wl,
               f"{line_writer} writes {nl} newline(s) but advances the line counter by {inc}", f"{nl} newline <-> +{inc}")
    # convert(): resets
    conv = repo.find_method(cls, "convert")
    assert conv is not None
    resets: dict[str, ast.expr] = {}
    for a, v, _s in sorted(astq.self_assigns(conv.node), key=lambda t: t[2].lineno):
        if a in ("_output", "_line_number") and a not in resets and not (isinstance(_s, ast.Assign) and isinstance(_s.targets[0], ast.Tuple)):
            resets[a] = v
    o = resets.get("_output")
    l = resets.get("_line_number")
    ok: bool | None = None
    if o is not None and l is not None:
        ov = ctx.fold.try_expr(cls.mod, o)
        lv = ctx.fold.try_expr(cls.mod, l)
        if isinstance(ov, str) and isinstance(lv, int):
            ok = lv == ov.count("\n") + 1
        elif isinstance(o, ast.Name):
            ok = norm(l) in (f"{o.id}.count('\\n') + 1", f"1 + {o.id}.count('\\n')")
    chk.decide("C09-R1", f"{cls.name}.convert:reset", ok, conv,
               f"convert() starts with output {norm(o) if o is not None else None} and line counter {norm(l) if l is not None else None}: the counter must be "
               "(newlines already written) + 1", "line counter = newlines in initial output + 1")


def run(chk: Check, ctx: Any) -> None:
    repo = ctx.repo
    chk.explanation = (
        "Decides for all inputs: (R1) in both decompilers the output text and the line counter are written only by the statement/line writers "
        "and convert(), each text append advances the counter by exactly the text's '\\n' count, the line writer's newline matches its +1, and "
        "convert() starts the counter at (newlines in the initial output)+1; (R2) in every writer method the source-map registration of an op is "
        "followed on every path by a write that starts a new line (the registered line is the *next* line), with no other write in between, "
        "or is registered with the same-line flag when the statement continues the current line; (R3) every write handler that prints an op's own "
        "statement registers it, under that op's offset; (R4) vertices created by the graph passes carry no offset of a real op into a "
        "registration. Not decided: columns of statements inside multi-line strings."
        " (R5/R6, interpreter-based) the decompiler's own map is compared with the printed text and with the map of the recompiled text on the program families"
        "."
    )
    chk.rule("C09-R6", "round trip, every stage interpreted: each source-map entry of convert() is keyed by an input offset and points at the first character of the statement printed for that op; recompiling the text puts the op on the same line")
    chk.rule("C09-R1", "who-may-write _output/_line_number; each append of text T is paired with += T.count('\\n'); line writer newline <-> +1; reset consistent")
    chk.rule("C09-R2", "after source_map_add_opcode(x) the next output operation on every path is write_stmnt(<text>) starting a new line "
                       "(or the registration is made for the current line when the statement is appended to it)")
    chk.rule("C09-R3", "every write handler that prints a statement for an op registers that op's offset (argument is <op>.offset of the handler's own op)")
    chk.rule("C09-R4", "a synthetic vertex created by a graph pass from another vertex's op must not register that op's offset again")

    dcls = repo.cls(f"{DEC}.ExplorerScriptSsbDecompiler")
    scls = repo.cls(f"{SDEC}.SsbScriptSsbDecompiler")
    _line_accounting(chk, ctx, dcls, "write_stmnt", "write_line")
    _line_accounting(chk, ctx, scls, "write_stmnt", "_write_line")

    # the fallback text is exactly what the SsbScript decompiler wrote for the prefix it was given (its map counts only that)
    from .c06 import fallback_output_rule
    chk.rule("C09-R5", "recompilation: the compiler (interpreted on laid-out sample programs incl. message switches, loops, contexts) records every op on the line "
                       "where its statement, header or case begins, which is the line the decompiler printed it on")
    from .positions import direct_positions_rule
    direct_positions_rule(chk, ctx, "C09-R5", line_only=True)
    fallback_output_rule(chk, ctx, "C09-R1")

    # source_map_add_opcode itself: line = self._line_number (next line) or current line when flagged
    sma = repo.func(f"{DEC}:ExplorerScriptSsbDecompiler.source_map_add_opcode")
    calls = [c for c in walk_no_nested(sma.node) if isinstance(c, ast.Call) and isinstance(c.func, ast.Attribute) and c.func.attr == "add_opcode"]
    if len(calls) < 1:
        chk.unknown("C09-R2", "source_map_add_opcode:shape", sma, "smb.add_opcode(...) call not found")
    else:
        for c in calls:
            a = [astq.inline_locals(sma.node, x) for x in c.args]
            ok = len(a) == 3 and norm(a[0]) == astq.params_of(sma.node)[0]
            chk.decide("C09-R2", fkey(sma, c, "offset"), ok, sma, "the entry is not stored under the offset it was called with", "keyed by the given offset", node=c)

    # ------------------------------------------------------------------ R2 / R3 over all writer methods
    n_reg = 0
    handler_classes = [c for c in repo.all_classes() if c.mod.name.startswith(WH)]
    printing_classes: dict[str, bool] = {}
    for c in handler_classes + [scls]:
        for mname, m in c.methods.items():
            f = Func(c.mod, c, m)
            regs = [x for x in walk_no_nested(m) if isinstance(x, ast.Call) and isinstance(x.func, ast.Attribute)
                    and x.func.attr in ("source_map_add_opcode",) or (isinstance(x, ast.Call) and isinstance(x.func, ast.Attribute)
                                                                       and x.func.attr == "add_opcode" and c is scls)]
            writes_stmt = [x for x in walk_no_nested(m) if isinstance(x, ast.Call) and isinstance(x.func, ast.Attribute)
                           and x.func.attr in ("write_stmnt", "write_return", "write_end", "write_hold", "_write_return", "_write_end", "_write_hold")]
            if writes_stmt and c is not scls:
                printing_classes.setdefault(c.name, False)
            if not regs:
                continue
            printing_classes[c.name] = True
            cfg = build_cfg(m)
            for r in regs:
                n_reg += 1
                rst = stmt_of(cfg, r)
                if rst is None:
                    chk.unknown("C09-R2", fkey(f, r), f, "registration statement not found in the CFG", node=r)
                    continue

                def is_output(n: object) -> bool:
                    if not isinstance(n, ast.stmt) or n is rst:
                        return False
                    own = [n.test] if isinstance(n, (ast.If, ast.While)) else [n.iter] if isinstance(n, ast.For) else \
                        [i.context_expr for i in n.items] if isinstance(n, ast.With) else [] if isinstance(n, ast.Try) else [n]
                    for o in own:
                        for x in ast.walk(o):
                            if isinstance(x, ast.Call) and isinstance(x.func, ast.Attribute) and x.func.attr in (
                                    "write_stmnt", "write_line", "_write_line", "write_return", "write_end", "write_hold", "_write_return",
                                    "_write_end", "_write_hold", "write_label_jump", "write_content", "Blk"):
                                return True
                            if isinstance(x, ast.Call) and dotted(x.func) == "Blk":
                                return True
                    return False
                # first output operations reachable after the registration
                firsts: list[ast.stmt] = []
                seen = {id(rst)}
                todo = list(cfg.succ.get(rst, []))
                while todo:
                    n = todo.pop()
                    if id(n) in seen:
                        continue
                    seen.add(id(n))
                    if is_output(n):
                        firsts.append(n)  # type: ignore[arg-type]
                        continue
                    todo.extend(cfg.succ.get(n, []))
                same_line_flag = any(k.arg in ("same_line", "continues_line") and not (isinstance(k.value, ast.Constant) and k.value.value is False)
                                     for k in r.keywords)
                bad = []
                for n in firsts:
                    own_n = [n.test] if isinstance(n, (ast.If, ast.While)) else [n.iter] if isinstance(n, ast.For) else \
                        [i.context_expr for i in n.items] if isinstance(n, ast.With) else [] if isinstance(n, ast.Try) else [n]
                    own_calls = [x for o in own_n for x in ast.walk(o) if isinstance(x, ast.Call)]
                    wcalls = [x for x in own_calls if isinstance(x.func, ast.Attribute) and x.func.attr in ("write_stmnt",)]
                    direct = [x for x in own_calls if isinstance(x.func, ast.Attribute)
                              and x.func.attr in ("write_return", "write_end", "write_hold", "_write_return", "_write_end", "_write_hold")]
                    if direct:
                        continue
                    if any(dotted(x.func) == "Blk" for x in own_calls):
                        bad.append((n, "the next output is the opening brace of a block, appended to the line that was written before the registration"))
                        continue
                    delegated = [x for x in own_calls if isinstance(x.func, ast.Attribute) and x.func.attr == "write_content"]
                    if delegated and not wcalls:
                        continue  # the delegated writer registers its own op and starts the same new line
                    if not wcalls:
                        bad.append((n, "the next output operation is not a statement write"))
                        continue
                    w = wcalls[0]
                    line_arg = w.args[1] if len(w.args) > 1 else next((k.value for k in w.keywords if k.arg == "line"), None)
                    if line_arg is None or (isinstance(line_arg, ast.Constant) and line_arg.value is True):
                        if same_line_flag:
                            bad.append((n, "registered for the current line but the statement starts a new line"))
                        continue
                    if isinstance(line_arg, ast.Constant) and line_arg.value is False:
                        if not same_line_flag:
                            bad.append((n, "the statement is appended to the current line (line=False) but the entry was registered for the next line"))
                        continue
                    # variable: must be passed consistently to the registration
                    passed = any(norm(k.value) in (f"not {norm(line_arg)}", norm(line_arg)) for k in r.keywords) or any(
                        norm(line_arg) in norm(a) for a in r.args[1:])
                    if not passed:
                        bad.append((n, f"whether the statement starts a new line depends on `{norm(line_arg)}`, which the registration ignores: "
                                       "for a statement appended to the current line the entry points one line too low"))
                key = fkey(f, r)
                if not firsts:
                    # JumpWriteHandler registers without printing (label handler prints later): accepted idiom, nothing to order
                    chk.hold("C09-R2", key, f, "no output follows in this method", node=r)
                elif bad:
                    chk.violation("C09-R2", key, f, f"after `{norm(r)}`: {bad[0][1]} (`{norm(bad[0][0])[:80]}`)", node=r)
                else:
                    chk.hold("C09-R2", key, f, "next output starts the registered line", node=r)
                # R3: argument is <something>.offset
                a0 = astq.inline_locals(m, r.args[0]) if r.args else None
                okoff = isinstance(a0, ast.Attribute) and a0.attr == "offset"
                chk.decide("C09-R3", key + ":offset", okoff if a0 is not None else None, f,
                           f"registered key {norm(a0) if a0 is not None else None} is not the offset of an op", "keyed by an op offset", node=r)
    chk.floor("C09-R2", "source map registrations in writers", n_reg, 13)
    # R3 coverage: classes that print statements but never register (excluding structural printers)
    structural = {"RoutineWriteHandler", "LabelWriteHandler", "ForeignLabelWriteHandler", "BlockWriteHandler", "ForeverWriteHandler",
                  "LabelJumpWriteHandler", "SimpleOperationWriteHandler"}
    for cname, has in sorted(printing_classes.items()):
        if cname in structural:
            continue
        c = repo.find_class(cname)
        chk.decide("C09-R3", f"{cname}:registers", has, c.mod,
                   f"{cname} prints a statement for an op but never registers it in the source map: the op has no entry", "registers its op")

    # a plain Jump is printed by the handler of the vertex after it (label / foreign label): its entry is registered on every path of the jump handler
    jw = repo.func(f"{WH}.label_jumps.jump:JumpWriteHandler.write_content")
    jcfg = build_cfg(jw.node)

    def _registers(n: object) -> bool:
        return isinstance(n, ast.stmt) and not isinstance(n, (ast.If, ast.For, ast.While, ast.Try, ast.With)) and any(
            isinstance(c, ast.Call) and isinstance(c.func, ast.Attribute) and c.func.attr in ("source_map_add_opcode", "source_map_add_jump_opcode") for c in ast.walk(n))
    has_reg = any(_registers(n) for n in jcfg.stmt_nodes())
    if not has_reg:
        chk.violation("C09-R3", "JumpWriteHandler:registers-always", jw, "the jump handler never registers the Jump op: `jump @label;` statements have no entry")
    else:
        skip = jcfg.path_avoiding(jcfg.entry, jcfg.exit, _registers)
        if not skip:
            chk.hold("C09-R3", "JumpWriteHandler:registers-always", jw, "registered on every path")
        else:
            tests = [norm(n.test) for n in walk_no_nested(jw.node) if isinstance(n, ast.If) and any(_registers(x) for x in ast.walk(n))]
            only_labels = any("SsbLabel)" in t and "SsbForeignLabel" not in t for t in tests)
            if tests and all(re.fullmatch(r"not [\w.\[\]'\"]+\.synthetic( and [\w.\[\]'\"]+\.root\.op_code\.name == (OP_JUMP|'Jump'|\"Jump\"))?", t) for t in tests):
                # the idiom of the break/continue writers: a vertex inserted by the loop pass is not an op and has no entry of its own (C09-R4)
                chk.hold("C09-R3", "JumpWriteHandler:registers-always", jw, "registered on every path for the Jump ops of the input (inserted vertices, and the jumps written for Case ops, are skipped)")
            else:
              chk.decide("C09-R3", "JumpWriteHandler:registers-always", False if only_labels else None, jw,
                       f"the Jump op is registered only under `{tests[0] if tests else '?'}`: a jump into another routine is followed by a foreign label vertex, whose "
                       "handler prints `jump @label;` for it, and that statement has no source map entry", "registered on every path")
    # ------------------------------------------------------------------ R4 synthetic vertices
    gm = repo.cls(f"{GM}.SsbGraphMinimizer")
    n_syn = 0
    for mname, m in gm.methods.items():
        f = Func(gm.mod, gm, m)
        for c in walk_no_nested(m):
            if isinstance(c, ast.Call) and isinstance(c.func, ast.Attribute) and c.func.attr == "add_vertex":
                opk = next((k.value for k in c.keywords if k.arg == "op"), None)
                if opk is None or not (isinstance(opk, ast.Call) and dotted(opk.func) == "SsbLabelJump"):
                    continue
                src = opk.args[0] if opk.args else None
                if src is None or not (isinstance(src, ast.Subscript) and norm(src.slice) == "'op'"):
                    continue
                n_syn += 1
                # which marker does the synthetic vertex get -> which handler registers it
                key = fkey(f, c)
                # the handlers for ForeverBreak/ForeverContinue register self.start_vertex["op"].offset
                synthetic_marked = any(isinstance(k, ast.keyword) and k.arg in ("synthetic",) and isinstance(k.value, ast.Constant) and k.value.value is True
                                       for k in opk.keywords)
                # ... or `<vertex var>["op"].synthetic = True` for the variable the new vertex is assigned to
                par = next((a for a in walk_no_nested(m) if isinstance(a, ast.Assign) and a.value is c and isinstance(a.targets[0], ast.Name)), None)
                if par is not None:
                    vn = par.targets[0].id  # type: ignore[union-attr]
                    for n in walk_no_nested(m):
                        if isinstance(n, ast.Assign) and norm(n.targets[0]) == f"{vn}['op'].synthetic" and isinstance(n.value, ast.Constant) and n.value.value is True:
                            synthetic_marked = True
                offset_reset = False
                # look for `<var>["op"].offset = -1` or similar neutralisation right after
                for n in walk_no_nested(m):
                    if isinstance(n, ast.Assign) and any(isinstance(t, ast.Attribute) and t.attr == "offset" for t in n.targets):
                        offset_reset = True
                guards = _handlers_skip_synthetic(repo)
                ok = offset_reset or (guards and synthetic_marked)
                chk.decide("C09-R4", key, ok, f,
                           f"`{norm(opk)}` gives the synthetic break/continue vertex the offset of `{norm(src)}` (SsbLabelJump copies root.offset); its "
                           "write handler registers that offset again, so the source map entry of the real op (an if/switch header or operation) "
                           "is overwritten with the line of `break_loop;`/`continue;`", "synthetic vertex does not re-register a real op's offset", node=c)
    chk.floor("C09-R4", "synthetic vertices created by graph passes", n_syn, 2)
    from .roundtrip import summarise as _rt
    from .ssbs_roundtrip import ssbs_sourcemap_rule
    ssbs_sourcemap_rule(chk, ctx, "C09-R6")
    _rt(chk, ctx, "C09-R6", "C09", getattr(ctx, "tier", "quick") == "thorough")



def _handlers_skip_synthetic(repo: Any) -> bool:
    """Do the ForeverBreak/ForeverContinue writers avoid registering when the vertex is synthetic (e.g. root is not a Jump)?"""
    ok_all = True
    for spec in (f"{WH}.label_jumps.forever_break:ForeverBreakWriteHandler.write_content",
                 f"{WH}.label_jumps.forever_continue:ForeverContinueWriteHandler.write_content"):
        f = repo.func(spec)
        regs = [x for x in walk_no_nested(f.node) if isinstance(x, ast.Call) and isinstance(x.func, ast.Attribute) and x.func.attr == "source_map_add_opcode"]
        if not regs:
            continue
        guarded = False
        for n in walk_no_nested(f.node):
            if isinstance(n, ast.If) and any(x is regs[0] for x in ast.walk(n)):
                t = norm(n.test)
                if "OP_JUMP" in t or "synthetic" in t or "is_synthetic" in t:
                    guarded = True
        ok_all = ok_all and guarded
    return ok_all
