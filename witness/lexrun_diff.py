"""Triage tool (not a check): compares /verif's model of the RegexLexer loop with pygments itself on the sample texts of C17-R6.

Run:  PYTHONPATH=/verif:/repo /venv/bin/python witness/lexrun_diff.py
"""
import ast
import re
import sys

sys.path.insert(0, "/verif")
from esv.rules import lexrun  # noqa: E402

from explorerscript.pygments.expslexer import ExplorerScriptLexer  # noqa: E402  (the real lexer: witness only)


def table_from_real():
    """The executable table, built the same way rules/c17.py does but from the processed token definitions."""
    lx = ExplorerScriptLexer()
    out = {}
    for st, rules in lx._tokens.items():
        out[st] = []
        for rexmatch, action, new_state in rules:
            pat = rexmatch.__self__
            ns = None
            if new_state is not None:
                if isinstance(new_state, int):
                    ns = "#pop" if new_state == -1 else f"#pop:{-new_state}"
                else:
                    ns = tuple(new_state)
            out[st].append({"rx": pat, "emit": [(0, lexrun.token_type(str(action).replace("Token.", "").replace("Literal.", "")) or lexrun.TokType.get(tuple(str(action).split(".")[1:])))],
                            "new": ns, "pattern": pat.pattern})
    return out, lx


def main():
    table, lx = table_from_real()
    bad = 0
    n = 0
    for title, text in lexrun.ACCEPTED_SOURCES + lexrun.ANY_TEXTS:
        t2 = text.replace("\r\n", "\n").replace("\r", "\n")
        real = [(i, str(t), v) for i, t, v in lx.get_tokens_unprocessed(t2)]
        mine = [(i, repr(t), v) for i, t, v in lexrun.lex(table, 0, t2)]
        n += 1
        if real != mine:
            bad += 1
            for a, b in zip(real, mine):
                if a != b:
                    print("MISMATCH", title, a, b)
                    break
            else:
                print("MISMATCH (length)", title, len(real), len(mine))
    print(f"{n} texts, {bad} mismatches")


main()
