"""Differential test of esv.engine.migraph against the real python-igraph (triage tool: run with /venv/bin/python; never used by a check)."""
import random, sys
sys.path.insert(0, "/verif")
import igraph
from esv.engine.migraph import MGraph, MGraphError

def snap_real(g):
    return ([v.attributes() for v in g.vs], [(e.tuple, e.attributes()) for e in g.es])
def snap_m(g):
    return ([v.attributes() for v in g.vs], [(e.tuple, e.attributes()) for e in g.es])

def run(seed):
    rnd = random.Random(seed)
    R = igraph.Graph(directed=True); M = MGraph(directed=True)
    hr, hm = [], []   # kept vertex handles
    er, em = [], []   # kept edge handles
    for step in range(rnd.randint(5, 60)):
        op = rnd.choice(["av", "av", "ae", "ae", "ae", "de", "dv", "q", "q", "q", "attr", "handle"])
        n = R.vcount()
        try:
            if op == "av":
                nm = rnd.choice([None, f"n{step}"])
                a = R.add_vertex(nm, op=step); b = M.add_vertex(nm, op=step)
                hr.append(a); hm.append(b)
            elif op == "ae" and n:
                s, t = rnd.randrange(n), rnd.randrange(n)
                kw = rnd.choice([{}, {"k": step}, {"flow": step % 3, "k": None}])
                a = R.add_edge(s, t, **kw); b = M.add_edge(s, t, **kw)
                er.append(a); em.append(b)
                assert a.index == b.index
            elif op == "de" and R.ecount():
                ids = rnd.sample(range(R.ecount()), rnd.randint(1, min(3, R.ecount())))
                how = rnd.choice(["ids", "one", "handles"])
                if how == "ids":
                    R.delete_edges(ids); M.delete_edges(ids)
                elif how == "one":
                    R.delete_edges(ids[0]); M.delete_edges(ids[0])
                else:
                    R.delete_edges({R.es[i] for i in ids}); M.delete_edges({M.es[i] for i in ids})
            elif op == "dv" and n:
                ids = rnd.sample(range(n), rnd.randint(1, min(2, n)))
                if rnd.random() < 0.5:
                    R.delete_vertices(ids); M.delete_vertices(ids)
                else:
                    R.delete_vertices({R.vs[i] for i in ids}); M.delete_vertices({M.vs[i] for i in ids})
            elif op == "attr" and n:
                i = rnd.randrange(n)
                R.vs[i]["label"] = step; M.vs[i]["label"] = step
                if R.ecount():
                    j = rnd.randrange(R.ecount()); R.es[j]["w"] = step; M.es[j]["w"] = step
            elif op == "handle" and hr:
                k = rnd.randrange(len(hr))
                try: a = ("ok", hr[k].index, hr[k].attributes())
                except Exception as e: a = ("err",)
                try: b = ("ok", hm[k].index, hm[k].attributes())
                except MGraphError as e: b = ("err",)
                assert a == b, ("handle", a, b)
                if er:
                    k = rnd.randrange(len(er))
                    try: a = ("ok", er[k].index, er[k].tuple, er[k].attributes())
                    except Exception as e: a = ("err",)
                    try: b = ("ok", em[k].index, em[k].tuple, em[k].attributes())
                    except MGraphError as e: b = ("err",)
                    assert a == b, ("ehandle", a, b)
            elif op == "q" and n:
                v = rnd.randrange(n); w = rnd.randrange(n)
                for mode in ("out", "in", "all"):
                    assert R.incident(v, mode=mode) == M.incident(v, mode=mode), ("incident", mode, R.incident(v, mode=mode), M.incident(v, mode=mode))
                assert [e.index for e in R.vs[v].out_edges()] == [e.index for e in M.vs[v].out_edges()]
                assert [e.index for e in R.vs[v].in_edges()] == [e.index for e in M.vs[v].in_edges()]
                assert [x.index for x in R.bfsiter(v)] == [x.index for x in M.bfsiter(v)], "bfs"
                assert R.get_all_simple_paths(v, w) == M.get_all_simple_paths(v, w), ("asp", R.get_all_simple_paths(v, w), M.get_all_simple_paths(v, w))
                assert R.get_all_simple_paths(v) == M.get_all_simple_paths(v), "asp-all"
                sr, sm = R.get_shortest_paths(v, w), M.get_shortest_paths(v, w)
                assert [len(p) for p in sr] == [len(p) for p in sm], ("sp-len", sr, sm)
                assert sr == sm, ("sp", sr, sm, [e.tuple for e in R.es])
                assert R.get_shortest_paths(v) == M.get_shortest_paths(v), "sp-all"
                assert R.are_adjacent(v, w) == M.are_adjacent(v, w)
                assert R.get_eid(v, w, error=False) == M.get_eid(v, w, error=False), ("get_eid", v, w, R.get_eid(v, w, error=False), M.get_eid(v, w, error=False), [e.tuple for e in R.es])
                assert R.get_eid(v, w, error=False, directed=False) == M.get_eid(v, w, error=False, directed=False), ("get_eid undirected", v, w, [e.tuple for e in R.es])
                if R.is_dag():
                    assert R.topological_sorting() == M.topological_sorting(), ("topo", R.topological_sorting(), M.topological_sorting())
                else:
                    assert not M.is_dag()
        except AssertionError:
            raise
        assert snap_real(R) == snap_m(M), ("state", op, snap_real(R), snap_m(M))
        c1, c2 = R.copy(), M.copy()
        assert snap_real(c1) == snap_m(c2)

bad = 0
for seed in range(int(sys.argv[1]) if len(sys.argv) > 1 else 3000):
    try:
        run(seed)
    except AssertionError as e:
        bad += 1
        if bad <= 5:
            print("MISMATCH seed", seed, str(e)[:600])
print("done; mismatches:", bad)
