"""Confirm seeded changes against /repo HEAD in scratch worktrees and store the confirmed ones under /verif/seeded/.

For each /tmp/seed/<ID>/<n>/{patch.diff,demo.py,meta.json}: demo passes on the clean tree, fails with the patch, the 111 tests pass with
the patch.  Then every built check is run against a scratch copy with the patch applied and the result is recorded in meta.json.
"""
import json
import os
import shutil
import subprocess
import sys
import tempfile
from concurrent.futures import ThreadPoolExecutor
from pathlib import Path

SEED = Path(os.environ.get("SEED_ROOT", "/tmp/seed"))
OUT = Path("/verif/seeded")
PY = "/venv/bin/python"


def sh(cmd, cwd=None, env=None, timeout=900):
    p = subprocess.run(cmd, cwd=cwd, env=env, capture_output=True, text=True, timeout=timeout)
    return p.returncode, (p.stdout + p.stderr)


def built_props():
    return sorted(p.stem.upper() for p in Path("/verif/esv/rules").glob("c[0-9][0-9].py"))


def confirm(seed_dir: Path):
    sid = f"{seed_dir.parent.name}-{seed_dir.name}"
    meta = json.load(open(seed_dir / "meta.json"))
    wt = Path(tempfile.mkdtemp(prefix=f"wt-{sid}-"))
    res = {"id": sid, "ok": False}
    try:
        rc, out = sh(["git", "-C", "/repo", "worktree", "add", "--detach", str(wt), "HEAD", "-f"])
        if rc != 0:
            res["error"] = "worktree: " + out[-200:]
            return res
        env = dict(os.environ, PYTHONPATH=str(wt))
        rc_clean, out_clean = sh([PY, str(seed_dir / "demo.py")], cwd=str(wt), env=env)
        rc, out = sh(["git", "apply", str(seed_dir / "patch.diff")], cwd=str(wt))
        if rc != 0:
            res["error"] = "patch does not apply to HEAD: " + out[-200:]
            return res
        rc_mut, out_mut = sh([PY, str(seed_dir / "demo.py")], cwd=str(wt), env=env)
        rc_t, out_t = sh([PY, "-m", "pytest", "-q", "-p", "no:cacheprovider", "-x"], cwd=str(wt), env=env)
        tests_ok = rc_t == 0 and "111 passed" in out_t
        res.update(clean_demo_rc=rc_clean, mutant_demo_rc=rc_mut, tests_ok=tests_ok, mutant_demo_tail=out_mut.strip().splitlines()[-1:] )
        res["ok"] = rc_clean == 0 and rc_mut != 0 and tests_ok
        # run the checks against the patched tree
        caught = {}
        cenv = dict(os.environ, ESV_REPO=str(wt), ESV_EVIDENCE_DIR=str(wt / "_evidence"), PYTHONPATH="/verif", ESV_WORKERS=os.environ.get("ESV_WORKERS", "6"))
        props = built_props()
        if os.environ.get("CONFIRM_MODE") == "fast":
            prev = {}
            pm = OUT / sid / "meta.json"
            if pm.exists():
                prev = json.load(open(pm)).get("caught_by") or {}
            props = sorted({sid.split("-")[0]} | set(prev))
        for prop in props:
            rc_c, out_c = sh([PY, "-m", "esv", "check", prop], cwd="/verif", env=cenv)
            if rc_c != 0:
                import re
                rules = sorted({m.group(1) for l in out_c.splitlines() if (l.startswith("explorerscript") or l.startswith("docs")) for m in [re.search(r" (C\d\d-R\d+) \[", l)] if m})
                caught[prop] = {"exit": rc_c, "rules": [r for r in rules if r]}
        res["caught_by"] = caught
    finally:
        sh(["git", "-C", "/repo", "worktree", "remove", "--force", str(wt)])
        shutil.rmtree(wt, ignore_errors=True)
    if res["ok"]:
        d = OUT / sid
        d.mkdir(parents=True, exist_ok=True)
        shutil.copy(seed_dir / "patch.diff", d / "patch.diff")
        shutil.copy(seed_dir / "demo.py", d / "demo.py")
        meta.update({"breaks_property": meta.get("property"), "needs_to_manifest": meta.get("needs"),
                     "confirmed": {"base_commit": sh(["git", "-C", "/repo", "rev-parse", "--short", "HEAD"])[1].strip(),
                                   "what_was_run": "scratch git worktree of /repo HEAD: demo.py exit 0 on the clean tree; `git apply patch.diff`; demo.py exit != 0; "
                                                   "`python -m pytest -q -p no:cacheprovider` 111 passed with the patch; worktree removed",
                                   "demo_failure": res.get("mutant_demo_tail")},
                     "caught_by": res.get("caught_by", {})})
        json.dump(meta, open(d / "meta.json", "w"), indent=1)
    return res


def main():
    only = sys.argv[1:]
    seeds = sorted(p for p in SEED.glob("C*/[0-9]*") if (p / "patch.diff").exists() and (p / "demo.py").exists() and (p / "meta.json").exists())
    if only:
        seeds = [s for s in seeds if s.parent.name in only or f"{s.parent.name}-{s.name}" in only]
    with ThreadPoolExecutor(max_workers=int(os.environ.get('CONFIRM_JOBS', '4'))) as ex:
        results = list(ex.map(confirm, seeds))
    for r in results:
        own = r["id"].split("-")[0]
        cb = r.get("caught_by", {})
        status = "CONFIRMED" if r["ok"] else "REJECTED "
        det = "own:" + ("exit%d" % cb[own]["exit"] if own in cb else "MISS") + " others:" + ",".join(k for k in cb if k != own)
        print(status, r["id"], det, r.get("error", ""), "" if r["ok"] else {k: r.get(k) for k in ("clean_demo_rc", "mutant_demo_rc", "tests_ok")})
    json.dump(results, open(SEED / "results.json", "w"), indent=1)


if __name__ == "__main__":
    main()
