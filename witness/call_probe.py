# Triage tool (uses the real code; no check does). Run with PYTHONPATH=/repo:/verif/witness
"""Exploration with the REAL code: small routines with Call / Return / lives ops."""
import itertools, sys, json, collections
from oplevel_probe import *
C=SsbOpParamConstant
def O(o,n,p): return SsbOperation(o, SsbOpCode(-1,n), p)

def progs(n, kinds):
    choices=[('P',None),('E',None)]
    if 'R' in kinds: choices.append(('R',None))
    if 'L' in kinds: choices.append(('L',None))
    choices+=[('J',t) for t in range(n)]+[('B',t) for t in range(n)]
    if 'K' in kinds: choices+=[('K',t) for t in range(n)]
    for p in itertools.product(choices, repeat=n):
        if p[-1][0] not in 'EJR': continue
        if not any(k in kinds for k,_ in p): continue   # must use one of the new kinds
        ok=True
        for i,(k,t) in enumerate(p):
            if k=='J':
                seen=set(); j=i
                while p[j][0]=='J':
                    if j in seen: ok=False; break
                    seen.add(j); j=p[j][1]
                if not ok: break
            if k=='L' and (i+1>=n or p[i+1][0]!='P'): ok=False; break   # a context op is followed by the op it applies to
        if ok: yield p

def build_c(prog):
    ops=[]
    for i,(k,t) in enumerate(prog):
        if k=='E': ops.append(O(i,'End',[]))
        elif k=='R': ops.append(O(i,'Return',[]))
        elif k=='L': ops.append(O(i,'lives',[3]))
        elif k=='J': ops.append(O(i,'Jump',[t]))
        elif k=='K': ops.append(O(i,'Call',[t]))
        elif k=='B': ops.append(O(i,'Branch',[C('$V%d'%i),1,t]))
        else: ops.append(O(i,'op%d'%i,[]))
    return ops

def check_c(prog):
    ops=[build_c(prog)]
    infos=[SsbRoutineInfo(SsbRoutineType.GENERIC,0)]
    exp=behaviour(ops)
    signal.alarm(20)
    try:
        text,_=ExplorerScriptSsbDecompiler(infos, ops, [], "$PERF", DMC).convert()
    except TO: return 'timeout-decompile', None
    except Exception as ex: return 'raise-decompile %s'%type(ex).__name__, None
    finally: signal.alarm(0)
    try:
        c=ExplorerScriptSsbCompiler("$PERF"); c.compile(text,"/tmp/x.exps")
    except Exception as ex:
        return 'reject %s: %s'%(type(ex).__name__, str(ex)[:80]), text
    act=behaviour(c.routine_ops)
    if exp!=act: return 'behaviour', text
    return ('fallback' if text.startswith('//?: is-ssb-script') else 'ok'), text

if __name__=='__main__':
    n=int(sys.argv[1]); kinds=sys.argv[2]; part=int(sys.argv[3]); parts=int(sys.argv[4])
    c=collections.Counter(); bad=[]
    for i,p in enumerate(progs(n,kinds)):
        if i%parts!=part: continue
        r,text=check_c(p)
        c[r.split(' ')[0]]+=1
        if r not in ('ok','fallback'): bad.append((p,r,text))
    print(n,kinds, dict(c))
    json.dump([[list(map(list,p)),r,t] for p,r,t in bad], open(f'/tmp/probe2/cbad_{n}_{kinds}_{part}.json','w'))
