# real-code triage (never used by a check): context ops in front of every kind of successor, branches into unreachable code of another routine
from explorerscript.ssb_converting.ssb_data_types import *
from explorerscript.ssb_converting.ssb_decompiler import ExplorerScriptSsbDecompiler
from explorerscript.ssb_converting.ssb_compiler import ExplorerScriptSsbCompiler
def o(off, name, params=()): return SsbOperation(off, SsbOpCode(-1, name), list(params))
V=lambda n: SsbOpParamConstant(n)
G=lambda: SsbRoutineInfo(SsbRoutineType.GENERIC,0)
sets = {
 'ctx-ctx': ([G()], [[o(0,'lives',[1]), o(1,'object',[2]), o(2,'Foo',[3]), o(3,'End')]]),
 'ctx-ctx-assign': ([G()], [[o(0,'lives',[1]), o(1,'performer',[2]), o(2,'flag_Set',[V('$X'), 3]), o(3,'End')]]),
 'ctx-msgswitch': ([G()], [[o(0,'lives',[1]), o(1,'message_SwitchTalk',[V('$T')]), o(2,'CaseText',[1, SsbOpParamConstString('one')]), o(3,'DefaultText',[SsbOpParamConstString('d')]), o(4,'End')]]),
 'ctx-switch': ([G()], [[o(0,'lives',[1]), o(1,'Switch',[V('$T')]), o(2,'Case',[1, 4]), o(3,'Jump',[5]), o(4,'hm_a'), o(5,'End')]]),
 'ctx-branch': ([G()], [[o(0,'lives',[1]), o(1,'Branch',[V('$T'),1,3]), o(2,'hm_a'), o(3,'End')]]),
 'ctx-jump': ([G()], [[o(0,'lives',[1]), o(1,'Jump',[3]), o(2,'hm_a'), o(3,'End')]]),
 'ctx-end': ([G()], [[o(0,'hm'), o(1,'lives',[1])]]),
 'ctx-last-then-routine': ([G(),G()], [[o(0,'lives',[1])],[o(1,'hm')]]),
 'ctx-label': ([G()], [[o(0,'lives',[1]), o(1,'hm_a'), o(2,'Jump',[1])]]),
 'ctx-return': ([G()], [[o(0,'lives',[1]), o(1,'Return')]]),
 'ctx-call': ([G()], [[o(0,'lives',[1]), o(1,'Call',[3]), o(2,'End'), o(3,'hm'), o(4,'Return')]]),
 'branch-into-unreachable-other': ([G(),G()], [[o(0,'Branch',[V('$A'),1,4]), o(1,'End')],[o(2,'hm_b'), o(3,'End'), o(4,'hm_after'), o(5,'Return')]]),
 'case-into-unreachable-other': ([G(),G()], [[o(0,'Switch',[V('$A')]), o(1,'Case',[1,5]), o(2,'End')],[o(3,'hm_b'), o(4,'End'), o(5,'hm_after'), o(6,'Return')]]),
}
for name,(infos,ops) in sets.items():
    want=[[(x.op_code.name,[str(p) for p in x.params]) for x in r] for r in ops]
    try:
        t,_=ExplorerScriptSsbDecompiler(infos, ops, [], '$P', None).convert()
    except Exception as e:
        print(name,'DECOMPILE RAISED',type(e).__name__,e); continue
    marked=t.startswith('//?: is-ssb-script')
    try:
        c=ExplorerScriptSsbCompiler('$P',[]); c.compile(t,'/tmp/x.exps')
        print(name,'marked' if marked else 'exps','compiles', '' if marked else t.replace('\n',' ')[:150])
    except Exception as e:
        print(name,'marked' if marked else 'exps','RECOMPILE FAILS',type(e).__name__,str(e)[:100], t.replace('\n',' ')[:200])
