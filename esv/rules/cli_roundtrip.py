"""C15: the JSON of the compile CLI fed to the decompile CLI - build_routines_json and read_routines interpreted (engine.pipeline)."""

from __future__ import annotations

import json
from typing import Any

from ..engine.absint import AObj, PyExc, Unsupported
from ..engine.loader import AnalysisError
from ..engine.report import Check

SPECIAL = "explorerscript.ssb_converting.ssb_special_ops"

PROGRAMS = [
    ("params-and-routine-kinds",
     "def 0 { a(1, -2, 1.5, -0.5, CONST, 'text', {english='e', german='g'}, Position<'m', 3, 4.5>, Position<'n', 7.5, 0>); if ($V == 1) { b(); } end; }\n"
     "def 1 for actor 5 { c(); hold; }\ndef 2 for object OBJ_NAME { d(); return; }\ndef 3 for performer 0 { e(); end; }\ndef 4 { alias previous; }"),
    ("coroutines", "coro First { a(); if ($V == 1) { jump @l; } b(); §l; c(); end; }\ncoro Second { alias previous; }\ncoro Third { forever { d(); if ($W == 2) { break_loop; } } return; }"),
    ("dropped-jumps-and-cross-routine", "def 0 { a(); if ($A == 1) { if ($B == 2) { b(); } else { c(); } } d(); jump @far; }\n"
                                        "def 1 { e(); switch ($S) { case 1: f(); break; case 2: case 3: g(); default: h(); } §far; i(); call @sub; end; §sub; j(); return; }"),
    ("loops", "def 0 { for ($I = 0; $I < 3; $I += 1;) { a(); if ($V == 1) { continue; } b(); } while not ($W == 2) { c(); } message_SwitchTalk ($T) { case 1: 'one' default: 'other' } end; }"),
]


def cli_roundtrip_rule(chk: Check, ctx: Any, rule: str) -> None:
    from ..engine.pipeline import Pipeline
    from ..engine.sta import compiled_graph, bisimilar
    repo = ctx.repo
    fold = ctx.fold
    P = Pipeline(repo, fold)
    I = P.I
    jidx = fold.const(f"{SPECIAL}:OPS_WITH_JUMP_TO_MEM_OFFSET")
    branch = set(fold.const(f"{SPECIAL}:OPS_BRANCH")) | {"Case", "CaseMenu", "CaseMenu2", "CaseValue", "CaseVariable", "CaseScenario", "Call"}
    ends = set(fold.const(f"{SPECIAL}:OPS_THAT_END_CONTROL_FLOW")) - {fold.const(f"{SPECIAL}:OP_JUMP")}
    bj = repo.func("explorerscript.cli.compile:build_routines_json")
    rr = repo.func("explorerscript.cli.decompile:read_routines")
    n = 0
    for name, src in PROGRAMS:
        key = f"cli-roundtrip:{name}"
        n += 1
        try:
            c = P.compile_exps(src)
            infos, names, ops = c.attrs["routine_infos"], c.attrs["named_coroutines"], c.attrs["routine_ops"]
            doc = I.call_func(bj, [infos, names, ops], {})
            try:
                text = json.dumps({"routines": doc})
            except TypeError as e:
                chk.violation(rule, key, bj, f"the routines structure of program `{name}` is not JSON: {e}")
                continue
            doc2 = json.loads(text)["routines"]
            # jump parameters are 1-based positions counted across all routines
            flat = [op for r in doc2 for op in r["ops"]]
            src_flat = [op for r in ops for op in r]
            pos_of = {op.attrs["offset"]: i + 1 for i, op in enumerate(src_flat)}
            problems = []
            if len(flat) != len(src_flat):
                problems.append(f"{len(src_flat)} ops were compiled, the document lists {len(flat)}")
            for jop, sop in zip(flat, src_flat):
                nm = sop.attrs["op_code"].attrs["name"]
                if jop.get("opcode") != nm:
                    problems.append(f"op {nm} is listed as {jop.get('opcode')}")
                if nm in jidx and len(sop.attrs["params"]) > jidx[nm]:
                    want = pos_of.get(sop.attrs["params"][jidx[nm]])
                    got = jop["params"][jidx[nm]] if len(jop.get("params", [])) > jidx[nm] else None
                    if got != want:
                        problems.append(f"{nm} targets the op at position {want} (1-based, counted across routines) but its jump parameter is printed as {got!r}")
            kinds = [r.get("type") for r in doc2]
            want_kinds = [i.attrs["type"].name for i in infos]
            if kinds != want_kinds:
                problems.append(f"routine kinds {want_kinds} are listed as {kinds}")
            if problems:
                chk.violation(rule, key, bj, f"program `{name}`: " + "; ".join(problems[:3]))
                continue
            # the decompile command reads its own op numbering from a module-level counter: one document per process
            I._globals.pop(("explorerscript.cli.decompile", "counter"), None)
            back = I.call_func(rr, [doc2], {})
            if not (isinstance(back, tuple) and len(back) == 3):
                chk.unknown(rule, key, rr, "read_routines() did not return (infos, coroutines, ops)")
                continue
            infos2, coros2, ops2 = back
            i1 = [(i.attrs["type"].name, i.attrs["linked_to"] if i.attrs["type"].name in ("ACTOR", "OBJECT", "PERFORMER") else 0, i.attrs["linked_to_name"]) for i in infos]
            i2 = [(i.attrs["type"].name, i.attrs["linked_to"] if i.attrs["type"].name in ("ACTOR", "OBJECT", "PERFORMER") else 0, i.attrs["linked_to_name"]) for i in infos2]
            cn1 = {i: nm for i, nm in enumerate(names) if isinstance(nm, str)}
            cn2 = {co.attrs["id"]: co.attrs["name"] for co in coros2 if isinstance(co, AObj) and infos2[co.attrs["id"]].attrs["type"].name == "COROUTINE"}
            problems = []
            if i1 != i2:
                problems.append(f"routine table {i1} is read back as {i2}")
            if cn1 != cn2:
                problems.append(f"coroutine names {cn1} are read back as {cn2}")
            offs2 = [op.attrs["offset"] for r in ops2 for op in r]
            if offs2 != list(range(1, len(offs2) + 1)):
                bad = next((i for i, o in enumerate(offs2) if o != i + 1), 0)
                chk.violation(rule, key, rr, f"program `{name}`: the ops read from the document are not numbered by their 1-based position across all routines "
                                             f"(the op at position {bad + 1} gets number {offs2[bad]}): the jump parameters of the document no longer denote their ops")
                continue
            g1, e1 = compiled_graph(I, ops, branch, ends)
            g2, e2 = compiled_graph(I, ops2, branch, ends)
            for ri, (a, b) in enumerate(zip(e2, e1)):
                ok, why = bisimilar(a, b)
                if not ok:
                    problems.append(f"routine {ri} read back from the document behaves differently: {why}")
                    break
            # and the decompile command's program behaves like the source
            if not problems:
                dtext, _sm = P.decompile_exps(infos2, ops2, list(coros2))
                c3 = P.compile_exps(dtext)
                g3, e3 = compiled_graph(I, c3.attrs["routine_ops"], branch, ends)
                for ri, (a, b) in enumerate(zip(e3, e1)):
                    ok, why = bisimilar(a, b)
                    if not ok:
                        problems.append(f"the program printed by the decompile command behaves differently in routine {ri}: {why}")
                        break
            chk.decide(rule, key, not problems, rr, f"program `{name}`: " + "; ".join(problems[:3]), "document accepted; same routine table, names and behaviour")
        except PyExc as e:
            chk.violation(rule, key, rr, f"program `{name}`: the compile/decompile command path fails with {e.cls_name}: {e.msg} (at {e.where})")
        except (Unsupported, AnalysisError) as e:
            chk.unknown(rule, key, rr, f"program `{name}`: abstract interpretation left the modelled subset: {e}")
    chk.floor(rule, "programs taken through both command-line structures", n, 4)
