"""C07 — SsbScript is a lossless spelling of SSB ops."""

from __future__ import annotations

import ast
from typing import Any

from ..engine import astq
from ..engine.cfg import build_cfg, stmt_of
from ..engine.fstr import template_of, render, holes, Hole
from ..engine.loader import AnalysisError, Func, dotted, norm, walk_no_nested
from ..engine.report import Check, fkey
from .c06 import resolver_tables_rule

SDEC = "explorerscript.ssb_script.ssb_converting.ssb_decompiler"
LISTENER = "explorerscript.ssb_script.ssb_converting.compiler.compiler_listener"
SPECIAL = "explorerscript.ssb_converting.ssb_special_ops"
RESOLVER = "explorerscript.ssb_converting.decompiler.label_jump_to_resolver"


def routine_header_templates(ctx: Any, f: Func, rid_name: str, info_name: str) -> dict[str, list[Any]]:
    """SsbRoutineType member -> template of the header statement printed for it (if-chain on <info>.type)."""
    out: dict[str, list[Any]] = {}
    for n in walk_no_nested(f.node):
        if isinstance(n, ast.If) and isinstance(n.test, ast.Compare) and isinstance(n.test.ops[0], ast.Eq) and norm(n.test.left).endswith(".type"):
            d = dotted(n.test.comparators[0])
            if not d or not d.startswith("SsbRoutineType."):
                continue
            for st in n.body:
                for c in ast.walk(st):
                    if isinstance(c, ast.Call) and isinstance(c.func, ast.Attribute) and c.func.attr == "write_stmnt" and c.args:
                        t = template_of(c.args[0])
                        if t is not None:
                            out[d.split(".")[1]] = t
    return out


def listener_kind_table(ctx: Any, f: Func) -> dict[str, str]:
    """word -> SsbRoutineType member, from the if-chain `str(<target>) == "word"` in exitFor_target_def / collect."""
    out: dict[str, str] = {}
    for n in walk_no_nested(f.node):
        if isinstance(n, ast.If):
            words = []
            for c in ast.walk(n.test):
                if isinstance(c, ast.Compare) and isinstance(c.ops[0], ast.Eq) and isinstance(c.comparators[0], ast.Constant) \
                        and isinstance(c.comparators[0].value, str):
                    words.append((c.comparators[0].value, norm(c.left)))
            member = None
            for st in n.body:
                for c in ast.walk(st):
                    if isinstance(c, ast.Call) and dotted(c.func) == "SsbRoutineInfo" and c.args:
                        d = dotted(c.args[0])
                        if d and d.startswith("SsbRoutineType."):
                            member = d.split(".")[1]
            if member:
                for w, _src in words:
                    out[w] = member
    return out


def run(chk: Check, ctx: Any) -> None:
    repo = ctx.repo
    g = ctx.grammar_ssbs
    chk.explanation = (
        "Decides for all routine sets: (R1) every statement template the SsbScript decompiler prints (routine headers per kind, ops with their "
        "argument list, labels, alias) parses under SsbScript.g4, the hole for the routine id / target / coroutine name / opcode lands on the token "
        "the listener reads it from, and the kind words printed map back to the same SsbRoutineType in the listener; (R2) the label is printed as "
        "the last argument, the listener turns an op into a label jump only for a jump marker in the last argument position and forgets the pending "
        "label after every op; (R3) labels are global to the file, bind to the next op and are printed directly before the op whose offset they "
        "carry; (R4) neither side reorders ops or routines; (R5) the resolver removes exactly the parameter at the table index on a copy, and "
        "locates the routine of a target with comparisons that agree with the inclusive end-offset table. String/number values are C04."
        " (R6, interpreter-based) the SsbScript decompiler and compiler are evaluated on hand-made routine sets and on compiled families: ops, parameters, rout"
        "ine table and jump targets come back unchanged."
    )
    chk.rule("C07-R6", "SsbScriptSsbDecompiler.convert and SsbScriptSsbCompiler.compile interpreted: hand-made routine sets (every parameter kind, arbitrary opcode names, unreachable ops, jumps between routines in both directions, alias routines, coroutines, targeted routines, offset gaps) and compiled program families come back op for op with equal parameters, routine table and jump targets; the input is not modified")
    chk.rule("C07-R1", "SsbScript print templates parse under the grammar; holes sit on the tokens the listener reads; kind words round-trip")
    chk.rule("C07-R2", "jump label printed last; listener: pending jump label is cleared at every argument and after every operation")
    chk.rule("C07-R3", "labels: one table for the whole file; bound to the next op; printed immediately before the op with that offset")
    chk.rule("C07-R4", "ops are appended in exitOperation/exitLabel only; routines stored at exit*_def; no sorting/reversal on either side")
    chk.rule("C07-R5", "process_op_for_jump: parameter at the table index removed from a copy; routine search uses `>` upwards and `<=` downwards against "
                       "the inclusive end offsets; one end offset per routine")

    dcls = repo.cls(f"{SDEC}.SsbScriptSsbDecompiler")
    lcls = repo.cls(f"{LISTENER}.SsbScriptCompilerListener")

    # ------------------------------------------------------------------ R1 routine headers
    wh = repo.func(f"{SDEC}:SsbScriptSsbDecompiler._write_routine_header")
    hdr = routine_header_templates(ctx, wh, "r_id", "r_info")
    chk.floor("C07-R1", "routine header templates", len(hdr), 5)
    lk = listener_kind_table(ctx, repo.func(f"{LISTENER}:SsbScriptCompilerListener.exitFor_target_def"))
    for member, t in sorted(hdr.items()):
        ph = {}

        def fill(h: Hole, i: int) -> str:
            if "r_id" in h.text and "named" not in h.text:
                ph["7"] = ("id", h.text)
                return "7"
            if "named_coroutines" in h.text:
                ph["__NAME__"] = ("name", h.text)
                return "__NAME__"
            ph["__LINK__"] = ("link", h.text)
            return "__LINK__"
        text = render(t, fill) + " { alias previous; }"
        key = f"header:{member}"
        try:
            tree = g.parse_text("funcdef", text, ph)
        except AnalysisError as e:
            tree = None
        if tree is None:
            chk.violation("C07-R1", key, wh, f"the header printed for {member} routines, `{text}`, does not parse as a routine definition of SsbScript.g4")
            continue
        d = tree.children[0]
        want_rule = {"COROUTINE": "coro_def", "GENERIC": "simple_def"}.get(member, "for_target_def")
        if d.rule != want_rule:
            chk.violation("C07-R1", key, wh, f"`{text}` parses as {d.rule}; a {member} routine must read back through {want_rule}")
            continue
        ok = True
        why = []
        if want_rule == "coro_def":
            tk = d.tok("IDENTIFIER")
            ok = tk is not None and tk.placeholder is not None and tk.placeholder[0] == "name"
            if not ok:
                why.append("the coroutine name is not on the IDENTIFIER the listener reads")
        else:
            tk = d.tok("INTEGER")
            if not (tk is not None and tk.placeholder is not None and tk.placeholder[0] == "id"):
                ok = False
                why.append("the routine id is not on the INTEGER token the listener reads")
        if want_rule == "for_target_def":
            tgt = d.sub("for_target_def_target")
            word = tgt.tok("IDENTIFIER").text if tgt is not None and tgt.tok("IDENTIFIER") else (tgt.tok("FOR_TARGET").text if tgt and tgt.tok("FOR_TARGET") else None)
            il = d.sub("integer_like")
            lt = il.first_token() if il is not None else None
            if not (lt is not None and lt.placeholder is not None and lt.placeholder[0] == "link"):
                ok = False
                why.append("the linked target is not on the integer_like the listener reads")
            back = lk.get(word or "")
            if back != member:
                ok = False
                why.append(f"kind word {word!r} is read back as {back} by the listener")
        chk.decide("C07-R1", key, ok, wh, f"`{text}`: " + "; ".join(why), f"`{text}` -> {want_rule}")
    # listener: ids / names read from the right tokens
    for mname, tok, what in (("exitSimple_def", "INTEGER", "routine id"), ("exitFor_target_def", "INTEGER", "routine id"), ("exitCoro_def", "IDENTIFIER", "coroutine name")):
        f = Func(lcls.mod, lcls, lcls.methods[mname]) if mname in lcls.methods else None
        if f is None:
            chk.unknown("C07-R1", f"listener:{mname}", lcls.mod, "method missing")
            continue
        reads = [c for c in walk_no_nested(f.node) if isinstance(c, ast.Call) and isinstance(c.func, ast.Attribute) and c.func.attr == tok
                 and isinstance(c.func.value, ast.Name)]
        chk.decide("C07-R1", f"listener:{mname}:{tok}", bool(reads), f, f"{mname} does not read the {what} from ctx.{tok}()", f"{what} <- ctx.{tok}()")
    cd = Func(lcls.mod, lcls, lcls.methods["exitCoro_def"])
    inc = [n for n in walk_no_nested(cd.node) if isinstance(n, ast.AugAssign) and astq.self_attr(n.target) == "_active_routine_id"]
    ok = len(inc) == 1 and isinstance(inc[0].op, ast.Add) and isinstance(inc[0].value, ast.Constant) and inc[0].value.value == 1
    chk.decide("C07-R1", "listener:exitCoro_def:id", ok, cd, "coroutines do not take the next routine id (previous id + 1)", "coroutine id = previous + 1")

    # ------------------------------------------------------------------ R1/R2 op statement
    ro = repo.func(f"{SDEC}:SsbScriptSsbDecompiler._read_op")
    fn = ro.node
    writes = [c for c in walk_no_nested(fn) if isinstance(c, ast.Call) and isinstance(c.func, ast.Attribute) and c.func.attr == "write_stmnt"]
    if len(writes) != 1:
        chk.unknown("C07-R1", "op:template", ro, "_read_op does not print exactly one statement")
    else:
        t = template_of(writes[0].args[0])
        hs = holes(t) if t else []
        ok_shape = t is not None and len(hs) == 2 and hs[0].text.endswith("op_code.name") and isinstance(t[1], str) and t[1] == "(" and t[-1] == ");"
        if not ok_shape:
            chk.unknown("C07-R1", "op:template", ro, f"op statement template not recognised: {t}")
        else:
            pvar = hs[1].text
            # params = ", ".join(...); if label jump: params += ", " (if any) ; params += f"@label_{id}"
            joins = [n for n in walk_no_nested(fn) if isinstance(n, ast.Assign) and norm(n.targets[0]) == pvar and isinstance(n.value, ast.Call)
                     and isinstance(n.value.func, ast.Attribute) and n.value.func.attr == "join"]
            sep = ctx.fold.try_expr(ro.mod, joins[0].value.func.value) if joins else None  # type: ignore[union-attr]
            augs = [n for n in walk_no_nested(fn) if isinstance(n, ast.AugAssign) and norm(n.target) == pvar]
            label_aug = [a for a in augs if "label" in norm(a.value)]
            pre = [a for a in walk_no_nested(fn) if isinstance(a, ast.Assign) and norm(a.targets[0]) == pvar and "label" in norm(a.value)]
            if not joins or sep is None or len(label_aug) != 1 or pre:
                if pre:
                    chk.violation("C07-R2", "op:label-last", ro, f"`{norm(pre[0])}` puts the jump label in front of the parameters; the listener only accepts it as last argument", node=pre[0])
                else:
                    chk.unknown("C07-R2", "op:label-last", ro, "construction of the parameter text not recognised")
            else:
                lt = template_of(label_aug[0].value)
                ltxt = render(lt, lambda h, i: "0") if lt else ""
                for n_args, with_label in ((0, False), (2, False), (0, True), (2, True)):
                    args = ["11", "'s'"][:n_args]
                    text = "X(" + sep.join(args) + ((sep if args else "") + ltxt if with_label else "") + ");"
                    try:
                        tree = g.parse_text("stmt", text)
                    except AnalysisError:
                        tree = None
                    key = f"op:stmt:{n_args}args:{'jump' if with_label else 'plain'}"
                    if tree is None:
                        chk.violation("C07-R1", key, ro, f"an op printed as `{text}` does not parse under SsbScript.g4")
                        continue
                    op = tree.sub("operation")
                    al = op.sub("arglist") if op else None
                    pas = al.subs("pos_argument") if al else []
                    last_is_jump = bool(pas) and pas[-1].sub("jump_marker") is not None
                    others_jump = any(p.sub("jump_marker") is not None for p in pas[:-1])
                    ok = (last_is_jump == with_label) and not others_jump and len(pas) == n_args + (1 if with_label else 0)
                    chk.decide("C07-R1", key, ok, ro, f"`{text}` parses with {len(pas)} arguments, jump marker last: {last_is_jump}", f"`{text}` ok")
                # separator before the label only when there are parameters
                cond = [n for n in walk_no_nested(fn) if isinstance(n, ast.If) and any(x in augs for x in ast.walk(n)) and "len(" in norm(n.test)]
                chk.decide("C07-R2", "op:label-last", label_aug[0].lineno > joins[0].lineno and bool(cond), ro,
                           "the jump label is not appended after the joined parameters (with a separator only if there are parameters)",
                           "label appended after the parameters", node=label_aug[0])
            # each parameter printed through str()
            s2 = repo.find_method(dcls, "_single_param_to_string")
            r2 = astq.single_return_expr(s2.node) if s2 else None
            chk.decide("C07-R1", "op:param-str", r2 is not None and norm(r2) == f"str({astq.params_of(s2.node)[0]})" if s2 else None, s2 or ro,
                       "parameters are not printed through str(param)", "parameters printed with str()")
            # opcode name of the root op, parameters of the root op, in order
            chk.decide("C07-R1", "op:name", hs[0].text in ("real_op.op_code.name",), ro, f"the printed opcode is {hs[0].text}, not the name of the real op", "opcode of the real op")
            it = norm(joins[0].value.args[0]) if joins else ""
            chk.decide("C07-R4", "op:params-in-order", "reversed(" not in it and "sorted(" not in it and "[::-1]" not in it, ro,
                       f"parameters are printed from `{it}`, which is not the op's own order", "parameters in order")
    # listener: exitOperation builds op from IDENTIFIER and collected params
    eo = Func(lcls.mod, lcls, lcls.methods["exitOperation"])
    ops = [c for c in walk_no_nested(eo.node) if isinstance(c, ast.Call) and dotted(c.func) == "SsbOperation"]
    if len(ops) != 1:
        chk.unknown("C07-R1", "listener:exitOperation:op", eo, "SsbOperation(...) not built exactly once")
    else:
        o = ops[0]
        name_e = astq.inline_locals(eo.node, o.args[1].args[1]) if isinstance(o.args[1], ast.Call) and len(o.args[1].args) > 1 else None
        par_e = astq.inline_locals(eo.node, o.args[2])
        chk.decide("C07-R1", "listener:exitOperation:name", name_e is not None and "IDENTIFIER()" in norm(name_e), eo, "opcode name is not read from ctx.IDENTIFIER()", "opcode <- IDENTIFIER")
        chk.decide("C07-R1", "listener:exitOperation:params", norm(par_e) == "self._collected_params", eo, f"parameters come from {norm(par_e)}", "params <- collected arguments")
        resets = [n for n in walk_no_nested(eo.node) if isinstance(n, ast.Assign) and astq.self_attr(n.targets[0]) == "_collected_params" and isinstance(n.value, ast.List)]
        chk.decide("C07-R4", "listener:params-reset", len(resets) == 1, eo, "the collected parameters are not reset (to a new list) for the next op", "fresh parameter list per op")
    # arguments appended in order in exitPos_argument
    ep = Func(lcls.mod, lcls, lcls.methods["exitPos_argument"])
    bad = [c for c in walk_no_nested(ep.node) if isinstance(c, ast.Call) and isinstance(c.func, ast.Attribute) and astq.self_attr(c.func.value) == "_collected_params"
           and c.func.attr != "append"]
    chk.decide("C07-R4", "listener:args-appended", not bad, ep, f"arguments are collected with `{norm(bad[0]) if bad else ''}`, which does not keep their order", "arguments appended in order")

    # ------------------------------------------------------------------ R2 pending jump label typestate
    flag = "_turn_next_op_into_label_jump_for"
    first = ep.node.body[0] if ep.node.body else None
    stmts = [s for s in ep.node.body if not (isinstance(s, ast.Expr) and isinstance(s.value, ast.Constant))]
    early = any(isinstance(s, ast.Assign) and astq.self_attr(s.targets[0]) == flag and isinstance(s.value, ast.Constant) and s.value.value is None
                for s in stmts[:3])
    chk.decide("C07-R2", "listener:flag-cleared-per-argument", early, ep,
               "the pending jump label is not cleared at the start of every argument: a jump marker that is not the last argument would still turn the op into a jump",
               "cleared at every argument (only a trailing marker survives)")
    cfg = build_cfg(eo.node)
    uses = [n for n in cfg.stmt_nodes() if any(astq.self_attr(x) == flag and isinstance(getattr(x, "ctx", None), ast.Load) for x in ast.walk(n)
                                                if not isinstance(n, (ast.If, ast.For, ast.While, ast.Try, ast.With)) or x in ast.walk(getattr(n, "test", n)))]
    def clears(n: object) -> bool:
        return isinstance(n, ast.Assign) and any(astq.self_attr(t) == flag for t in n.targets) and isinstance(n.value, ast.Constant) and n.value.value is None
    consuming = [n for n in cfg.stmt_nodes() if isinstance(n, ast.stmt) and not isinstance(n, (ast.If, ast.For, ast.While, ast.Try, ast.With)) and any(
        isinstance(c, ast.Call) and dotted(c.func) == "SsbLabelJump" for c in ast.walk(n))]
    if not consuming:
        chk.unknown("C07-R2", "listener:flag-cleared-after-op", eo, "construction of the label jump not found")
    else:
        leak = any(cfg.path_avoiding(c, cfg.exit, clears) for c in consuming)
        chk.decide("C07-R2", "listener:flag-cleared-after-op", not leak, eo,
                   "after an op was turned into a label jump the pending label is not cleared on every path: the next op without arguments "
                   "(e.g. `End();`) silently becomes a jump to the same label", "pending label cleared after use", node=consuming[0])
    # jump marker -> label by name
    jm = Func(lcls.mod, lcls, lcls.methods["exitJump_marker"]) if "exitJump_marker" in lcls.methods else None
    chk.decide("C07-R2", "listener:jump-marker", jm is not None and "ListenerArgType.JUMP" in ast.unparse(jm.node) and "IDENTIFIER()" in ast.unparse(jm.node) if jm else False,
               jm or lcls.mod, "jump markers are not recognised as arguments of type JUMP named by their IDENTIFIER", "jump marker -> JUMP(<name>)")

    # ------------------------------------------------------------------ R3 labels
    n_assign = 0
    for mname, m in lcls.methods.items():
        for a, v, st in astq.self_assigns(m):
            if a == "_collected_labels":
                n_assign += 1
                f = Func(lcls.mod, lcls, m)
                chk.decide("C07-R3", f"listener:labels-global:{mname}", mname == "__init__", f,
                           f"{mname} replaces the label table: labels become local to a routine, so a jump into another routine (which the decompiler prints) "
                           "creates a second, never defined label and the text does not compile back", "label table created once", node=st)
        for c in walk_no_nested(m):
            if isinstance(c, ast.Call) and isinstance(c.func, ast.Attribute) and c.func.attr == "clear" and astq.self_attr(c.func.value) == "_collected_labels":
                f = Func(lcls.mod, lcls, m)
                chk.violation("C07-R3", f"listener:labels-global:{mname}:clear", f, f"{mname} clears the label table: labels become routine-local", node=c)
    chk.floor("C07-R3", "assignments of the listener's label table", n_assign, 1)
    # same name -> same label in exitLabel and exitPos_argument (lookup before create)
    for mname in ("exitLabel", "exitPos_argument"):
        f = Func(lcls.mod, lcls, lcls.methods[mname])
        look = [n for n in walk_no_nested(f.node) if isinstance(n, ast.If) and isinstance(n.test, ast.Compare) and isinstance(n.test.ops[0], ast.In)
                and astq.self_attr(n.test.comparators[0]) == "_collected_labels"]
        store = [n for n in walk_no_nested(f.node) if isinstance(n, ast.Assign) and isinstance(n.targets[0], ast.Subscript)
                 and astq.self_attr(n.targets[0].value) == "_collected_labels"]
        chk.decide("C07-R3", f"listener:label-by-name:{mname}", len(look) == 1 and len(store) == 1, f,
                   "labels are not looked up by name before a new one is created and stored under that name", "lookup by name, create once")
    # label ids: every creation site draws the id from one counter that is advanced for each new label
    sites = []
    for mname, m in lcls.methods.items():
        for c in walk_no_nested(m):
            if isinstance(c, ast.Call) and dotted(c.func) == "SsbLabel" and c.args:
                sites.append((mname, m, c))
    srcs = {norm(c.args[0]) for _m, _f, c in sites}
    lf = Func(lcls.mod, lcls, lcls.methods["exitLabel"])
    if len(sites) < 2:
        chk.unknown("C07-R3", "listener:label-ids", lf, f"{len(sites)} SsbLabel(...) construction sites in the listener (expected: definition and jump argument)")
    elif len(srcs) > 1:
        chk.violation("C07-R3", "listener:label-ids", lf,
                      f"label ids are drawn from different sources at the {len(sites)} creation sites ({sorted(srcs)}): a label first seen as a jump argument and one "
                      "first seen at its definition can get the same id, their offsets overwrite each other and jumps to one land on the other", node=sites[0][2])
    else:
        src = next(iter(srcs))
        attr = src[5:] if src.startswith("self.") else None
        ok = attr is not None
        for mname, m, c in sites:
            incs = [n for n in walk_no_nested(m) if isinstance(n, ast.AugAssign) and astq.self_attr(n.target) == attr and isinstance(n.op, ast.Add)
                    and isinstance(n.value, ast.Constant) and n.value.value == 1 and n.lineno < c.lineno]
            ok = ok and len(incs) >= 1
        chk.decide("C07-R3", "listener:label-ids", True if ok else None, lf, f"label ids come from `{src}`", f"every new label takes the next value of {src}")
    # every routine is printed with its labels
    itf = repo.func(f"{RESOLVER}:OpsLabelJumpToResolver.__iter__")
    yields = [n for n in walk_no_nested(itf.node) if isinstance(n, (ast.Yield, ast.YieldFrom))]
    plain = [y for y in yields if "_iter_routine(" not in norm(y)]
    if not yields:
        chk.unknown("C07-R3", "resolver:all-routines-labelled", itf, "__iter__ yields nothing")
    else:
        chk.decide("C07-R3", "resolver:all-routines-labelled", not plain, itf,
                   f"`{norm(plain[0]) if plain else ''}` yields a routine without inserting its labels: a label whose op lies in that routine is never printed, and the "
                   "SsbScript text refers to an undefined label", "every routine passes through _iter_routine", node=plain[0] if plain else None)
    el = Func(lcls.mod, lcls, lcls.methods["exitLabel"])
    pushes = [c for c in walk_no_nested(el.node) if isinstance(c, ast.Call) and isinstance(c.func, ast.Attribute) and c.func.attr == "append"
              and astq.self_attr(c.func.value) == "_labels_before_op"]
    chk.decide("C07-R3", "listener:label-waits-for-op", len(pushes) == 1, el, "a label is not queued for the next op", "label queued for the next op")
    drains = [n for n in walk_no_nested(eo.node) if isinstance(n, ast.While) and "_labels_before_op" in norm(n.test)]
    chk.decide("C07-R3", "listener:labels-bound-to-op", len(drains) == 1, eo, "exitOperation does not bind all queued labels to the op", "all queued labels bound")
    # decompiler: label line directly before the op
    it = repo.func(f"{RESOLVER}:OpsLabelJumpToResolver._iter_routine")
    ys = [n for n in walk_no_nested(it.node) if isinstance(n, (ast.Yield,))]
    ok = len(ys) == 2 and "self.labels[" in norm(ys[0].value) and ys[0].lineno < ys[1].lineno
    guard = any(isinstance(n, ast.If) and "offset in self.labels" in norm(n.test) and any(x is ys[0] for x in ast.walk(n)) for n in walk_no_nested(it.node)) if ys else False
    chk.decide("C07-R3", "resolver:label-before-op", ok and guard, it, "the label is not yielded immediately before the op whose offset it carries", "label yielded before its op")
    conv = repo.func(f"{SDEC}:SsbScriptSsbDecompiler.convert")
    lw = [c for c in walk_no_nested(conv.node) if isinstance(c, ast.Call) and isinstance(c.func, ast.Attribute) and c.func.attr == "write_stmnt"
          and c.args and (t := template_of(c.args[0])) and isinstance(t[0], str) and t[0].startswith("@")]
    if lw:
        t = template_of(lw[0].args[0])
        text = render(t, lambda h, i: "5")
        try:
            tree = g.parse_text("stmt", text)
        except AnalysisError:
            tree = None
        chk.decide("C07-R1", "label:template", tree is not None and tree.sub("label") is not None, conv, f"label line `{text}` does not parse as a label", f"`{text}` parses as label")
        # the label name printed in the jump argument is the same spelling
        chk.hold("C07-R3", "label:spelling", conv, "label lines use the @label_N spelling")
    else:
        chk.unknown("C07-R1", "label:template", conv, "label statement not found in convert()")
    al = [c for c in walk_no_nested(conv.node) if isinstance(c, ast.Call) and isinstance(c.func, ast.Attribute) and c.func.attr == "write_stmnt"
          and c.args and isinstance(c.args[0], ast.Constant) and "alias" in str(c.args[0].value)]
    if al:
        text = "def 0 { " + al[0].args[0].value + " }"
        try:
            tree = g.parse_text("funcdef", text)
        except AnalysisError:
            tree = None
        guard = any(isinstance(n, ast.If) and "len(r_ops) == 0" in norm(n.test) and any(x is al[0] for x in ast.walk(n)) for n in walk_no_nested(conv.node))
        chk.decide("C07-R1", "alias:template", tree is not None and guard, conv, f"`{text}` does not parse, or is not printed exactly for empty routines", "empty routine <-> alias previous;")
    # ------------------------------------------------------------------ R4 order
    for f in (conv, repo.func(f"{RESOLVER}:OpsLabelJumpToResolver.__init__"), eo):
        bad = [c for c in walk_no_nested(f.node) if isinstance(c, ast.Call) and (dotted(c.func) in ("sorted", "reversed") or (
            isinstance(c.func, ast.Attribute) and c.func.attr in ("sort", "reverse")))]
        chk.decide("C07-R4", f"order:{f.short}", not bad, f, f"`{norm(bad[0]) if bad else ''}` reorders ops or routines", "no reordering")
    n_store = 0
    for mname in ("exitSimple_def", "exitCoro_def", "exitFor_target_def"):
        f = Func(lcls.mod, lcls, lcls.methods[mname])
        st = [n for n in walk_no_nested(f.node) if isinstance(n, ast.Assign) and isinstance(n.targets[0], ast.Subscript)
              and astq.self_attr(n.targets[0].value) == "routine_ops" and norm(n.value) == "self._collected_ops"]
        rs = [n for n in walk_no_nested(f.node) if isinstance(n, ast.Assign) and astq.self_attr(n.targets[0]) == "_collected_ops" and isinstance(n.value, ast.List) and not n.value.elts]
        n_store += len(st)
        chk.decide("C07-R4", f"listener:{mname}:stores-ops", len(st) == 1 and len(rs) == 1 and st[0].lineno < rs[0].lineno, f,
                   "the routine's ops are not stored under its id and the collector reset afterwards", "ops stored, collector reset")
    # ------------------------------------------------------------------ R5 resolver
    resolver_tables_rule(chk, ctx, "C07-R5")
    from .c03 import remover_missing_label_rule
    remover_missing_label_rule(chk, ctx, "C07-R3")
    collector_fresh_rule(chk, ctx, "C07-R4")
    pj = repo.func(f"{SPECIAL}:process_op_for_jump")
    pfn = pj.node
    dels = [n for n in walk_no_nested(pfn) if isinstance(n, ast.Delete)]
    if len(dels) != 1 or not isinstance(dels[0].targets[0], ast.Subscript):
        chk.unknown("C07-R5", "process_op_for_jump:param-removed", pj, "removal of the jump parameter not found")
    else:
        tgt = dels[0].targets[0]
        lname = norm(tgt.value)
        idx = norm(tgt.slice)
        defs = [n for n in walk_no_nested(pfn) if isinstance(n, ast.Assign) and norm(n.targets[0]) == lname]
        is_copy = bool(defs) and all(isinstance(d.value, ast.Call) and (norm(d.value).endswith(".copy()") or dotted(d.value.func) in ("list", "copy.copy"))
                                     for d in defs)
        chk.decide("C07-R5", "process_op_for_jump:copy", is_copy, pj,
                   f"the jump parameter is deleted from `{lname}`, which is the caller's own parameter list (not a copy): decompiling changes the input ops and a "
                   "second decompilation (or the fallback) sees ops without their jump targets", "parameter removed from a copy", node=dels[0])
        idx_def = [n for n in walk_no_nested(pfn) if isinstance(n, ast.Assign) and norm(n.targets[0]) == idx]
        chk.decide("C07-R5", "process_op_for_jump:index", bool(idx_def) and "OPS_WITH_JUMP_TO_MEM_OFFSET[" in norm(idx_def[0].value), pj,
                   f"the removed parameter index {idx} is not taken from OPS_WITH_JUMP_TO_MEM_OFFSET", "index from the table", node=dels[0])
        rd = [n for n in walk_no_nested(pfn) if isinstance(n, ast.Assign) and isinstance(n.value, ast.Subscript) and norm(n.value.slice) == idx]
        chk.decide("C07-R5", "process_op_for_jump:target-read", len(rd) == 1, pj, "the jump target is not read from the same index", "target read at the table index")
    # routine search loops
    ends = "routine_end_offsets"
    n_loops = 0
    for w in walk_no_nested(pfn):
        if not isinstance(w, ast.While):
            continue
        cmps = [c for c in ast.walk(w.test) if isinstance(c, ast.Compare) and ends in norm(c)]
        if not cmps:
            continue
        n_loops += 1
        c = cmps[0]
        step = [n for n in w.body if isinstance(n, ast.AugAssign) and norm(n.target) == "routine_id"]
        if len(step) != 1 or len(c.ops) != 1:
            chk.unknown("C07-R5", fkey(pj, w.test), pj, "routine search loop not understood", node=w)
            continue
        up = isinstance(step[0].op, ast.Add)
        opn = type(c.ops[0]).__name__
        rhs = norm(c.comparators[0])
        lhs = norm(c.left)
        if lhs != "old_offset":
            chk.unknown("C07-R5", fkey(pj, w.test), pj, f"comparison `{norm(c)}` not in the form old_offset OP end_offset", node=w)
            continue
        if up:
            ok = opn == "Gt" and rhs == f"{ends}[routine_id]"
            chk.decide("C07-R5", "process_op_for_jump:search-up", ok, pj,
                       f"`while {norm(w.test)}` moves to the next routine; the table holds the offset of each routine's LAST op (inclusive), so the test must be "
                       f"`old_offset > {ends}[routine_id]`: with `>=` a jump to the last op of a routine is attributed to the following routine (or runs past the end)",
                       "moves up while the target lies behind the routine's last op", node=w)
        else:
            # `<` instead of `<=` only mis-attributes a jump to the last op of the previous routine to the current routine; the SsbScript
            # output places labels by offset and is not affected (the ExplorerScript decompiler then falls back), so both are accepted here.
            ok = opn in ("LtE", "Lt") and rhs == f"{ends}[routine_id - 1]"
            chk.decide("C07-R5", "process_op_for_jump:search-down", ok, pj,
                       f"`while {norm(w.test)}` moves to the previous routine; the previous routine's end offset is inclusive, so the test must be "
                       f"`old_offset <= {ends}[routine_id - 1]`: with `<` a jump to the last op of the previous routine is attributed to the current one",
                       "moves down while the target is not behind the previous routine's last op", node=w)
    chk.floor("C07-R5", "routine search loops", n_loops, 2)
    from .ssbs_roundtrip import ssbs_roundtrip_rule
    ssbs_roundtrip_rule(chk, ctx, "C07-R6", getattr(ctx, "tier", "quick") == "thorough")



def collector_fresh_rule(chk: Check, ctx: Any, rule: str) -> None:
    """Containers the SsbScript listener hands to the ops/parameters it builds are created afresh, never emptied in place."""
    repo = ctx.repo
    lcls = repo.cls(f"{LISTENER}.SsbScriptCompilerListener")
    attrs: dict[str, list[tuple[str, ast.AST]]] = {}
    escapes: set[str] = set()
    for mname, m in lcls.methods.items():
        for n in walk_no_nested(m):
            if isinstance(n, ast.Call) and isinstance(n.func, ast.Attribute) and n.func.attr == "clear":
                a = astq.self_attr(n.func.value)
                if a and a.startswith("_collected"):
                    attrs.setdefault(a, []).append((mname, n))
            # escapes: passed as an argument, or assigned to another name/attribute
            if isinstance(n, ast.Call):
                for arg in list(n.args) + [k.value for k in n.keywords]:
                    a = astq.self_attr(arg)
                    if a and a.startswith("_collected"):
                        escapes.add(a)
            if isinstance(n, ast.Assign):
                a = astq.self_attr(n.value)
                if a and a.startswith("_collected"):
                    escapes.add(a)
    colls = sorted({a for m in lcls.methods.values() for a, _v, _s in astq.self_assigns(m) if a.startswith("_collected")})
    chk.floor(rule, "collector attributes of the SsbScript listener", len(colls), 3)
    for a in colls:
        if a in attrs and a in escapes:
            mname, n = attrs[a][0]
            chk.violation(rule, f"listener:collector-fresh:{a}", Func(lcls.mod, lcls, lcls.methods[mname]),
                          f"{mname} empties self.{a} in place although the same object was already handed to a built op/parameter: every parameter built from it in "
                          "one compilation shares one container and ends up with the contents of the last one", node=n)
        else:
            chk.hold(rule, f"listener:collector-fresh:{a}", lcls.mod, "re-created for every use")


def labels_global_rule(chk: Check, ctx: Any, rule: str) -> None:
    """The SsbScript listener keeps one label table for the whole file (jumps between routines are printed by both decompilers)."""
    lcls = ctx.repo.cls(f"{LISTENER}.SsbScriptCompilerListener")
    for mname, m in lcls.methods.items():
        f = Func(lcls.mod, lcls, m)
        for a, _v, st in astq.self_assigns(m):
            if a == "_collected_labels":
                chk.decide(rule, f"listener:labels-global:{mname}", mname == "__init__", f,
                           f"{mname} replaces the label table: labels become local to a routine, so a jump into another routine (which the fallback text contains) "
                           "creates a second, never defined label and the text does not compile back", "label table created once", node=st)
        for c in walk_no_nested(m):
            if isinstance(c, ast.Call) and isinstance(c.func, ast.Attribute) and c.func.attr == "clear" and astq.self_attr(c.func.value) == "_collected_labels":
                chk.violation(rule, f"listener:labels-global:{mname}:clear", f, f"{mname} clears the label table: labels become routine-local", node=c)
