"""REAL code: the position-mark listing on random sources; spans, order, values, and span replacement."""
import random, re, sys, collections, logging, warnings
warnings.filterwarnings("ignore"); logging.disable(logging.CRITICAL)
from explorerscript.explorerscript_reader import ExplorerScriptReader
from explorerscript.ssb_converting.compiler.compiler_visitor.position_mark_visitor import PositionMarkVisitor
from explorerscript.ssb_converting.ssb_compiler import ExplorerScriptSsbCompiler
from explorerscript.ssb_converting.ssb_data_types import SsbOpParamPositionMarker
WS=[""," ","\n","\n    ","  ","/* c */","\t"]
def mark(r):
    name="".join(r.choice("ab '\"x>,") for _ in range(r.randint(0,4)))
    q=r.choice("'\"")
    lit=q+name.replace("\\","\\\\").replace(q,"\\"+q)+q
    def num():
        v=r.randint(-3,300)
        half=r.random()<0.4
        s=str(v) if half else r.choice([str(v), hex(v) if v>=0 else str(v)])
        return s+(".5" if half else ""), v, (2 if half else 0)
    xs,xv,xo=num(); ys,yv,yo=num()
    w=lambda: r.choice(WS)
    text=f"Position{w()}<{w()}{lit}{w()},{w()}{xs}{w()},{w()}{ys}{w()}>"
    return text,(name,xo,yo,xv,yv)
c=collections.Counter(); shown=0
for seed in range(int(sys.argv[1]),int(sys.argv[2])):
    r=random.Random(seed)
    marks=[]
    def M():
        t,v=mark(r); marks.append((t,v)); return t
    parts=[]
    if r.random()<0.5: parts.append(f"macro m($a) {{ f($a, {M()}); }}\n")
    body=[]
    for _ in range(r.randint(1,4)):
        k=r.random()
        if k<0.4: body.append(f"op({M()}, 1, {M()});")
        elif k<0.55: body.append(f"switch (ProcessSpecial({M()}, 1, 2)) {{ case 1: g({M()}); break; }}")
        elif k<0.7 and parts: body.append(f"~m({M()});")
        elif k<0.85: body.append(f"if ($V == 1) {{ h({M()}); }}")
        else: body.append(f"with (actor 2) {{ w({M()}); }}")
    src="".join(parts)+"def 0 {\n    "+"\n    ".join(body)+"\n    end;\n}\n"
    # marks in source order = order of generation? macro first then body in order: yes (generation order == text order)
    try:
        tree=ExplorerScriptReader(src).read()
        got=PositionMarkVisitor().visit(tree)
    except Exception as ex:
        c['parse-fail']+=1
        if shown<3: shown+=1; print('PARSEFAIL',seed,type(ex).__name__,str(ex)[:80]); print(src)
        continue
    lines=src.split("\n")
    probs=[]
    if len(got)!=len(marks): probs.append(f"{len(got)} entries for {len(marks)} literals")
    pos=0
    for (t,v),g in zip(marks,got):
        i=src.index(t,pos); pos=i+len(t)
        ln=src.count("\n",0,i); col=i-(src.rfind("\n",0,i)+1)
        j=i+len(t)-1
        eln=src.count("\n",0,j); ecol=j-(src.rfind("\n",0,j)+1)
        if (g.line_number,g.column_number,g.end_line_number,g.end_column_number)!=(ln,col,eln,ecol): probs.append(f"span {(g.line_number,g.column_number,g.end_line_number,g.end_column_number)} want {(ln,col,eln,ecol)}")
        if (g.name,g.x_offset,g.y_offset,g.x_relative,g.y_relative)!=v: probs.append(f"values {(g.name,g.x_offset,g.y_offset,g.x_relative,g.y_relative)} want {v}")
    # replacing a span by the printed form of an edited mark changes that one parameter only
    if not probs and got:
        k=r.randrange(len(got)); g=got[k]
        t,v=marks[k]
        i=src.index(t, 0 if k==0 else sum(1 for _ in [0]) and 0)
        # locate k-th literal again
        p0=0
        for kk in range(k+1):
            i=src.index(marks[kk][0],p0); p0=i+len(marks[kk][0])
        if i < src.index("def 0"):
            c['ok']+=1; continue   # a literal inside a macro body that may not be called
        edited=SsbOpParamPositionMarker("edited", 2, 0, 7, 9)
        new=src[:i]+str(edited)+src[i+len(t):]
        try:
            a=ExplorerScriptSsbCompiler("$PERF",[]); a.compile(src,"/x/a.exps")
            b=ExplorerScriptSsbCompiler("$PERF",[]); b.compile(new,"/x/a.exps")
            pa=[p for rr in a.routine_ops for op in rr for p in op.params]; pb=[p for rr in b.routine_ops for op in rr for p in op.params]
            diff=[(x,y) for x,y in zip(pa,pb) if str(x)!=str(y)]
            if len(pa)!=len(pb) or len(diff)!=1 or str(diff[0][1])!=str(edited): probs.append(f"replacement changed {len(diff)} params")
        except Exception as ex:
            probs.append("replacement: "+type(ex).__name__+str(ex)[:60])
    if probs:
        c['BAD']+=1
        if shown<5: shown+=1; print('BAD',seed,probs[:2]); print(src)
    else: c['ok']+=1
print(dict(c))
