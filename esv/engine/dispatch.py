"""Visitor dispatch tables: parser rule -> compile handler class."""

from __future__ import annotations

import ast
from dataclasses import dataclass
from typing import Any

from .loader import Repo, Cls, Func, dotted, walk_no_nested, AnalysisError

STMT_VISITOR = "explorerscript.ssb_converting.compiler.compiler_visitor.statement_visitor.StatementVisitor"


@dataclass
class Dispatch:
    rule: str  # grammar rule name (lower-case first letter)
    method: Func
    handler: Cls | None  # handler class pushed, if any
    kwargs: dict[str, Any]
    visits_children: bool
    returns_children: bool


def rule_of_method(name: str) -> str | None:
    if not name.startswith("visit") or len(name) <= 5:
        return None
    r = name[5:]
    if r in ("Children", "Terminal", "ErrorNode"):
        return None
    return r[0].lower() + r[1:]


def visitor_table(repo: Repo, cls: Cls, fold: Any = None) -> dict[str, Dispatch]:
    out: dict[str, Dispatch] = {}
    for mname, fn in cls.methods.items():
        rule = rule_of_method(mname)
        if rule is None:
            continue
        f = Func(cls.mod, cls, fn)
        handler = None
        kwargs: dict[str, Any] = {}
        visits = False
        returns = False
        for n in walk_no_nested(fn):
            if isinstance(n, ast.Call):
                d = dotted(n.func)
                if d in ("self._push_handler_and_add", "self._push_handler") and len(n.args) >= 2:
                    hname = dotted(n.args[1])
                    r = repo.resolve(cls.mod, hname) if hname else None
                    if r and r[0] == "class":
                        handler = r[1]  # type: ignore[assignment]
                    for kw in n.keywords:
                        if kw.arg:
                            kwargs[kw.arg] = fold.try_expr(cls.mod, kw.value) if fold else ast.unparse(kw.value)
                    visits = True
                    returns = True
                elif d == "self.visitChildren":
                    visits = True
        for n in walk_no_nested(fn):
            if isinstance(n, ast.Return) and n.value is not None:
                for c in ast.walk(n.value):
                    if isinstance(c, ast.Call) and dotted(c.func) == "self.visitChildren":
                        returns = True
        out[rule] = Dispatch(rule, f, handler, kwargs, visits, returns)
    return out


def statement_visitor_table(repo: Repo, fold: Any = None) -> dict[str, Dispatch]:
    return visitor_table(repo, repo.cls(STMT_VISITOR), fold)
