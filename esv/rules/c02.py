"""C02 — decompiled source denotes the input routines (necessary conditions only)."""

from __future__ import annotations

import ast
from typing import Any

from ..engine import astq
from ..engine.loader import AnalysisError, Func, dotted, norm, walk_no_nested
from ..engine.report import Check, fkey
from .c11 import memo_rules

DEC = "explorerscript.ssb_converting.ssb_decompiler"
GM = "explorerscript.ssb_converting.decompiler.graph_building.graph_minimizer"
GU = "explorerscript.ssb_converting.decompiler.graph_building.graph_utils"
WH = "explorerscript.ssb_converting.decompiler.write_handlers"
SPECIAL = "explorerscript.ssb_converting.ssb_special_ops"

# order constraints between the structuring passes, confirmed by reading the pinned tree (reason per pair)
PASS_ORDER = [
    ("optimize_paths", "build_branches", "label->jump->label chains are contracted before branches are analysed"),
    ("build_branches", "group_branches", "group_branches works on IfStart markers and is_else edges that build_branches creates"),
    ("group_branches", "invert_branches", "grouping replaces the IfStart marker by a fresh MultiIfStart (is_not = False): a negation set before grouping is lost"),
    ("build_branches", "invert_branches", "invert_branches needs the IfEnd markers"),
    ("build_and_group_switch_cases", "group_switch_cases", "cases are grouped on the switch_ops edge attributes created before"),
    ("group_switch_cases", "build_switch_fallthroughs", "fall-through detection iterates the grouped case edges"),
    ("build_switch_fallthroughs", "build_loops", "fall-through markers keep labels from being taken for loop heads"),
    ("build_branches", "build_loops", "loops are only built around closed ifs"),
    ("build_loops", "remove_label_markers", "labels are removed last: every earlier pass identifies join points by label vertices"),
]


def names_in_switch(fn: ast.FunctionDef, fold: Any, mod: Any, subject: str) -> set[str]:
    """Opcode names an if-chain on `<subject> == X` / `<subject> in [...]` handles."""
    out: set[str] = set()
    for n in walk_no_nested(fn):
        if isinstance(n, ast.Compare) and norm(n.left) == subject and len(n.ops) == 1:
            v = fold.try_expr(mod, n.comparators[0])
            if isinstance(n.ops[0], ast.Eq) and isinstance(v, str):
                out.add(v)
            elif isinstance(n.ops[0], ast.In) and isinstance(v, (list, tuple, set)):
                out |= {x for x in v if isinstance(x, str)}
    return out


def run(chk: Check, ctx: Any) -> None:
    repo = ctx.repo
    fold = ctx.fold
    chk.explanation = (
        "C02 as a whole (behaviour preservation of ~1 600 lines of heuristic graph rewriting on every flow graph) is out of reach; R1-R6 decide "
        "shape-independent necessary conditions, R7 the enumerated program families. (R1) every spelling the decompiler prints for a special opcode, parsed with the grammar and read by "
        "the language's form table, denotes the opcode it was printed for with the parameters in order (see c02_forms). (R2) dispatch exhaustiveness: "
        "every opcode of OPS_BRANCH / OPS_SWITCH_CASE_MAP / the case lists / OPS_FLAG_ALL / OPS_CTX / the message-switch tables has a print branch, every "
        "LabelJumpMarker subclass a write handler. (R3) edge conventions: the graph builder gives the fall-through successor flow_level and the taken "
        "successor flow_level + 1, consumers read else = lowest / taken = highest; invert_branches flips is_else on both edges together with "
        "marker.is_not; the if writer prints `not` exactly under is_not and takes marker, clauses and exits from the op and vertex it is asked to "
        "print. (R4) no pass deletes the routine's entry vertex. (R5) = C11-R5 memo rules. (R6) the passes run in the dependency order recorded from the "
        "code (e.g. group_branches before invert_branches). The structuring heuristics themselves are not decided."
        " (R7, interpreter-based) compile(), convert() and compile() again are evaluated from their syntax trees (parser runtime, graph library and file system"
        " modelled) on the general, nested and flat program families; for every program whose decompilation is ExplorerScript the text must compile and its flo"
        "w graph must be bisimilar to the input's. R7 decides the enumerated shapes for all test outcomes; R1-R6 are shape-independent necessary conditions."
    )
    chk.rule("C02-R7", "round trip, every stage interpreted: for each program of the skeleton families (schematic ops and tests) whose decompilation is ExplorerScript, the text compiles and its flow graph is bisimilar to the input (all outcomes of all tests); same routine table")
    chk.rule("C02-R1", "print o parse o form-table = identity on every special-opcode spelling (see evidence key forms)")
    chk.rule("C02-R2", "dispatch exhaustiveness of the writers over the opcode tables and marker classes")
    chk.rule("C02-R3", "edge attribute conventions agree between producer and consumers; negation flag flipped together with the edges; if writer uses the op it is given")
    chk.rule("C02-R4", "the routine entry vertex is not deleted by a pass that deletes vertices without in-edges")
    chk.rule("C02-R5", "join-search memo is cleared before use in mutate-and-use loops and after the last using pass")
    chk.rule("C02-R6", "structuring passes are invoked in their dependency order")

    from .c02_forms import forms_rule
    forms_rule(chk, ctx, "C02-R1")

    # ------------------------------------------------------------------ R2
    branch = set(fold.const(f"{SPECIAL}:OPS_BRANCH"))
    scm = fold.const(f"{SPECIAL}:OPS_SWITCH_CASE_MAP")
    cases = set()
    for v in scm.values():
        cases |= set(v)
    ih = repo.func(f"{WH}.label_jumps.if_start:IfWriteHandler._if_header_for")
    got = names_in_switch(ih.node, fold, ih.mod, "op.op_code.name")
    miss = sorted(branch - got)
    chk.decide("C02-R2", "if-headers", not miss, ih, f"branch opcodes without a print branch in _if_header_for: {miss} (the writer raises 'Unknown if-operation')",
               f"{len(branch)} branch opcodes printed")
    sh = repo.func(f"{WH}.label_jumps.switch_start:SwitchWriteHandler._switch_header_for")
    got = names_in_switch(sh.node, fold, sh.mod, "op.op_code.name")
    miss = sorted(set(scm) - got)
    chk.decide("C02-R2", "switch-headers", not miss, sh, f"switch opcodes without a print branch in _switch_header_for: {miss}", f"{len(scm)} switch opcodes printed")
    chd = repo.func(f"{WH}.label_jumps.switch_start:SwitchWriteHandler._case_header_for")
    got = names_in_switch(chd.node, fold, chd.mod, "op.op_code.name")
    miss = sorted(cases - got)
    chk.decide("C02-R2", "case-headers", not miss, chd, f"case opcodes without a print branch in _case_header_for: {miss}", f"{len(cases)} case opcodes printed")
    fl = repo.func(f"{WH}.simple_ops.flag:FlagSimpleOpWriteHandler.write_content")
    got = names_in_switch(fl.node, fold, fl.mod, "op.op_code.name")
    allflags = set(fold.const(f"{SPECIAL}:OPS_FLAG_ALL"))
    miss = sorted(allflags - got)
    chk.decide("C02-R2", "flag-ops", not miss, fl, f"flag opcodes without a print branch: {miss}", f"{len(allflags)} flag opcodes printed")
    cx = repo.func(f"{WH}.simple_ops.ctx:CtxSimpleOpWriteHandler.write_content")
    got = names_in_switch(cx.node, fold, cx.mod, "op.op_code.name")
    allctx = set(fold.const(f"{SPECIAL}:OPS_CTX"))
    chk.decide("C02-R2", "ctx-ops", allctx <= got, cx, f"context opcodes without a print branch: {sorted(allctx - got)}", "lives/object/performer printed")
    kw = repo.func(f"{WH}.simple_ops.keyword:KeywordSimpleOpWriteHandler.write_content")
    got = names_in_switch(kw.node, fold, kw.mod, "op.op_code.name")
    need = {fold.const(f"{SPECIAL}:OP_RETURN"), fold.const(f"{SPECIAL}:OP_END"), fold.const(f"{SPECIAL}:OP_HOLD")}
    chk.decide("C02-R2", "keyword-ops", need <= got, kw, f"keyword opcodes without a print branch: {sorted(need - got)}", "Return/End/Hold printed")
    # special-case table of SimpleOperationWriteHandler covers the opcode families
    so = repo.cls(f"{WH}.simple_op.SimpleOperationWriteHandler")
    env = fold.class_env(so)
    tab = env.get("_ssb_operations_special_cases_handlers")
    if not isinstance(tab, dict):
        chk.unknown("C02-R2", "simple-op-dispatch", so.mod, "special-case handler table cannot be folded")
    else:
        want = allflags | allctx | need | set(fold.const(f"{SPECIAL}:OPS_SWITCH_TEXT_CASE_MAP")) | set(fold.const(f"{SPECIAL}:OPS_SWITCH_TEXT_CASE_CASES_LIST"))
        miss = sorted(x for x in want if x not in tab)
        chk.decide("C02-R2", "simple-op-dispatch", not miss, so.mod, f"opcodes with special syntax that are not dispatched to their writer: {miss} (printed as plain calls)",
                   f"{len(want)} opcodes dispatched to special writers")
    # label jump markers
    lj = repo.cls(f"{WH}.label_jump.LabelJumpWriteHandler")
    tab = fold.class_env(lj).get("_label_jump_marker_handlers")
    sp = repo.mod(SPECIAL)
    ljm = sp.classes["LabelJumpMarker"]
    subs = {c.name for c in repo.subclasses(ljm, strict=True)}
    if not isinstance(tab, dict):
        chk.unknown("C02-R2", "label-jump-dispatch", lj.mod, "marker handler table cannot be folded")
    else:
        keys = {getattr(k, "qual", "").split(".")[-1] for k in tab.keys()}
        chk.decide("C02-R2", "label-jump-dispatch", subs <= keys, lj.mod, f"jump marker classes without a write handler: {sorted(subs - keys)}", f"{len(subs)} marker classes dispatched")

    # ------------------------------------------------------------------ R3
    gm = repo.cls(f"{GM}.SsbGraphMinimizer")
    gn = Func(gm.mod, gm, gm.methods["_get_edges__get_next_for"])
    apps = [c for c in walk_no_nested(gn.node) if isinstance(c, ast.Call) and norm(c.func) == "next_ops.append" and isinstance(c.args[0], ast.Tuple)]
    fall = [a for a in apps if norm(a.args[0].elts[0]) == "flow_level" and norm(a.args[0].elts[1]) == "op_i + 1"]
    taken = [a for a in apps if norm(a.args[0].elts[0]) == "flow_level + 1"]
    chk.decide("C02-R3", "producer:flow-levels", len(fall) >= 1 and len(taken) >= 2 and len(fall) + len(taken) == len(apps), gn,
               "the graph builder no longer labels the fall-through successor with flow_level and the jump successor with flow_level + 1: consumers pick else/taken edges "
               "by lowest/highest flow_level", "fall-through = flow_level, taken = flow_level + 1")
    fl_f = repo.func(f"{GU}:find_lowest_and_highest_out_edge")
    r = astq.single_return_expr(fl_f.node)
    ok = isinstance(r, ast.Tuple) and len(r.elts) == 2 and isinstance(r.elts[0], ast.Call) and dotted(r.elts[0].func) == "min" and isinstance(r.elts[1], ast.Call) \
        and dotted(r.elts[1].func) == "max"
    chk.decide("C02-R3", "consumer:lowest-highest", ok, fl_f, "find_lowest_and_highest_out_edge does not return (min, max) by the attribute", "returns (lowest, highest)")
    for mname, first, second in (("build_branches", "else_edge", "if_edge"), ("build_and_group_switch_cases", "else_edge", "case_edge")):
        m = Func(gm.mod, gm, gm.methods[mname])
        un = [n for n in walk_no_nested(m.node) if isinstance(n, (ast.Assign, ast.AnnAssign)) and isinstance(n.value, ast.Call)
              and dotted(n.value.func) == "find_lowest_and_highest_out_edge"]
        names = None
        if un:
            t = un[0].targets[0] if isinstance(un[0], ast.Assign) else un[0].target
            names = [norm(x) for x in t.elts] if isinstance(t, ast.Tuple) else None
        attr_ok = bool(un) and len(un[0].value.args) == 3 and fold.try_expr(m.mod, un[0].value.args[2]) == "flow_level"  # type: ignore[union-attr]
        chk.decide("C02-R3", f"consumer:{mname}", names == [first, second] and attr_ok, m,
                   f"{mname} unpacks (lowest, highest) as {names}: the fall-through (else) edge is the lowest flow_level, the taken edge the highest",
                   f"else = lowest, {second.split('_')[0]} = highest")
    bb = Func(gm.mod, gm, gm.methods["build_branches"])
    marks = [n for n in walk_no_nested(bb.node) if isinstance(n, ast.Assign) and norm(n.targets[0]) == "else_edge['is_else']"]
    chk.decide("C02-R3", "build_branches:marks-else", len(marks) == 1 and isinstance(marks[0].value, ast.Constant) and marks[0].value.value is True, bb,
               "build_branches does not mark the fall-through edge as the else edge", "else edge marked")
    inv = Func(gm.mod, gm, gm.methods["invert_branches"])
    flips = {norm(n.targets[0]): n.value for n in walk_no_nested(inv.node) if isinstance(n, ast.Assign) and (
        "['is_else']" in norm(n.targets[0]) or norm(n.targets[0]).endswith(".is_not"))}
    ok = (isinstance(flips.get("else_edge['is_else']"), ast.Constant) and flips["else_edge['is_else']"].value is False
          and isinstance(flips.get("if_edge['is_else']"), ast.Constant) and flips["if_edge['is_else']"].value is True
          and isinstance(flips.get("marker.is_not"), ast.Constant) and flips["marker.is_not"].value is True)
    same_block = False
    for n in walk_no_nested(inv.node):
        if isinstance(n, ast.If):
            tg = {norm(s.targets[0]) for s in n.body if isinstance(s, ast.Assign)}
            if {"else_edge['is_else']", "if_edge['is_else']", "marker.is_not"} <= tg:
                same_block = True
    chk.decide("C02-R3", "invert_branches:flip-together", ok and same_block, inv,
               f"inverting a branch must swap is_else on both edges and set marker.is_not in one step; found {sorted(flips)}", "edges and negation flag flipped together")
    wi = repo.func(f"{WH}.label_jumps.if_start:IfWriteHandler._write_if_header")
    wfn = wi.node
    ps = astq.params_of(wfn)
    op_p = ps[1] if len(ps) > 1 else "op"
    v_p = ps[2] if len(ps) > 2 else "v"
    mdef = [n for n in walk_no_nested(wfn) if isinstance(n, ast.Assign) and norm(n.targets[0]) == "m"]
    if not mdef:
        chk.unknown("C02-R3", "if-writer:marker-source", wi, "marker variable not found")
    else:
        src = norm(mdef[0].value)
        chk.decide("C02-R3", "if-writer:marker-source", src == f"{op_p}.get_marker()", wi,
                   f"the header is printed from the marker `{src}`, not from the marker of the op it is asked to print ({op_p}): every `elseif` header repeats the "
                   "negation and the `||` clauses of the leading `if`", "marker of the printed op", node=mdef[0])
    ex = [n for n in walk_no_nested(wfn) if isinstance(n, ast.Assign) and norm(n.targets[0]) == "exits"]
    chk.decide("C02-R3", "if-writer:exits-source", bool(ex) and norm(ex[0].value) == f"{v_p}.out_edges()", wi,
               f"the branch edges are taken from `{norm(ex[0].value) if ex else '?'}`, not from the vertex being printed ({v_p})", "edges of the printed vertex")
    clause_src = [norm(c.args[0]) for c in walk_no_nested(wfn) if isinstance(c, ast.Call) and dotted(c.func) == "self._if_header_for" and c.args]
    ok = all(a in (f"{op_p}.root", "s") for a in clause_src) and bool(clause_src)
    chk.decide("C02-R3", "if-writer:clauses-source", ok, wi, f"condition clauses are printed from {clause_src}", "clauses of the printed op")
    nots = [n for n in walk_no_nested(wfn) if isinstance(n, ast.Assign) and isinstance(n.value, ast.IfExp) and "not" in norm(n.value)]
    if nots:
        ie = nots[0].value
        empty_when = fold.try_expr(wi.mod, ie.body)  # type: ignore[union-attr]
        cond = norm(ie.test)  # type: ignore[union-attr]
        ok = (cond == "not m.is_not" and empty_when == "") or (cond == "m.is_not" and isinstance(empty_when, str) and "not" in empty_when)
        chk.decide("C02-R3", "if-writer:not", ok, wi, f"` not` is printed under `{cond}` -> {empty_when!r}: it must be printed exactly when m.is_not", "`not` printed iff is_not")
    else:
        chk.unknown("C02-R3", "if-writer:not", wi, "printing of `not` not recognised")
    sel = {norm(n.targets[0]): norm(n.value) for n in walk_no_nested(wfn) if isinstance(n, ast.Assign) and norm(n.targets[0]) in ("else_edge", "if_edge")}
    ok = "if e['is_else']" in sel.get("else_edge", "") and "if not e['is_else']" in sel.get("if_edge", "")
    chk.decide("C02-R3", "if-writer:edge-selection", ok, wi, f"if/else edges selected as {sel}", "else edge = is_else, if edge = not is_else")
    rt = astq.single_return_expr(wfn)
    chk.decide("C02-R3", "if-writer:returns", rt is not None and norm(rt) == "(if_edge, else_edge)", wi, f"returns {norm(rt) if rt is not None else None}", "returns (if_edge, else_edge)")

    # ------------------------------------------------------------------ R4
    rm = Func(gm.mod, gm, gm.methods["remove_label_markers"])
    first_loop = None
    for n in walk_no_nested(rm.node):
        if isinstance(n, ast.For) and norm(n.iter) == "g.vs" and any("OP_JUMP" in norm(x) for x in ast.walk(n)):
            first_loop = n
            break
    if first_loop is None:
        chk.unknown("C02-R4", "remove_label_markers:entry", rm, "jump-removal loop not found")
    else:
        adds = [c for c in ast.walk(first_loop) if isinstance(c, ast.Call) and norm(c.func) == "vs_to_delete.add"]
        guard = any(isinstance(n, ast.If) and "len(in_edges) != 0" in norm(n.test) and any(
            isinstance(e, ast.If) and ("index == 0" in norm(e.test) or "index != 0" in norm(e.test)) for e in n.orelse) for n in ast.walk(first_loop))
        chk.decide("C02-R4", "remove_label_markers:entry", guard, rm,
                   "a Jump vertex without in-edges is deleted as dead code, but the routine's first op has no in-edges either: a routine that starts with a Jump (every "
                   "leading while loop) is printed from the jump's fall-through successor", "entry vertex (index 0) is kept", node=adds[0] if adds else first_loop)
    rw = repo.func(f"{WH}.routine:RoutineWriteHandler.__init__")
    sup = [c for c in walk_no_nested(rw.node) if isinstance(c, ast.Call) and isinstance(c.func, ast.Attribute) and c.func.attr == "__init__"]
    chk.decide("C02-R4", "routine-writer:starts-at-entry", bool(sup) and "r_graph.vs[0]" in norm(sup[0].args[0]), rw, "the routine writer does not start at vertex 0", "writer starts at vertex 0")

    # ------------------------------------------------------------------ R5
    memo_rules(chk, ctx, "C02-R5")

    # ------------------------------------------------------------------ R6
    dcls = repo.cls(f"{DEC}.ExplorerScriptSsbDecompiler")
    order: list[str] = []
    owner = None
    for mname, m in dcls.methods.items():
        gvars = {n.targets[0].id for n in walk_no_nested(m) if isinstance(n, ast.Assign) and isinstance(n.targets[0], ast.Name)
                 and isinstance(n.value, ast.Call) and dotted(n.value.func) == "SsbGraphMinimizer"}
        calls = sorted((n.lineno, n.func.attr) for n in walk_no_nested(m) if isinstance(n, ast.Call) and isinstance(n.func, ast.Attribute)
                       and isinstance(n.func.value, ast.Name) and n.func.value.id in gvars and n.func.attr in gm.methods)
        if calls:
            order = [c for _l, c in calls]
            owner = Func(dcls.mod, dcls, m)
    chk.floor("C02-R6", "passes invoked by the decompiler", len(order), 9)
    for a, b, why in PASS_ORDER:
        key = f"pass-order:{a}<{b}"
        if a not in order or b not in order:
            chk.violation("C02-R6", key, owner or dcls.mod, f"pass {a if a not in order else b} is not invoked: {why}")
            continue
        chk.decide("C02-R6", key, order.index(a) < order.index(b), owner or dcls.mod,
                   f"{b} runs before {a}, but {why}", f"{a} before {b}")
    from .roundtrip import summarise as _rt
    _rt(chk, ctx, "C02-R7", "C02", getattr(ctx, "tier", "quick") == "thorough")

