"""C13 — flat structured programs decompile back to structured, jump-free text (necessary conditions only)."""

from __future__ import annotations

import ast
from typing import Any

from ..engine import astq
from ..engine.cfg import build_cfg, stmt_of
from ..engine.loader import AnalysisError, Func, dotted, norm, walk_no_nested
from ..engine.report import Check, fkey

GU = "explorerscript.ssb_converting.decompiler.graph_building.graph_utils"
GM = "explorerscript.ssb_converting.decompiler.graph_building.graph_minimizer"
WH = "explorerscript.ssb_converting.decompiler.write_handlers"
SPECIAL = "explorerscript.ssb_converting.ssb_special_ops"
ADJ = {"out_edges", "incident", "successors", "neighbors", "out_neighbors"}
EDGE_MUT = {"_reconnect", "delete_edges", "add_edge", "delete_vertices", "add_edges"}


def _depends_on_adjacency(fn: ast.FunctionDef, name: str, depth: int = 0) -> bool:
    """Is some definition of local ``name`` data-dependent on an adjacency query?"""
    if depth > 4:
        return False
    for n in walk_no_nested(fn):
        val = None
        if isinstance(n, ast.Assign) and any(isinstance(t, ast.Name) and t.id == name for t in n.targets):
            val = n.value
        elif isinstance(n, ast.AnnAssign) and isinstance(n.target, ast.Name) and n.target.id == name and n.value is not None:
            val = n.value
        elif isinstance(n, ast.Call) and isinstance(n.func, ast.Attribute) and n.func.attr in ("append", "extend", "add", "update") \
                and isinstance(n.func.value, ast.Name) and n.func.value.id == name:
            # x.append(e) inside `for e in <iter>`: depends on what the enclosing loop iterates
            for lp in walk_no_nested(fn):
                if isinstance(lp, ast.For) and any(x is n for x in ast.walk(lp)):
                    if any(isinstance(c, ast.Call) and isinstance(c.func, ast.Attribute) and c.func.attr in ADJ for c in ast.walk(lp.iter)):
                        return True
                    if isinstance(lp.iter, ast.Name) and lp.iter.id != name and _depends_on_adjacency(fn, lp.iter.id, depth + 1):
                        return True
            val = n.args[0] if n.args else None
        if val is None:
            continue
        for c in ast.walk(val):
            if isinstance(c, ast.Call) and isinstance(c.func, ast.Attribute) and c.func.attr in ADJ:
                return True
            if isinstance(c, ast.Name) and c.id != name and isinstance(c.ctx, ast.Load) and depth < 3:
                if any(isinstance(m, (ast.Assign, ast.AnnAssign)) for m in walk_no_nested(fn)) and _depends_on_adjacency(fn, c.id, depth + 1) \
                        and c.id not in astq.params_of(fn):
                    return True
    return False


def run(chk: Check, ctx: Any) -> None:
    repo = ctx.repo
    chk.explanation = (
        "C13 is a completeness statement about ~1 600 lines of heuristic graph rewriting; R1-R5 decide shape-independent necessary conditions, R6 the "
        "enumerated flat programs. (R1) the join search advances along the graph: the next frontier is data-dependent on an "
        "adjacency query of the current vertex. (R2) every end marker a pass attaches (IfEnd/SwitchEnd/ForeverEnd/ForeverStart/SwitchFalltrough) is "
        "recognised by the label writer, and each block writer's check_end_block stops on the id of its own start marker. (R3) igraph edge handles "
        "are not used across a graph rewrite: a loop that rewrites edges re-fetches every edge variable its condition reads; sets of "
        "vertices/edges to delete are created per graph; the block writer asks its end-of-block callback before it validates the next vertex. "
        "Shapes outside the enumerated families are not decided (DESIGN.md 9.5)."
        " (R4/R5) typestate of jump roots across passes, stale edge ids, memo discipline. (R6, interpreter-based) compile() and convert() are evaluated on flat"
        " programs (every single construct, every ordered pair; triples in the thorough tier): the text must be ExplorerScript without jump with every operatio"
        "n once. R6 decides the enumerated flat shapes, not all flat programs."
    )
    chk.rule("C13-R6", "flat programs (statement sequences, if/elseif/else chains, switches with break-terminated cases; singles and ordered pairs, triples in the thorough tier) decompile - every stage interpreted - to ExplorerScript without jump, every operation printed once")
    chk.rule("C13-R1", "join search liveness: the edges followed from a vertex come from an adjacency query on that vertex")
    chk.rule("C13-R2", "marker producer/consumer agreement: every LabelMarker subclass is consumed by LabelWriteHandler; check_end_block compares the id of its own start marker")
    chk.rule("C13-R3", "no stale igraph handles: edge variables read by a rewriting loop's condition are re-fetched after the rewrite; delete-sets are per graph; "
                       "end-of-block callback precedes validation of the next vertex")

    chk.rule("C13-R4", "typestate of jump roots: passes that run after the grouping pass (which unsets roots) read .root only behind `maybe_root is not None` "
                       "or on a jump they built themselves")
    chk.rule("C13-R5", "edge ids collected before a loop are not looked up after an edge was deleted inside the loop; the join-search memo is cleared before "
                       "every use inside mutate-and-use loops")
    root_typestate_rule(chk, ctx, "C13-R4")
    stale_ids_in_loop_rule(chk, ctx, "C13-R5")
    from .c11 import memo_rules
    memo_rules(chk, ctx, "C13-R5")

    # ------------------------------------------------------------------ R1
    impl = repo.func(f"{GU}:_find_first_common_next_vertex_in_edges__impl")
    fn = impl.node
    # the variable whose elements are added to the new frontier
    frontier_sources: set[str] = set()
    for n in walk_no_nested(fn):
        if isinstance(n, ast.Call) and isinstance(n.func, ast.Attribute) and n.func.attr in ("add", "update", "append") and n.args:
            recv = norm(n.func.value)
            if recv.startswith("new_es"):
                for x in ast.walk(n.args[0]):
                    if isinstance(x, ast.Name) and x.id not in ("None",):
                        frontier_sources.add(x.id)
    frontier_sources -= set(astq.params_of(fn))
    cand = [s for s in frontier_sources if s not in ("e",)]
    if not cand:
        chk.unknown("C13-R1", "join-search:frontier", impl, "construction of the next frontier not recognised")
    else:
        live = [s for s in cand if _depends_on_adjacency(fn, s)]
        chk.decide("C13-R1", "join-search:frontier", bool(live), impl,
                   f"the next frontier of the join search is built from {sorted(cand)}, none of which is derived from an adjacency query (out_edges/incident/"
                   "successors) of the current vertex: the search never gets further than one edge, so no if/switch body with more than one op finds its "
                   "join point and every join is printed as `jump @label`", f"frontier derived from adjacency of the current vertex ({sorted(live)})")
    # the search is applied to the two/all out edges of the branch/switch vertex
    gm = repo.cls(f"{GM}.SsbGraphMinimizer")
    bb = Func(gm.mod, gm, gm.methods["build_branches"])
    uses = [c for c in walk_no_nested(bb.node) if isinstance(c, ast.Call) and dotted(c.func) == "find_first_common_next_vertex_in_edges"]
    ok = len(uses) == 1 and len(uses[0].args) >= 2 and isinstance(uses[0].args[1], ast.List) and len(uses[0].args[1].elts) == 2
    chk.decide("C13-R1", "build_branches:both-edges", ok, bb, "the if-end search is not started from both out edges of the branch", "search from if-edge and else-edge")
    sw = Func(gm.mod, gm, gm.methods["build_and_group_switch_cases"])
    uses = [c for c in walk_no_nested(sw.node) if isinstance(c, ast.Call) and dotted(c.func) == "find_first_common_next_vertex_in_edges"]
    ok = len(uses) == 1 and len(uses[0].args) >= 2 and norm(uses[0].args[1]).endswith(".out_edges()")
    chk.decide("C13-R1", "build_switch:all-edges", ok, sw, "the switch-end search is not started from all out edges of the switch", "search from all case edges")

    # ------------------------------------------------------------------ R2
    sp = repo.mod(SPECIAL)
    lm = sp.classes.get("LabelMarker")
    if lm is None:
        raise AnalysisError("LabelMarker not found")
    markers = [c for c in repo.subclasses(lm, strict=True)]
    lw = repo.cls(f"{WH}.label.LabelWriteHandler")
    init = lw.methods["__init__"]
    consumed = {dotted(n.test.args[1]) for n in walk_no_nested(init) if isinstance(n, ast.If) and isinstance(n.test, ast.Call)
                and dotted(n.test.func) == "isinstance" and len(n.test.args) == 2}
    produced: dict[str, list[str]] = {}
    for f in repo.all_funcs():
        if not f.mod.name.startswith("explorerscript.ssb_converting.decompiler.graph_building"):
            continue
        for c in walk_no_nested(f.node):
            if isinstance(c, ast.Call) and isinstance(c.func, ast.Attribute) and c.func.attr == "add_marker" and c.args and isinstance(c.args[0], ast.Call):
                d = dotted(c.args[0].func)
                if d:
                    produced.setdefault(d, []).append(f.short)
    chk.floor("C13-R2", "LabelMarker subclasses", len(markers), 5)
    for m in sorted(markers, key=lambda c: c.name):
        if m.name in produced:
            chk.decide("C13-R2", f"marker:{m.name}:consumed", m.name in consumed, Func(lw.mod, lw, init),
                       f"{m.name} is attached by {sorted(set(produced[m.name]))} but LabelWriteHandler does not recognise it: the block it ends is never closed",
                       "recognised by the label writer")
        else:
            chk.hold("C13-R2", f"marker:{m.name}:consumed", sp, "no pass attaches it")
    for spec, start_attr, ended in ((f"{WH}.label_jumps.if_start:IfWriteHandler.check_end_block", "if_id", "ended_ifs"),
                                    (f"{WH}.label_jumps.switch_start:SwitchWriteHandler.check_end_block", "switch_id", "ended_switches"),
                                    (f"{WH}.labels.forever_start:ForeverWriteHandler.check_end_block", "loop_id", "ended_loops")):
        f = repo.func(spec)
        cmp_ok = False
        ret_false = False
        for n in walk_no_nested(f.node):
            if isinstance(n, ast.If) and isinstance(n.test, ast.Compare) and isinstance(n.test.ops[0], ast.In) and norm(n.test.left).endswith(f".{start_attr}") \
                    and norm(n.test.comparators[0]).endswith(f".{ended}"):
                cmp_ok = True
                ret_false = any(isinstance(r, ast.Return) and isinstance(r.value, ast.Constant) and r.value.value is False for b in n.body for r in ast.walk(b))
        chk.decide("C13-R2", f"{f.short}", cmp_ok and ret_false, f,
                   f"check_end_block does not stop the block when the label ends the {start_attr[:-3]} it was started for ({start_attr} in {ended}): the block body "
                   "runs on past its end marker", f"stops on its own {start_attr}")
    # the ids written into the consumer lists come from the same fields
    for mk, attr, lst in (("IfEnd", "if_id", "ended_ifs"), ("SwitchEnd", "switch_id", "ended_switches"), ("ForeverEnd", "loop_id", "ended_loops"),
                          ("ForeverStart", "loop_id", "started_loops")):
        ok = any(isinstance(n, ast.If) and isinstance(n.test, ast.Call) and dotted(n.test.args[1]) == mk and any(
            isinstance(c, ast.Call) and norm(c.func) == f"self.{lst}.append" and norm(c.args[0]).endswith(f".{attr}") for b in n.body for c in ast.walk(b))
            for n in walk_no_nested(init))
        chk.decide("C13-R2", f"label-writer:{mk}", ok, Func(lw.mod, lw, init), f"{mk}.{attr} is not collected into {lst}", f"{mk}.{attr} -> {lst}")

    # ------------------------------------------------------------------ R3a stale edge handles in rewriting loops
    n_loops = 0
    for mname, m in gm.methods.items():
        f = Func(gm.mod, gm, m)
        for w in walk_no_nested(m):
            if not isinstance(w, ast.While):
                continue
            body_calls = [c for s in w.body for c in ast.walk(s) if isinstance(c, ast.Call)]
            muts = [c for c in body_calls if isinstance(c.func, ast.Attribute) and c.func.attr in EDGE_MUT]
            if not muts:
                continue
            test_names = {n.id for n in ast.walk(w.test) if isinstance(n, ast.Name)}
            # edge/vertex handle variables: defined from out_edges()/in_edges()/target_vertex/source_vertex expressions somewhere in the method
            handles = set()
            for n in walk_no_nested(m):
                if isinstance(n, ast.Assign) and isinstance(n.targets[0], ast.Name) and n.targets[0].id in test_names:
                    t = norm(n.value)
                    if any(k in t for k in ("out_edges()", "in_edges()", ".target_vertex", ".source_vertex", "g.es[")):
                        handles.add(n.targets[0].id)
            if not handles:
                continue
            n_loops += 1
            last_mut = max(c.lineno for c in muts)
            for h in sorted(handles):
                refetch = [n for s in w.body for n in ast.walk(s) if isinstance(n, ast.Assign) and isinstance(n.targets[0], ast.Name)
                           and n.targets[0].id == h and n.lineno > last_mut]
                chk.decide("C13-R3", f"stale-handle:{gm.name}.{mname}:{h}", bool(refetch), f,
                           f"the loop `while {norm(w.test)[:60]}` rewrites edges ({norm(muts[-1])[:50]}) and then tests `{h}` again without fetching it anew: "
                           "igraph edge handles are indices, after the rewrite the old handle denotes another edge (e.g. the third clause of an `a || b || c` "
                           "header is no longer grouped)", f"`{h}` re-fetched after the rewrite", node=w)
    chk.floor("C13-R3", "edge-rewriting while loops with edge handles in their condition", n_loops, 1)
    # ------------------------------------------------------------------ R3b per-graph delete sets
    n_sets = 0
    for mname, m in gm.methods.items():
        f = Func(gm.mod, gm, m)
        for lp in m.body:
            if not (isinstance(lp, ast.For) and "self._graphs" in norm(lp.iter)):
                continue
            for c in ast.walk(lp):
                if isinstance(c, ast.Call) and isinstance(c.func, ast.Attribute) and c.func.attr in ("delete_edges", "delete_vertices") and c.args \
                        and isinstance(c.args[0], ast.Name):
                    var = c.args[0].id
                    inits_in = [n for n in ast.walk(lp) if isinstance(n, (ast.Assign, ast.AnnAssign)) and norm(n.targets[0] if isinstance(n, ast.Assign) else n.target) == var]
                    inits_out = [n for n in m.body if n is not lp and isinstance(n, (ast.Assign, ast.AnnAssign))
                                 and norm(n.targets[0] if isinstance(n, ast.Assign) else n.target) == var]
                    if not inits_in and not inits_out:
                        continue
                    n_sets += 1
                    chk.decide("C13-R3", f"per-graph-set:{gm.name}.{mname}:{var}", bool(inits_in), f,
                               f"`{var}` collects vertex/edge handles of one routine's graph but is created outside the loop over the graphs: handles of an "
                               f"earlier routine are deleted (by index) from every later routine's graph in `{norm(c)}`", f"`{var}` created per graph", node=c)
    chk.floor("C13-R3", "delete-sets in per-graph loops", n_sets, 5)
    # ------------------------------------------------------------------ R3c block writer order
    bw = repo.func(f"{WH}.block:BlockWriteHandler.write_content")
    loop = next((n for n in walk_no_nested(bw.node) if isinstance(n, ast.While)), None)
    if loop is None:
        chk.unknown("C13-R3", "block-writer:order", bw, "main loop not found")
    else:
        cb = next((s for s in loop.body if isinstance(s, ast.If) and "check_end_block" in norm(s.test)), None)
        nest = next((s for s in loop.body if isinstance(s, ast.If) and "_disallow_nested" in norm(s.test)), None)
        wr = next((s for s in loop.body if isinstance(s, ast.Assign) and "write_content()" in norm(s.value)), None)
        if cb is None or nest is None or wr is None:
            chk.unknown("C13-R3", "block-writer:order", bw, "end-of-block callback / nested validation / write step not found")
        else:
            chk.decide("C13-R3", "block-writer:order", cb.lineno < nest.lineno < wr.lineno, bw,
                       "the vertex that only terminates the block is validated against the no-nested-blocks restriction before the end-of-block callback "
                       "is asked: a with-block or message switch that is followed by an if/switch raises and the routine falls back to SsbScript",
                       "callback first, then validation, then write", node=nest)
            brk = any(isinstance(x, ast.Break) for x in ast.walk(cb))
            chk.decide("C13-R3", "block-writer:callback-breaks", brk, bw, "a negative end-of-block answer does not leave the loop", "negative answer leaves the loop")
    from .roundtrip import summarise as _rt
    _rt(chk, ctx, "C13-R6", "C13", getattr(ctx, "tier", "quick") == "thorough")



# --------------------------------------------------------------------------- R4/R5


def _pipeline(repo: Any) -> list[str]:
    gm = repo.cls(f"{GM}.SsbGraphMinimizer")
    dcls = repo.cls("explorerscript.ssb_converting.ssb_decompiler.ExplorerScriptSsbDecompiler")
    passes = []
    for _mname, m in dcls.methods.items():
        gvars = {n.targets[0].id for n in walk_no_nested(m) if isinstance(n, ast.Assign) and isinstance(n.targets[0], ast.Name)
                 and isinstance(n.value, ast.Call) and dotted(n.value.func) == "SsbGraphMinimizer"}
        for n in walk_no_nested(m):
            if isinstance(n, ast.Call) and isinstance(n.func, ast.Attribute) and isinstance(n.func.value, ast.Name) and n.func.value.id in gvars \
                    and n.func.attr in gm.methods:
                passes.append((n.lineno, n.func.attr))
    passes.sort()
    return [p for _l, p in passes if p != "get_graphs"]


def _helpers(gm: Any, m: ast.FunctionDef, seen: set[str]) -> list[str]:
    out = []
    for c in walk_no_nested(m):
        if isinstance(c, ast.Call):
            d = dotted(c.func) or ""
            for pre in ("self.", "SsbGraphMinimizer.", "cls."):
                if d.startswith(pre) and d[len(pre):] in gm.methods and d[len(pre):] not in seen:
                    seen.add(d[len(pre):])
                    out.append(d[len(pre):])
                    out.extend(_helpers(gm, gm.methods[d[len(pre):]], seen))
    return out


def root_typestate_rule(chk: Check, ctx: Any, rule: str) -> None:
    """A pass that runs after roots have been unset reads `.root` (which asserts) only behind `maybe_root is not None` or on a jump it has just built."""
    repo = ctx.repo
    gm = repo.cls(f"{GM}.SsbGraphMinimizer")
    order = _pipeline(repo)
    unsetters = [p for p in order if any(isinstance(c, ast.Call) and isinstance(c.func, ast.Attribute) and c.func.attr == "unset_root"
                                         for c in walk_no_nested(gm.methods[p]))]
    if not unsetters:
        chk.hold(rule, "root-typestate", gm.mod, "no pass unsets the root of a jump")
        return
    first = order.index(unsetters[0])
    later = order[first + 1:]
    n_sites = 0
    for p in later:
        for mname in [p] + _helpers(gm, gm.methods[p], {p}):
            m = gm.methods[mname]
            f = Func(gm.mod, gm, m)
            par: dict[ast.AST, ast.AST] = {}
            for x in ast.walk(m):
                for ch in ast.iter_child_nodes(x):
                    par[ch] = x
            for n in walk_no_nested(m):
                if not (isinstance(n, ast.Attribute) and n.attr == "root" and isinstance(n.ctx, ast.Load)):
                    continue
                base = norm(n.value)
                if base in ("self",):
                    continue
                n_sites += 1
                guard = f"{base}.maybe_root is not None"
                ok = False
                # (a) an earlier conjunct of the same `and`, or the test of an enclosing if/while
                cur: ast.AST = n
                while cur in par:
                    up = par[cur]
                    if isinstance(up, ast.BoolOp) and isinstance(up.op, ast.And):
                        idx = next(i for i, v in enumerate(up.values) if v is cur or any(x is cur for x in ast.walk(v)))
                        if any(norm(v) == guard for v in up.values[:idx]):
                            ok = True
                    if isinstance(up, (ast.If, ast.While)) and cur is not up.test and guard in norm(up.test) and " or " not in norm(up.test):
                        ok = True
                    cur = up
                # (b) the jump was built in this method: <base> = SsbLabelJump(...)
                if not ok:
                    for a in walk_no_nested(m):
                        if isinstance(a, ast.Assign) and norm(a.targets[0]) == base and isinstance(a.value, ast.Call) and dotted(a.value.func) == "SsbLabelJump" \
                                and a.lineno < n.lineno:
                            ok = True
                chk.decide(rule, fkey(f, stmt_like(par, n), f"root:{base}"), ok, f,
                           f"`{base}.root` is read in {mname} (part of pass {p}) without `{guard}`: {unsetters[0]} unsets the root of the Branch jumps it merges into an "
                           "`||` group, the property asserts, and the routine falls back to SsbScript / is printed with jumps", "guarded or freshly built", node=n)
    chk.floor(rule, "reads of .root in passes after the grouping pass", n_sites, 4)


def stmt_like(par: dict[ast.AST, ast.AST], n: ast.AST) -> ast.AST:
    cur = n
    while cur in par and not isinstance(cur, ast.stmt):
        cur = par[cur]
    return cur


def stale_ids_in_loop_rule(chk: Check, ctx: Any, rule: str) -> None:
    """Edge ids collected before a loop are not used after an edge of the same graph was deleted inside the loop (igraph renumbers edges)."""
    repo = ctx.repo
    gm = repo.cls(f"{GM}.SsbGraphMinimizer")
    # methods that delete edges, directly or through helpers
    deleters: set[str] = set()
    changed = True
    while changed:
        changed = False
        for mname, m in gm.methods.items():
            if mname in deleters:
                continue
            for c in walk_no_nested(m):
                if isinstance(c, ast.Call) and isinstance(c.func, ast.Attribute) and (
                        c.func.attr in ("delete_edges",) or (astq.self_attr(c.func) in deleters)):
                    deleters.add(mname)
                    changed = True
                    break
    n_loops = 0
    for mname, m in gm.methods.items():
        f = Func(gm.mod, gm, m)
        for lp in walk_no_nested(m):
            if not isinstance(lp, ast.For) or not isinstance(lp.target, ast.Name):
                continue
            it = astq.inline_locals(m, lp.iter)
            t = norm(it)
            if not (".incident(" in t):
                continue
            n_loops += 1
            var = lp.target.id
            dels = [c for st in lp.body for c in ast.walk(st) if isinstance(c, ast.Call) and isinstance(c.func, ast.Attribute)
                    and (c.func.attr == "delete_edges" or astq.self_attr(c.func) in deleters)]
            uses_id = any(isinstance(x, ast.Subscript) and norm(x.value).endswith(".es") and norm(x.slice) == var for st in lp.body for x in ast.walk(st))
            chk.decide(rule, fkey(f, lp, "edge-ids"), not (dels and uses_id), f,
                       f"the loop over the edge ids `{t}` looks each id up in the edge sequence but `{norm(dels[0])[:60] if dels else ''}` deletes an edge inside the "
                       "loop: igraph renumbers the remaining edges, so from the second iteration on the ids name other edges (wrong edges are redirected or the "
                       "lookup fails, and the routine falls back / keeps jumps)", "ids are used before any edge is deleted", node=lp)
    chk.floor(rule, "loops over collected edge ids", n_loops, 1)
