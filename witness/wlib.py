"""Helpers for witness scripts (triage only — never used by a check)."""
import sys
from explorerscript.ssb_converting.ssb_compiler import ExplorerScriptSsbCompiler
from explorerscript.ssb_converting.ssb_decompiler import ExplorerScriptSsbDecompiler
from explorerscript.ssb_converting.ssb_data_types import DungeonModeConstants, SsbCoroutine, SsbOperation, SsbOpCode, SsbRoutineInfo, SsbRoutineType

def comp(src, path="/tmp/x.exps", lookup=None):
    c = ExplorerScriptSsbCompiler("$P", lookup or [])
    c.compile(src, path)
    return c

def show(c):
    for i, r in enumerate(c.routine_ops):
        print("routine", i, c.routine_infos[i])
        for op in r:
            print("  ", op.offset, op.op_code.name, list(op.params))

def decomp(c):
    coros = [SsbCoroutine(i, n) for i, n in enumerate(c.named_coroutines) if isinstance(n, str)]
    d = ExplorerScriptSsbDecompiler(c.routine_infos, c.routine_ops, coros, "$P", DungeonModeConstants("DC", "DO", "DR", "DOR"))
    return d.convert()
