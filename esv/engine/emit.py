"""Emission sites of the compiler: every place where an op (or a blueprint of one) is constructed."""

from __future__ import annotations

import ast
from dataclasses import dataclass
from typing import Any

from .loader import Repo, Func, dotted, walk_no_nested
from .consts import Folder, NotConst

COMPILER_PKGS = (
    "explorerscript.ssb_converting.compiler",
    "explorerscript.macro",
    "explorerscript.ssb_script.ssb_converting.compiler",
)


@dataclass
class Emission:
    func: Func
    call: ast.Call
    kind: str  # 'op' (_generate_operation) | 'jump' (_generate_jump_operation) | 'blueprint' | 'raw' (SsbOperation(...))
    name_expr: ast.expr | None
    name: Any  # folded opcode name or None
    params_expr: ast.expr | None
    label_expr: ast.expr | None = None
    offset_expr: ast.expr | None = None


def in_compiler(f: Func) -> bool:
    return any(f.mod.name == p or f.mod.name.startswith(p + ".") for p in COMPILER_PKGS)


def emission_sites(repo: Repo, fold: Folder) -> list[Emission]:
    out: list[Emission] = []
    for f in repo.all_funcs():
        if not in_compiler(f):
            continue
        for c in walk_no_nested(f.node):
            if not isinstance(c, ast.Call):
                continue
            d = dotted(c.func)
            if d is None:
                continue
            last = d.split(".")[-1]
            if last == "_generate_operation" and len(c.args) >= 2:
                out.append(Emission(f, c, "op", c.args[0], _fold(fold, f, c.args[0]), c.args[1]))
            elif last == "_generate_jump_operation" and len(c.args) >= 2:
                out.append(Emission(f, c, "jump", c.args[0], _fold(fold, f, c.args[0]), c.args[1],
                                    c.args[2] if len(c.args) > 2 else None))
            elif last == "SsbLabelJumpBlueprint" and len(c.args) >= 4:
                out.append(Emission(f, c, "blueprint", c.args[2], _fold(fold, f, c.args[2]), c.args[3]))
            elif last == "SsbOperation" and len(c.args) >= 3 and isinstance(c.args[1], ast.Call) \
                    and dotted(c.args[1].func) == "SsbOpCode" and len(c.args[1].args) >= 2:
                ne = c.args[1].args[1]
                out.append(Emission(f, c, "raw", ne, _fold(fold, f, ne), c.args[2], offset_expr=c.args[0]))
            elif last == "SsbOperation" and len(c.args) >= 3:
                out.append(Emission(f, c, "raw", None, None, c.args[2], offset_expr=c.args[0]))
    return out


def _fold(fold: Folder, f: Func, e: ast.expr) -> Any:
    try:
        v = fold.expr(f.mod, e)
        return v if isinstance(v, str) else None
    except NotConst:
        return None
