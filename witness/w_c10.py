from wlib import *
import tempfile, os
for src in ["def 0 { @a; }", "macro m() { alias previous; } def 0 { ~m(); }", "def 1 { a(); } def 0 { b(); }", 'import "."; def 0 { a(); }']:
    try:
        c = comp(src); print(repr(src), "OK", c.routine_ops)
    except Exception as e:
        print(repr(src), "->", type(e).__name__, e)
