# Triage tool (uses the real code; no check does). Run with PYTHONPATH=/repo:/verif/witness
"""Exploration with the REAL code: small routines around one Switch with 1-2 Case ops."""
import itertools, sys, json, collections
from oplevel_probe import *
C=SsbOpParamConstant
def O(o,n,p): return SsbOperation(o, SsbOpCode(-1,n), p)

def progs(maxrest):
    for pre in (0,1):
        for ncase in (1,2,3):
            for rest in range(1,maxrest+1):
                n=pre+1+ncase+rest
                hdr=pre+1+ncase
                rest_choices=[('P',None),('E',None)]+[('J',t) for t in range(pre,n)]
                for case_t in itertools.product(range(hdr,n), repeat=ncase):
                    for r in itertools.product(rest_choices, repeat=rest):
                        if r[-1][0] not in 'EJ': continue
                        prog=[('P',None)]*pre+[('S',None)]+[('C',t) for t in case_t]+list(r)
                        # no jump-only cycles
                        ok=True
                        for i,(k,t) in enumerate(prog):
                            if k=='J':
                                seen=set(); j=i
                                while prog[j][0]=='J':
                                    if j in seen: ok=False; break
                                    seen.add(j); j=prog[j][1]
                                if not ok: break
                        if ok: yield tuple(prog)

def build_s(prog):
    ops=[]
    for i,(k,t) in enumerate(prog):
        if k=='E': ops.append(O(i,'End',[]))
        elif k=='J': ops.append(O(i,'Jump',[t]))
        elif k=='S': ops.append(O(i,'Switch',[C('$S')]))
        elif k=='C': ops.append(O(i,'Case',[i,t]))
        else: ops.append(O(i,'op%d'%i,[]))
    return ops

def check_s(prog):
    ops=[build_s(prog)]
    infos=[SsbRoutineInfo(SsbRoutineType.GENERIC,0)]
    exp=behaviour(ops)
    signal.alarm(20)
    try:
        text,_=ExplorerScriptSsbDecompiler(infos, ops, [], "$PERF", DMC).convert()
    except TO: return 'timeout-decompile', None
    except Exception as ex: return 'raise-decompile %s'%type(ex).__name__, None
    finally: signal.alarm(0)
    try:
        c=ExplorerScriptSsbCompiler("$PERF"); c.compile(text,"/tmp/x.exps")
    except Exception as ex:
        return 'reject %s: %s'%(type(ex).__name__, str(ex)[:80]), text
    act=behaviour(c.routine_ops)
    if exp!=act: return 'behaviour', text
    return ('fallback' if text.startswith('//?: is-ssb-script') else 'ok'), text

if __name__=='__main__':
    maxrest=int(sys.argv[1]); part=int(sys.argv[2]); parts=int(sys.argv[3])
    c=collections.Counter(); bad=[]
    for i,p in enumerate(progs(maxrest)):
        if i%parts!=part: continue
        r,text=check_s(p)
        c[r.split(' ')[0]]+=1
        if r not in ('ok','fallback'): bad.append((p,r,text))
    print(maxrest, dict(c))
    json.dump([[list(map(list,p)),r,t] for p,r,t in bad], open(f'/tmp/probe2/sbad_{maxrest}_{part}.json','w'))
