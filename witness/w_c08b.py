from wlib import *
import tempfile, os
d = tempfile.mkdtemp()
os.makedirs(os.path.join(d, "lib"))
open(os.path.join(d, "lib", "a.exps"), "w").write('macro inner() { i(Position<\'pi\', 1, 2>); }\nmacro outer() { o(); ~inner(); }\n')
main = os.path.join(d, "main.exps")
c = comp('import "./lib/a.exps";\ndef 0 { ~outer(); end; }\n', main); show(c)
for off, m in c.source_map.collect_mappings__macros():
    print(off, m.relpath_included_file, m.macro_name, m.line, m.column, m.called_in, m.return_addr)
for pm in c.source_map.get_position_marks__macros(): print("mark", pm[0], pm[1], pm[2].name)
