"""C04 — every parameter value survives being printed and parsed again (table-level clauses)."""

from __future__ import annotations

import ast
import re
from typing import Any

from ..engine import astq
from ..engine.fstr import template_of, render, holes, Hole
from ..engine.loader import AnalysisError, Func, dotted, norm, walk_no_nested
from ..engine.report import Check, fkey

DT = "explorerscript.ssb_converting.ssb_data_types"
UTILS = "explorerscript.ssb_converting.compiler.utils"
LISTENER = "explorerscript.ssb_script.ssb_converting.compiler.compiler_listener"
CH = "explorerscript.ssb_converting.compiler.compile_handlers"


def replace_chain(ctx: Any, f: Func) -> list[tuple[str, str]] | None:
    """[(old, new), ...] of the .replace(...) chain in the function's single return expression."""
    e = astq.single_return_expr(f.node)
    if e is None:
        return None
    out: list[tuple[str, str]] = []
    cur = e
    while isinstance(cur, ast.Call) and isinstance(cur.func, ast.Attribute) and cur.func.attr == "replace" and len(cur.args) == 2:
        a, b = ctx.fold.try_expr(f.mod, cur.args[0]), ctx.fold.try_expr(f.mod, cur.args[1])
        if not isinstance(a, str) or not isinstance(b, str):
            return None
        out.append((a, b))
        cur = cur.func.value
    return list(reversed(out))


def escape_quotes_pairs(ctx: Any, f: Func) -> dict[str, list[tuple[str, str]]] | None:
    """escape_quotes(string, which_quotes): {'both': pairs when None, 'one': pattern for a given quote}."""
    fn = f.node
    ifs = [n for n in walk_no_nested(fn) if isinstance(n, ast.If) and "is None" in norm(n.test)]
    if len(ifs) != 1:
        return None
    both_ret = next((r.value for s in ifs[0].body for r in ast.walk(s) if isinstance(r, ast.Return)), None)
    rest = [r.value for r in astq.returns_of(fn) if r.value is not both_ret]
    if both_ret is None or len(rest) != 1:
        return None

    def chain(e: ast.AST, subst: dict[str, str]) -> list[tuple[str, str]] | None:
        out = []
        cur = e
        while isinstance(cur, ast.Call) and isinstance(cur.func, ast.Attribute) and cur.func.attr == "replace" and len(cur.args) == 2:
            a = ctx.fold.try_expr(f.mod, cur.args[0], subst)
            b = ctx.fold.try_expr(f.mod, cur.args[1], subst)
            if not isinstance(a, str) or not isinstance(b, str):
                return None
            out.append((a, b))
            cur = cur.func.value
        return list(reversed(out))
    p = astq.params_of(fn)
    both = chain(both_ret, {})
    one_s = chain(rest[0], {p[1]: "'"}) if len(p) > 1 else None
    one_d = chain(rest[0], {p[1]: '"'}) if len(p) > 1 else None
    if both is None or one_s is None or one_d is None:
        return None
    return {"both": both, "'": one_s, '"': one_d}


def quoted_hole_rule(chk: Check, ctx: Any, rule: str, f: Func, e: ast.AST) -> None:
    """Every hole that sits between two equal quote characters is escaped for that quote character."""
    fold = ctx.fold
    t = template_of(e, lambda nm: astq.single_assign_locals(f.node).get(nm.id))
    if t is None:
        chk.unknown(rule, fkey(f, None, "quoted-hole"), f, "print template not recognised", node=e)
        return
    for i, p in enumerate(t):
        if not isinstance(p, Hole) or i == 0 or i == len(t) - 1:
            continue
        before, after = t[i - 1], t[i + 1]
        if not (isinstance(before, str) and isinstance(after, str) and before and after):
            continue
        q = before[-1]
        if q not in "'\"" or after[0] != q:
            continue
        calls = [c for c in ast.walk(p.expr) if isinstance(c, ast.Call) and dotted(c.func) == "escape_quotes"]
        key = fkey(f, None, f"quoted-hole:{i}")
        if not calls:
            chk.violation(rule, key, f, f"`{p.text}` is printed between {q} characters without escape_quotes(): a value containing {q} ends the literal early", node=e)
            continue
        c = calls[0]
        wq = None
        if len(c.args) > 1:
            wq = fold.try_expr(f.mod, c.args[1])
        for k in c.keywords:
            if k.arg == "which_quotes":
                wq = fold.try_expr(f.mod, k.value)
        ok = (wq is None and len(c.args) == 1 and not c.keywords) or wq == q
        chk.decide(rule, key, ok, f,
                   f"`{p.text}` is printed between {q!r} but escaped for {wq!r}: a value containing {q} ends the literal early, so the printed form does not parse back",
                   f"escaped for the quote it is printed in ({q!r})", node=e)


def run(chk: Check, ctx: Any) -> None:
    repo = ctx.repo
    fold = ctx.fold
    g = ctx.grammar_exps
    chk.explanation = (
        "The value space is infinite; this check decides the table-level half of print-then-parse identity. (R1) every replacement the string "
        "printer applies has its inverse in the reader, and the reader's escape lead-in character is itself escaped by the printer. (R2) every "
        "value interpolated between quote characters is escaped for exactly that quote character (strings and position mark names). (R3) the "
        "spellings the numeric printers can produce are tokens of the grammar (INTEGER / DECIMAL), and floats are never printed with str()/repr(). "
        "(R4) every member of the SsbOpParam union has a printer and is constructed by both compilers; containers handed to a parameter object "
        "are fresh per parameter. (R5) INTEGER tokens are converted with base detection, the parts of DECIMAL tokens with base 10 (leading zeros "
        "are legal there). (R6) the multi-line string printer indents every line by the same prefix, which is what the reader's least-indentation "
        "dedent removes. Not decided: value-dependent dedent arithmetic (strings whose own lines all start with blanks, trailing newline) and "
        "fixed-point normalisation of odd spellings."
        " (R7, interpreter-based) printers and readers are evaluated on a table of values built from the character classes they distinguish, in three printing "
        "contexts and several depths."
    )
    chk.rule("C04-R1", "escape tables: printer pair a->b has reader pair b->a; the reader's escape lead-in ('\\\\') is escaped by the printer")
    chk.rule("C04-R2", "a hole printed between quote characters q is passed through the escape for q")
    chk.rule("C04-R3", "printed numerals are INTEGER/DECIMAL tokens; floats are not printed with str()/repr()")
    chk.rule("C04-R4", "every SsbOpParam member has __str__ and is constructed by both compilers; containers given to parameter objects are not reused")
    chk.rule("C04-R5", "INTEGER tokens -> int(text, 0); parts of DECIMAL tokens -> int(text) (base 10)")
    chk.rule("C04-R7", "print -> parse identity with printers and readers interpreted: each value of a table built from the character classes the printers distinguish "
                       "(both quotes, line breaks at either end, blank lines, leading/trailing blanks, both triple-quote sequences, comment openers) is printed as "
                       "operation argument, menu case and message-switch text at several depths, and the printed text is compiled back (grammar parse + interpreted handlers)")
    chk.rule("C04-R6", "multi-line printer: the same indentation prefix on every line, unconditionally")

    dt = repo.mod(DT)
    eq = repo.func(f"{DT}:escape_quotes")
    en = repo.func(f"{DT}:escape_newlines")
    rd = repo.func(f"{UTILS}:singleline_string_literal")
    eqp = escape_quotes_pairs(ctx, eq)
    enp = replace_chain(ctx, en)
    rdp = replace_chain(ctx, rd)
    if eqp is None or enp is None or rdp is None:
        chk.unknown("C04-R1", "escape-tables", eq, "replace chains of escape_quotes / escape_newlines / singleline_string_literal not recognised")
    else:
        printer = {"both-quotes": eqp["both"], "single": eqp["'"], "double": eqp['"'], "newlines": enp}
        inverse = {(b, a) for a, b in rdp}
        for name, pairs in printer.items():
            for a, b in pairs:
                chk.decide("C04-R1", f"printer:{name}:{a!r}->{b!r}", (a, b) in inverse, rd,
                           f"the printer writes {a!r} as {b!r} but the reader has no replacement {b!r} -> {a!r}: the value does not come back",
                           f"reader undoes {b!r} -> {a!r}")
        produced = {b for ps in printer.values() for _a, b in ps}
        for b, a in sorted({(x, y) for x, y in rdp}):
            chk.decide("C04-R1", f"reader:{b!r}->{a!r}", b in produced, rd,
                       f"the reader turns {b!r} into {a!r} but no printer path produces {b!r} from {a!r}", f"{b!r} is produced by the printer")
        leads = {b[0] for b, _a in rdp if len(b) > 1}
        for lead in sorted(leads):
            escaped = any(a == lead for ps in printer.values() for a, _b in ps)
            chk.decide("C04-R1", f"lead-in:{lead!r}", escaped, eq,
                       f"the reader interprets sequences starting with {lead!r} ({sorted(b for b, _a in rdp)}), but the printer never escapes {lead!r} itself: a value "
                       f"that contains such a two-character sequence literally (e.g. backslash followed by n) is printed unchanged and read back as the "
                       "escaped character", f"{lead!r} escaped by the printer")

    # ------------------------------------------------------------------ R2 quoted holes
    def quoted_holes(f: Func, e: ast.AST) -> None:
        quoted_hole_rule(chk, ctx, "C04-R2", f, e)

    def _unused(f: Func, e: ast.AST) -> None:
        t = template_of(e, lambda nm: astq.single_assign_locals(f.node).get(nm.id))
        if t is None:
            return
        for i, p in enumerate(t):
            if not isinstance(p, Hole) or i == 0 or i == len(t) - 1:
                continue
            before, after = t[i - 1], t[i + 1]
            if not (isinstance(before, str) and isinstance(after, str) and before and after):
                continue
            q = before[-1]
            if q not in "'\"" or after[0] != q:
                continue
            # which escape does the hole go through?
            calls = [c for c in ast.walk(p.expr) if isinstance(c, ast.Call) and dotted(c.func) == "escape_quotes"]
            key = fkey(f, None, f"quoted-hole:{i}")
            if not calls:
                chk.violation("C04-R2", key, f, f"`{p.text}` is printed between {q} characters without escape_quotes(): a value containing {q} ends the literal early", node=e)
                continue
            c = calls[0]
            wq = None
            if len(c.args) > 1:
                wq = fold.try_expr(f.mod, c.args[1])
            for k in c.keywords:
                if k.arg == "which_quotes":
                    wq = fold.try_expr(f.mod, k.value)
            ok = wq is None and len(c.args) == 1 and not c.keywords or wq == q
            chk.decide("C04-R2", key, ok, f,
                       f"`{p.text}` is printed between {q!r} but escaped for {wq!r}: a value containing {q} ends the literal early (and {wq} is escaped needlessly)",
                       f"escaped for the quote it is printed in ({q!r})", node=e)

    pm = repo.func(f"{DT}:SsbOpParamPositionMarker.__str__")
    r = astq.single_return_expr(pm.node)
    if r is not None:
        quoted_holes(pm, r)
    rs = repo.func(f"{DT}:repr_string")
    n_q = 0
    for ret in astq.returns_of(rs.node):
        if isinstance(ret.value, ast.JoinedStr):
            n_q += 1
            t = template_of(ret.value)
            hs = holes(t) if t else []
            # f"{q}{escape...(string, which_quotes=q)}{q}": same variable on both sides and in the escape
            if len(hs) == 3 and hs[0].text == hs[2].text:
                calls = [c for c in ast.walk(hs[1].expr) if isinstance(c, ast.Call) and dotted(c.func) == "escape_quotes"]
                wq = None
                if calls:
                    wq = next((norm(k.value) for k in calls[0].keywords if k.arg == "which_quotes"), norm(calls[0].args[1]) if len(calls[0].args) > 1 else None)
                chk.decide("C04-R2", fkey(rs, ret), bool(calls) and wq == hs[0].text, rs,
                           f"single-line strings are delimited by {hs[0].text} but escaped for {wq}", "delimiter and escaped quote are the same variable", node=ret)
                nl = any(isinstance(c, ast.Call) and dotted(c.func) == "escape_newlines" for c in ast.walk(hs[1].expr))
                guarded = any(isinstance(i, ast.If) and "'\\n' not in" in norm(i.test) and any(x is ret for x in ast.walk(i)) for i in walk_no_nested(rs.node))
                chk.decide("C04-R2", fkey(rs, ret, "newline"), nl or guarded, rs,
                           "a string that may contain a newline is printed as a single-line literal without escape_newlines()", "no raw newline in a single-line literal", node=ret)
    chk.floor("C04-R2", "single-line string templates in repr_string", n_q, 2)

    # ------------------------------------------------------------------ R3 numerals
    dec_rx = re.compile("(?:" + g.rule_regex("DECIMAL") + r")\Z")
    int_rx = re.compile("(?:" + g.rule_regex("INTEGER") + r")\Z")
    fp_init = repo.func(f"{DT}:SsbOpParamFixedPoint.__init__")
    n_t = 0
    for a, v, st in astq.self_assigns(fp_init.node):
        if a != "value":
            continue
        t = template_of(v)
        if t is None:
            chk.unknown("C04-R3", fkey(fp_init, st), fp_init, "value template not recognised", node=st)
            continue
        n_t += 1
        for sample in ("12", "0", "-3"):
            text = render(t, lambda h, i: sample if "whole" in h.text else "05")
            chk.decide("C04-R3", fkey(fp_init, st, f"whole={sample}"), bool(dec_rx.match(text)), fp_init,
                       f"the fixed-point spelling `{text}` produced by `{norm(v)}` is not a DECIMAL token of the grammar", f"`{text}` is a DECIMAL", node=st)
    chk.floor("C04-R3", "fixed-point value templates", n_t, 2)
    ff = repo.func(f"{DT}:SsbOpParamFixedPoint.from_float")
    p0 = astq.params_of(ff.node)[0]
    naive = [c for c in walk_no_nested(ff.node) if (isinstance(c, ast.Call) and dotted(c.func) in ("str", "repr") and c.args and norm(c.args[0]) == p0)
             or (isinstance(c, ast.FormattedValue) and norm(c.value) == p0 and c.format_spec is None)]
    direct = False
    for a, v, st in astq.self_assigns(ff.node) + [(norm(n.targets[0]), n.value, n) for n in walk_no_nested(ff.node) if isinstance(n, ast.Assign)
                                                 and isinstance(n.targets[0], ast.Attribute) and n.targets[0].attr == "value"]:
        vi = astq.inline_locals(ff.node, v)
        if isinstance(vi, ast.Call) and dotted(vi.func) in ("str", "repr") and vi.args and norm(vi.args[0]) == p0:
            direct = True
    positional = any(isinstance(c, ast.Call) and dotted(c.func) == "format" and len(c.args) == 2 and fold.try_expr(ff.mod, c.args[1]) in ("f", ".f")
                     for c in walk_no_nested(ff.node)) or any(isinstance(c, ast.FormattedValue) and c.format_spec is not None and "f" in norm(c.format_spec)
                                                              for c in walk_no_nested(ff.node))
    chk.decide("C04-R3", "from_float:notation", False if direct else (True if positional else None), ff,
               "from_float stores str(value): Python prints small and large floats in exponent notation (1e-06), which is not a DECIMAL token, so the "
               "printed parameter cannot be compiled back", "positional notation")
    for prop in ("x_final", "y_final"):
        pf = repo.func(f"{DT}:SsbOpParamPositionMarker.{prop}")
        e = astq.single_return_expr(pf.node)
        t = template_of(e) if e is not None else None
        if t is None:
            chk.unknown("C04-R3", prop, pf, "template not recognised")
            continue
        consts = {fold.try_expr(pf.mod, n.value) for n in walk_no_nested(pf.node) if isinstance(n, ast.Assign) and isinstance(n.value, ast.Constant)}
        for c in sorted(x for x in consts if isinstance(x, str)):
            text = render(t, lambda h, i: "7" if "relative" in h.text else c)
            ok = bool(int_rx.match(text) or dec_rx.match(text))
            chk.decide("C04-R3", f"{prop}:{c!r}", ok, pf, f"the coordinate spelling `{text}` is neither an INTEGER nor a DECIMAL token", f"`{text}` is a position_marker_arg")

    # ------------------------------------------------------------------ R4 exhaustiveness and freshness
    union = dt.assigns.get("SsbOpParam")
    members = []
    if isinstance(union, ast.Subscript):
        els = union.slice.elts if isinstance(union.slice, ast.Tuple) else [union.slice]
        members = [dotted(e) for e in els if dotted(e)]
    chk.floor("C04-R4", "members of the SsbOpParam union", len(members), 6)
    built_exps: set[str] = set()
    built_ssbs: set[str] = set()
    for f in repo.all_funcs():
        tgt = built_exps if f.mod.name.startswith(CH) else built_ssbs if f.mod.name.startswith(LISTENER) else None
        if tgt is None:
            continue
        for c in walk_no_nested(f.node):
            if isinstance(c, ast.Call):
                d = (dotted(c.func) or "").split(".")[0]
                if d in members:
                    tgt.add(d)
                if dotted(c.func) == "exps_int":
                    tgt.add("int")
    for m in members:
        if m != "int":
            c = dt.classes.get(m)
            chk.decide("C04-R4", f"printer:{m}", c is not None and "__str__" in c.methods, dt, f"{m} has no __str__: it is printed as an object repr", "has __str__")
        chk.decide("C04-R4", f"constructed:explorerscript:{m}", m in built_exps, ("explorerscript/ssb_converting/compiler/compile_handlers/atoms", 0),
                   f"no ExplorerScript compile handler constructs {m}: such a parameter cannot be written in source", "constructed by the ExplorerScript compiler")
        chk.decide("C04-R4", f"constructed:ssbscript:{m}", m in built_ssbs, ("explorerscript/ssb_script/ssb_converting/compiler/compiler_listener.py", 0),
                   f"the SsbScript listener never constructs {m}", "constructed by the SsbScript compiler")
    # containers handed to parameter objects must be fresh per parameter
    lcls = repo.cls(f"{LISTENER}.SsbScriptCompilerListener")
    for attr, ctor in (("_collected_lang_string", "SsbOpParamLanguageString"), ("_collected_params", "SsbOperation")):
        rebinding = []
        clears = []
        for mname, m in lcls.methods.items():
            if mname == "__init__":
                continue
            for a, v, st in astq.self_assigns(m):
                if a == attr and isinstance(v, (ast.Dict, ast.List)):
                    rebinding.append((mname, st))
            for c in walk_no_nested(m):
                if isinstance(c, ast.Call) and isinstance(c.func, ast.Attribute) and c.func.attr == "clear" and astq.self_attr(c.func.value) == attr:
                    clears.append((mname, c))
        f0 = Func(lcls.mod, lcls, lcls.methods[clears[0][0]]) if clears else Func(lcls.mod, lcls, lcls.methods["__init__"])
        if clears:
            chk.violation("C04-R4", f"fresh-container:{attr}", f0,
                          f"`{norm(clears[0][1])}` empties the container in place, but the {ctor} objects built earlier keep a reference to it: all parameters "
                          "of one compilation end up with the contents of the last one", node=clears[0][1])
        else:
            chk.decide("C04-R4", f"fresh-container:{attr}", bool(rebinding), f0, f"self.{attr} is never re-bound to a new container between parameters",
                       "re-bound to a new container for every parameter")
    lsh = repo.func(f"{CH}.atoms.lang_string:LangStringCompileHandler.__init__")
    ok = any(a == "language_dict" and isinstance(v, ast.Dict) for a, v, _s in astq.self_assigns(lsh.node))
    chk.decide("C04-R4", "fresh-container:LangStringCompileHandler.language_dict", ok, lsh, "language_dict is not created per handler", "one dict per language string")

    # ------------------------------------------------------------------ R5 literal spellings
    pp = repo.func("explorerscript.common_syntax:parse_position_marker_arg")
    n_dec = 0
    for c in walk_no_nested(pp.node):
        if not isinstance(c, ast.Call) or not c.args:
            continue
        d = dotted(c.func)
        arg = norm(c.args[0])
        if "decimal_parts" in arg or "dec_part" in arg:
            n_dec += 1
            if d == "exps_int" or (d == "int" and len(c.args) == 2):
                chk.violation("C04-R5", fkey(pp, c), pp,
                              f"`{norm(c)[:80]}` converts a part of a DECIMAL token with base detection; DECIMAL allows leading zeros ('08.5'), which int(text, 0) rejects "
                              "(and '010' would not mean ten)", node=c)
            elif d == "int":
                chk.hold("C04-R5", fkey(pp, c), pp, "base 10", node=c)
        if d == "int" and "INTEGER" in arg:
            chk.violation("C04-R5", fkey(pp, c), pp, f"`{norm(c)}` converts an INTEGER token without base detection", node=c)
    chk.floor("C04-R5", "conversions of DECIMAL parts in parse_position_marker_arg", n_dec, 2)
    fs = repo.func(f"{DT}:SsbOpParamFixedPoint.from_str")
    bad = [c for c in walk_no_nested(fs.node) if isinstance(c, ast.Call) and (dotted(c.func) == "exps_int" or (dotted(c.func) == "int" and len(c.args) == 2))]
    chk.decide("C04-R5", "from_str:base10", not bad, fs, f"`{norm(bad[0]) if bad else ''}`: the whole part of a decimal is converted with base detection", "whole part base 10")

    # ------------------------------------------------------------------ R6 multi-line printer
    ml = repo.func(f"{DT}:_repr_multiline_string")
    joins = [c for c in walk_no_nested(ml.node) if isinstance(c, ast.Call) and isinstance(c.func, ast.Attribute) and c.func.attr == "join" and c.args
             and isinstance(c.args[0], (ast.GeneratorExp, ast.ListComp))]
    if len(joins) != 1:
        chk.unknown("C04-R6", "multiline:indent-all-lines", ml, "join over the lines not found")
    else:
        comp = joins[0].args[0]
        gen = comp.generators[0]
        cond = bool(gen.ifs) or isinstance(comp.elt, ast.IfExp) or any(isinstance(x, ast.IfExp) for x in ast.walk(comp.elt))
        uses_line = isinstance(gen.target, ast.Name) and gen.target.id in astq.names_in(comp.elt)
        prefix_first = isinstance(comp.elt, ast.BinOp) and isinstance(comp.elt.op, ast.Add) and norm(comp.elt.right) == norm(gen.target)
        chk.decide("C04-R6", "multiline:indent-all-lines", (not cond) and uses_line and prefix_first, ml,
                   f"`{norm(comp)[:90]}` does not put the same indentation in front of every line (e.g. empty lines are left unindented): the reader removes the "
                   "least indentation found on any line, which is then 0, so every line keeps the decompiler's indentation as part of the string",
                   "every line gets the same prefix", node=joins[0])
        sep = fold.try_expr(ml.mod, joins[0].func.value)  # type: ignore[union-attr]
        chk.decide("C04-R6", "multiline:separator", sep == "\n", ml, f"lines are joined with {sep!r}", "joined with newline")
    rm = repo.func(f"{UTILS}:multiline_string_literal")
    mins = [c for c in walk_no_nested(rm.node) if isinstance(c, ast.Call) and dotted(c.func) == "min"]
    chk.decide("C04-R6", "multiline:reader-min-indent", len(mins) == 1, rm, "the reader does not dedent by the least indentation of the lines", "reader dedents by the least indentation")
    print_parse_rule(chk, ctx, "C04-R7")
    chk.rule("C04-R8", "every op with special syntax x a class table of values for each of its parameter slots (operator codes incl. one outside the table, "
                       "dungeon-mode states 0..3, outside and as constants, variables by name and by number, the performance variable, bit indices): "
                       "decompiled and compiled back with both interpreted, the same operations and parameter values return")
    from .special_values import special_values_rule
    special_values_rule(chk, ctx, "C04-R8")
    chk.rule("C04-R9", "the SsbScript spelling (fallback text): ops with two parameter values of a kind - strings of the value table, language strings, position marks, "
                       "numbers, constants - through the interpreted SsbScript decompiler and compiler; the same values return")
    from .special_values import ssbs_values_rule
    ssbs_values_rule(chk, ctx, "C04-R9")


# --------------------------------------------------------------------------- R7: print -> parse identity, printers and readers interpreted

STRING_VALUES = [
    "plain", "it's", 'say "hi"', "both ' and \"", "line1\nline2", "trail\n", "\nlead", "a\n\nb", "  indented\n    more", " x\n y", "a\n  b", "  a\nb", "a \n b ",
    " lead", "trail ", "  ", "", "C:\\dir", "tab\there", "é✓", "three ''' single", 'three """ double', "both ''' and \"\"\"", "both '''\nand \"\"\"\nlines",
    "x\n'''\ny", "a\n\n", "\n", "\n\n", "a\n   ", "100%", "{brace}", "semi; colon", "// not a comment", "/* nor this */", "a\n// line\nb",
]
# the product of the two feature classes the string printer looks at: which triple-quote sequences occur x how the lines are laid out
# (a seeded change broke only strings that have both a triple quote and lines the dedent rule would change)
_QUOTE_FEATURES = ["", "'''", '"""', "''' " + '"""']
_LAYOUTS = ["{q}x", "a{q}\nb", " a{q}\n b", "a{q}\n", "\n{q}a", "a\n\n{q}b", "  a{q}\n\n  b", " {q}\n", "a\n {q}",
            # every line led by white space that is not a blank (tab, ideographic space, no-break space, form feed): kept, not indentation
            "\ta{q}\n\tb", "\u3000a{q}\n\u3000b", "\xa0a\n\xa0{q}b", " \ta{q}\n \tb", "\x0ca\n\x0c{q}",
            # characters str.splitlines() takes for line ends, inside a line; a carriage return without a line feed
            "a\x0bb{q}\nc\u2028d\x85e", "a\rb{q}\nc"]
for _q in _QUOTE_FEATURES:
    for _l in _LAYOUTS:
        _v = _l.replace("{q}", _q)
        if _v not in STRING_VALUES:
            STRING_VALUES.append(_v)
# a carriage return in front of a line feed: not representable (known finding); kept in the table because before repair 8c6c306 it was
# printed as a multi line literal and silently lost
STRING_VALUES.append("a\r\nb")
MARK_NAMES = ["m", "it's", 'say "hi"', "a\nb", "with, comma", "a > b", ""]


def print_parse_rule(chk: Check, ctx: Any, rule: str, kinds: tuple[str, ...] | None = None) -> None:
    from ..engine.absint import AObj, PyExc, Unsupported
    from ..engine.sta import SpecError, WholeCompiler
    repo = ctx.repo
    wc = WholeCompiler(repo, ctx.fold, ctx.grammar_exps)
    I = wc.I
    fc = repo.find_class
    anchor = repo.func(f"{DT}:repr_string")
    n = 0

    def value_of(p: Any) -> Any:
        if isinstance(p, AObj):
            c = p.cls.name
            a = p.attrs
            if c == "SsbOpParamConstString":
                return ("str", a.get("name"))
            if c == "SsbOpParamConstant":
                return ("const", a.get("name"))
            if c == "SsbOpParamLanguageString":
                return ("lang", tuple(a.get("strings", {}).items()))
            if c == "SsbOpParamFixedPoint":
                return ("fixed", a.get("value"))
            if c == "SsbOpParamPositionMarker":
                return ("pos", a.get("name"), a.get("x_offset"), a.get("y_offset"), a.get("x_relative"), a.get("y_relative"))
            return (c,)
        return ("int", p)

    def pad(d: int) -> str:
        return "    " * d

    def wrap(d: int, stmt: str) -> str:
        """A routine whose statement sits at nesting depth d (depth 1 = directly in the routine), as the decompiler lays it out."""
        out = "def 0 {\n"
        for k in range(1, d):
            out += pad(k) + "forever {\n"
        out += pad(d) + stmt + "\n"
        for k in range(d - 1, 0, -1):
            out += pad(k) + "}\n"
        return out + "}\n"

    def check(kind: str, mk: Any, contexts: list[str], depths: list[int], label: str) -> None:
        nonlocal n
        if kinds is not None and kind not in kinds:
            return
        for cx in contexts:
            for d in depths:
                n += 1
                key = f"roundtrip:{kind}:{label!r}:{cx}:depth{d}"
                try:
                    obj = mk()
                    if isinstance(obj, AObj) and "indent" in obj.attrs:
                        obj.attrs["indent"] = d
                    text = I.str_(obj) if isinstance(obj, AObj) else str(obj)
                    if cx == "arg":
                        prog, pick = wrap(d, f"foo({text});"), (0, 0)
                    elif cx == "menu":
                        prog, pick = wrap(d, f"switch (message_Menu(1)) {{ case menu({text}): x(); }}"), (1, 0)
                    else:
                        prog, pick = wrap(d, f"message_SwitchTalk ($V) {{ case 1: {text} }}"), (1, 1)
                    res = wc.compile(prog, "$PERF")
                    op = res["routine_ops"][0][pick[0]]
                    back = op.attrs["params"][pick[1]]
                    ok = value_of(back) == value_of(obj)
                    chk.decide(rule, key, ok, anchor,
                               f"{kind} {label!r} printed at depth {d} as {cx} is {text!r}; compiling that text gives {value_of(back)!r} instead of {value_of(obj)!r}",
                               "compiles back to the same value")
                except SpecError:
                    chk.violation(rule, key, anchor, f"{kind} {label!r} printed at depth {d} as {cx} is {text!r}, which the grammar does not accept in that place")
                except PyExc as e:
                    chk.violation(rule, key, anchor, f"{kind} {label!r} printed at depth {d} as {cx} is {text!r}; compiling it fails: {e.cls_name}: {e.msg}")
                except (Unsupported, AnalysisError) as e:
                    chk.unknown(rule, key, anchor, f"{kind} {label!r} ({cx}, depth {d}): abstract interpretation left the modelled subset: {e}")

    S = fc("SsbOpParamConstString")
    L = fc("SsbOpParamLanguageString")
    M = fc("SsbOpParamPositionMarker")
    F = fc("SsbOpParamFixedPoint")
    C = fc("SsbOpParamConstant")
    thorough = getattr(ctx, "tier", "quick") == "thorough"
    for v in STRING_VALUES:
        check("string", lambda v=v: I.new(S, v), ["arg"], [0, 1, 2, 3, 4, 6] if thorough else [0, 1, 3], v)
        check("string", lambda v=v: I.new(S, v), ["menu", "text"], [1, 2, 3, 5] if thorough else [2], v)
    for v in STRING_VALUES[:16] + ["a\n\nb", "both '''\nand \"\"\"\nlines"]:
        check("language string", lambda v=v: I.new(L, {"english": v, "german": "zwei\nZeilen", "french": v + "!"}), ["arg", "text"], [1, 3], v)
    for nm in MARK_NAMES:
        for xo, yo, xr, yr in ((0, 0, 1, 2), (2, 0, 10, 0), (0, 2, 0, 33), (2, 2, 255, 255), (2, 0, -3, 12), (0, 2, -1, -7)):
            check("position mark", lambda nm=nm, xo=xo, yo=yo, xr=xr, yr=yr: I.new(M, nm, xo, yo, xr, yr), ["arg"], [1], f"{nm}@{xr}+{xo},{yr}+{yo}")
    for whole, fract in ((0, "5"), (1, "50"), (12, "0"), (-3, "25"), (0, "0"), (7, "007"), (-120, "5")):
        check("fixed point", lambda whole=whole, fract=fract: I.new(F, whole, fract), ["arg"], [1], f"{whole}.{fract}")
    check("fixed point", lambda: I.new(F, ClassValOf(repo, "SsbOpParamFixedPoint", "NegativeZero"), "5"), ["arg"], [1], "-0.5")
    for i in (0, 1, -1, 255, -32768, 65535, 1000000):
        check("integer", lambda i=i: i, ["arg"], [1], str(i))
    for c in ("CONST_X", "$VAR", "$S_1", "lower_case"):
        check("constant", lambda c=c: I.new(C, c), ["arg"], [1], c)
    chk.floor(rule, "parameter values printed and compiled back abstractly", n, 250 if kinds is None else 20)


def ClassValOf(repo: Any, outer: str, inner: str) -> Any:
    from ..engine.absint import ClassVal, Interp
    from ..engine.consts import Folder
    I = Interp(repo, Folder(repo))
    return I.getattr_(ClassVal(repo.find_class(outer)), inner)
