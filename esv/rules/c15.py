"""C15 — the compile CLI prints what the decompile CLI (and the docs) expect."""

from __future__ import annotations

import ast
from typing import Any

from ..engine import astq
from ..engine.docs import json_blocks, walk_json, section
from ..engine.loader import AnalysisError, Func, dotted, norm, walk_no_nested
from ..engine.report import Check, fkey

CMOD = "explorerscript.cli.compile"
DMOD = "explorerscript.cli.decompile"
DOC = "docs/cli_api_usage.rst"


def _isinstance_chain(fn: ast.FunctionDef, var: str) -> list[tuple[str, ast.If]]:
    out = []
    for n in walk_no_nested(fn):
        if isinstance(n, ast.If) and isinstance(n.test, ast.Call) and dotted(n.test.func) == "isinstance" and len(n.test.args) == 2 \
                and norm(n.test.args[0]) == var:
            t = dotted(n.test.args[1])
            if t:
                out.append((t, n))
    return out


def _eq_chain(fn: ast.FunctionDef, subject: str) -> list[tuple[Any, ast.If]]:
    """if <subject> == CONST chains."""
    out = []
    for n in walk_no_nested(fn):
        if isinstance(n, ast.If) and isinstance(n.test, ast.Compare) and len(n.test.ops) == 1 and isinstance(n.test.ops[0], ast.Eq) \
                and norm(n.test.left) == subject:
            out.append((n.test.comparators[0], n))
    return out


def _dict_displays(body: list[ast.stmt]) -> list[ast.Dict]:
    out = []
    for st in body:
        for n in ast.walk(st):
            if isinstance(n, ast.Dict):
                out.append(n)
    return out


def _const_keys(d: ast.Dict) -> dict[str, ast.expr]:
    return {k.value: v for k, v in zip(d.keys, d.values) if isinstance(k, ast.Constant) and isinstance(k.value, str)}


def run(chk: Check, ctx: Any) -> None:
    repo = ctx.repo
    fold = ctx.fold
    chk.explanation = (
        "Decides writer/reader/document agreement of the CLI JSON: parameter type tags and value fields written by build_ops equal "
        "those read by read_ops and those listed in docs/cli_api_usage.rst (R1), routine type tags and keys likewise (R1), jump "
        "parameters are translated through a mapping whose values are consecutive 1-based list positions over all routines and do not "
        "depend on internal offsets (R2), coroutine names are registered under the routine index (R3), JSON leaf types shown in the "
        "docs are accepted by the reader's operations (R4), and no error path exits with status 0 or swallows an exception (R5). "
        "End-to-end behaviour of the decompiled program inherits C02."
        " (R6, interpreter-based) build_routines_json and read_routines are evaluated on compiled programs; jump parameters must be 1-based positions and the d"
        "ocument must read back to the same routine set and behaviour."
    )
    chk.rule("C15-R6", "build_routines_json and read_routines interpreted on compiled programs (all parameter kinds, all routine kinds, alias routines, dropped jumps, jumps between routines): the structure is JSON, every jump parameter is the 1-based position of its target counted across routines, the decompile side reads back the same routine table, names and behaviour, and the program it prints behaves like the source")
    chk.rule("C15-R1", "type tags / keys written by cli.compile = read by cli.decompile = documented in docs/cli_api_usage.rst; each tag maps to the same parameter class and field on both sides")
    chk.rule("C15-R2", "jump parameters printed by the compile CLI are list positions: mapped through a table keyed by op.offset whose values count "
                       "the printed ops 1-based across all routines (values independent of internal offsets); the param at the jump index of "
                       "OPS_WITH_JUMP_TO_MEM_OFFSET goes through the table")
    chk.rule("C15-R3", "the id under which read_routines registers a routine's name is that routine's index")
    chk.rule("C15-R4", "every JSON leaf type the docs show for an argument is accepted by the operations the reader applies to it")
    chk.rule("C15-R5", "explicit exit(n) calls in the CLI modules have n != 0; no handler in a __main__ block swallows an exception")

    cm = repo.mod(CMOD)
    dm = repo.mod(DMOD)
    build_ops = repo.func(f"{CMOD}:build_ops")
    read_ops = repo.func(f"{DMOD}:read_ops")
    build_routines = repo.func(f"{CMOD}:build_routines_json")
    read_routines = repo.func(f"{DMOD}:read_routines")
    doc_text = repo.read_text(DOC)

    # ---------------------------------------------------------------- R1 parameter tags
    # writer: isinstance(param, Cls) -> {"type": TAG, "value": EXPR}
    loopvar = None
    for n in walk_no_nested(build_ops.node):
        if isinstance(n, ast.For) and isinstance(n.iter, ast.Attribute) and n.iter.attr == "params" or (
                isinstance(n, ast.For) and isinstance(n.iter, ast.Call) and dotted(n.iter.func) == "enumerate"
                and n.iter.args and isinstance(n.iter.args[0], ast.Attribute) and n.iter.args[0].attr == "params"):
            t = n.target
            loopvar = t.id if isinstance(t, ast.Name) else t.elts[-1].id if isinstance(t, ast.Tuple) else None  # type: ignore[union-attr]
    if loopvar is None:
        raise AnalysisError("build_ops: loop over op.params not found")
    writer: dict[str, tuple[str, ast.expr, ast.If]] = {}  # class -> (tag, value expr, node)
    for cname, ifn in _isinstance_chain(build_ops.node, loopvar):
        if cname == "int":
            continue
        for d in _dict_displays(ifn.body):
            ks = _const_keys(d)
            if "type" in ks and "value" in ks:
                tag = fold.try_expr(cm, ks["type"])
                if isinstance(tag, str):
                    writer[cname] = (tag, ks["value"], ifn)
    # reader: param["type"] == TAG -> Cls(...)
    rparam = None
    for n in walk_no_nested(read_ops.node):
        if isinstance(n, ast.For) and isinstance(n.iter, ast.Subscript) and isinstance(n.iter.slice, ast.Constant) \
                and n.iter.slice.value == "params" and isinstance(n.target, ast.Name):
            rparam = n.target.id
    if rparam is None:
        raise AnalysisError("read_ops: loop over op['params'] not found")
    reader: dict[str, tuple[str, ast.Call, ast.If]] = {}  # tag -> (class, constructing call, node)
    for tag_e, ifn in _eq_chain(read_ops.node, f"{rparam}['type']"):
        tag = fold.try_expr(dm, tag_e)
        if not isinstance(tag, str):
            continue
        for c in (c for st in ifn.body for c in ast.walk(st) if isinstance(c, ast.Call)):
            d = dotted(c.func)
            if d and d.split(".")[0].startswith("SsbOpParam"):
                reader[tag] = (d.split(".")[0], c, ifn)
                break
    chk.floor("C15-R1", "parameter tags written", len(writer), 5)
    chk.floor("C15-R1", "parameter tags read", len(reader), 5)
    doc_tags: dict[str, Any] = {}
    for _line, js in json_blocks(repo, DOC):
        for v in walk_json(js):
            if isinstance(v, dict) and set(v.keys()) == {"type", "value"} and isinstance(v["type"], str):
                doc_tags.setdefault(v["type"], []).append(v["value"])
    for cname, (tag, vexpr, ifn) in sorted(writer.items()):
        key = f"param-tag:{cname}"
        if tag not in reader:
            chk.violation("C15-R1", key, build_ops, f"compile CLI writes type tag {tag!r} for {cname}, which the decompile CLI does not read "
                          f"(it reads {sorted(reader)})", node=ifn)
            continue
        rc, rcall, _rif = reader[tag]
        chk.decide("C15-R1", key, rc == cname, read_ops, f"tag {tag!r} is written for {cname} but read back as {rc}",
                   f"{tag!r} <-> {cname}", node=rcall)
        chk.decide("C15-R1", key + ":documented", tag in doc_tags, (DOC, 0),
                   f"type tag {tag!r} written by the compile CLI is not documented in {DOC} (documented: {sorted(doc_tags)})", "documented")
        # value field: writer reads param.<attr>; reader passes param["value"] to the ctor parameter stored in the same attr
        wattrs = {n.attr for n in ast.walk(vexpr) if isinstance(n, ast.Attribute) and isinstance(n.value, ast.Name) and n.value.id == loopvar}
        pcls = repo.find_class(cname)
        p2a = astq.ctor_param_attrs(repo, pcls)
        if dotted(rcall.func) == cname and isinstance(vexpr, ast.Attribute):
            init = repo.find_method(pcls, "__init__")
            bound = astq.bind_call_args(rcall, astq.params_of(init.node)) if init else {}
            fed = [p2a.get(p) for p, e in bound.items() if norm(e) == f"{rparam}['value']"]
            if fed:
                chk.decide("C15-R1", key + ":field", fed[0] in wattrs, read_ops,
                           f"{tag}: the writer prints param.{sorted(wattrs)} but the reader stores the value into .{fed[0]}",
                           f"value <-> .{fed[0]}", node=rcall)
    for tag in sorted(set(reader) - {t for t, _v, _n in writer.values()}):
        chk.unknown("C15-R1", f"param-tag-read-only:{tag}", read_ops, f"decompile CLI reads tag {tag!r} that the compile CLI never writes")
    for tag in sorted(set(doc_tags) - set(reader)):
        chk.violation("C15-R1", f"param-tag-doc:{tag}", read_ops, f"{DOC} documents argument type {tag!r}, which the decompile CLI rejects")

    # position mark sub-keys
    if "SsbOpParamPositionMarker" in writer:
        tag, vexpr, ifn = writer["SsbOpParamPositionMarker"]
        wkeys = _const_keys(vexpr) if isinstance(vexpr, ast.Dict) else {}
        rc, rcall, rif = reader.get(tag, (None, None, None))  # type: ignore[assignment]
        rkeys = set()
        if rif is not None:
            for st in rif.body:
                for kp in astq.find_key_paths(st, rparam):
                    if len(kp) == 2 and kp[0] == "value":
                        rkeys.add(kp[1])
        dkeys = set()
        for v in doc_tags.get(tag, []):
            if isinstance(v, dict):
                dkeys |= set(v.keys())
        chk.decide("C15-R1", "position-mark:keys", set(wkeys) == rkeys and (not dkeys or dkeys == rkeys), read_ops,
                   f"position mark keys written {sorted(wkeys)} / read {sorted(rkeys)} / documented {sorted(dkeys)} differ", "keys agree")
        # axis: "x" <- param.x_final ; reader: x_relative, x_offset = parse(param["value"]["x"])
        for axis in ("x", "y"):
            we = wkeys.get(axis)
            ok_w = we is not None and isinstance(we, ast.Attribute) and we.attr == f"{axis}_final"
            chk.decide("C15-R1", f"position-mark:{axis}:writer", ok_w if we is not None else None, build_ops,
                       f"key {axis!r} is written from {norm(we) if we is not None else None}, not from param.{axis}_final", "axis agrees", node=ifn)
        if rif is not None and rcall is not None:
            pcls = repo.find_class("SsbOpParamPositionMarker")
            init = repo.find_method(pcls, "__init__")
            assert init is not None
            bound = astq.bind_call_args(rcall, astq.params_of(init.node))
            unpack: dict[str, tuple[str, int]] = {}  # var -> (axis key, tuple index)
            for st in rif.body:
                if isinstance(st, ast.Assign) and isinstance(st.targets[0], ast.Tuple) and isinstance(st.value, ast.Call) and st.value.args:
                    kps = astq.find_key_paths(st.value.args[0], rparam)
                    if len(kps) == 1 and len(kps[0]) == 2:
                        for i, el in enumerate(st.targets[0].elts):
                            if isinstance(el, ast.Name):
                                unpack[el.id] = (kps[0][1], i)
            pfn = repo.func(f"{DMOD}:parse_pos_mark_arg")
            # role of the tuple positions: element 1 is the half-tile offset if it is a small constant in every return
            rets = [r.value for r in astq.returns_of(pfn.node) if isinstance(r.value, ast.Tuple) and len(r.value.elts) == 2]
            off_idx = None
            if rets and all(isinstance(r.elts[1], ast.Constant) for r in rets):
                off_idx = 1
            elif rets and all(isinstance(r.elts[0], ast.Constant) for r in rets):
                off_idx = 0
            for p in ("x_offset", "y_offset", "x_relative", "y_relative"):
                e = bound.get(p)
                key = f"position-mark:reader:{p}"
                if not isinstance(e, ast.Name) or e.id not in unpack or off_idx is None:
                    chk.unknown("C15-R1", key, read_ops, f"argument {norm(e) if e is not None else None} for {p} not traced to parse_pos_mark_arg")
                    continue
                axis, idx = unpack[e.id]
                role = "offset" if idx == off_idx else "relative"
                ok = axis == p[0] and role == p.split("_")[1]
                chk.decide("C15-R1", key, ok, read_ops,
                           f"{p} receives the {role} part of key {axis!r}", f"{p} <- {role} of {axis!r}", node=rcall)

    # ---------------------------------------------------------------- R1 routine tags
    rvar = None
    for n in walk_no_nested(build_routines.node):
        if isinstance(n, ast.For) and isinstance(n.iter, ast.Call) and dotted(n.iter.func) == "zip" and isinstance(n.target, ast.Tuple):
            rvar = n.target.elts[0].id if isinstance(n.target.elts[0], ast.Name) else None
    wr: dict[str, tuple[str, set[str], ast.If]] = {}
    if rvar:
        for c_e, ifn in _eq_chain(build_routines.node, f"{rvar}.type"):
            d = dotted(c_e)
            if d and d.startswith("SsbRoutineType."):
                for dd in _dict_displays(ifn.body):
                    ks = _const_keys(dd)
                    if "type" in ks and "ops" in ks:
                        tag = fold.try_expr(cm, ks["type"])
                        if isinstance(tag, str):
                            wr[d.split(".")[1]] = (tag, set(ks), ifn)
                        break
    rr: dict[str, tuple[str, set[str], ast.If]] = {}
    rloop = next((n for n in walk_no_nested(read_routines.node) if isinstance(n, ast.For) and isinstance(n.target, ast.Name)), None)
    if rloop is None:
        raise AnalysisError("read_routines: loop over routines not found")
    rv = rloop.target.id  # type: ignore[union-attr]
    # required keys are tested by presence: the compile CLI prints `"ops": []` for an alias routine, ids/indices may be 0
    n_req = 0
    for owner in (read_routines, repo.func(f"{DMOD}:read_ops") if _has_func(repo, f"{DMOD}:read_ops") else read_routines):
        seen_fn = set()
        if id(owner.node) in seen_fn:
            continue
        seen_fn.add(id(owner.node))
        for n in walk_no_nested(owner.node):
            if not (isinstance(n, ast.If) and any(isinstance(x, ast.Raise) for b in n.body for x in ast.walk(b))):
                continue
            t = norm(n.test)
            import re as _re
            keys_tested = set(_re.findall(r"\.get\('([^']+)'", t))
            if keys_tested and keys_tested <= {"type"}:
                n_req += 1
                chk.hold("C15-R1", fkey(owner, n, "required-key"), owner, "a type tag is never empty: truthiness and presence agree", node=n)
            elif ".get(" in t and " not in " not in t and (t.startswith("not ") or " or not " in t):
                n_req += 1
                chk.violation("C15-R1", fkey(owner, n, "required-key"), owner,
                              f"`{t}` rejects a document whose field is present but empty or zero (the compile CLI prints `\"ops\": []` for a routine that is an "
                              "alias of the previous one): the compile CLI's own output is refused", node=n)
            elif " not in " in t:
                n_req += 1
                chk.hold("C15-R1", fkey(owner, n, "required-key"), owner, "presence test", node=n)
    chk.floor("C15-R1", "required-key tests in the JSON reader", n_req, 3)
    for tag_e, ifn in _eq_chain(read_routines.node, f"{rv}['type']"):
        tag = fold.try_expr(dm, tag_e)
        member = None
        keys = set()
        for st in ifn.body:
            for n in ast.walk(st):
                if isinstance(n, ast.Call) and dotted(n.func) == "SsbRoutineInfo" and n.args:
                    dmem = dotted(n.args[0])
                    if dmem and dmem.startswith("SsbRoutineType."):
                        member = dmem.split(".")[1]
            for kp in astq.find_key_paths(st, rv):
                keys.add(kp[0])
        if isinstance(tag, str) and member:
            rr[tag] = (member, keys | {"type"}, ifn)
    chk.floor("C15-R1", "routine types written", len(wr), 5)
    chk.floor("C15-R1", "routine types read", len(rr), 5)
    doc_rt = set()
    sec = section(doc_text, "Routine types")
    for line in sec.splitlines():
        s = line.strip()
        if s.startswith("- ") and ":" in s:
            doc_rt.add(s[2:].split(":")[0].strip())
    for member, (tag, keys, ifn) in sorted(wr.items()):
        key = f"routine-type:{member}"
        if tag not in rr:
            chk.violation("C15-R1", key, build_routines, f"routine tag {tag!r} written for {member} is not read by the decompile CLI", node=ifn)
            continue
        rmember, rkeys, _n = rr[tag]
        chk.decide("C15-R1", key, rmember == member, read_routines, f"routine tag {tag!r} is written for {member} but read as {rmember}",
                   f"{tag!r} <-> {member}")
        chk.decide("C15-R1", key + ":keys", rkeys <= keys | {"ops"} and keys <= rkeys | {"ops", "type"}, read_routines,
                   f"{tag}: keys written {sorted(keys)} vs keys read {sorted(rkeys)}", "keys agree")
        if doc_rt:
            chk.decide("C15-R1", key + ":documented", tag in doc_rt, (DOC, 0), f"routine type {tag!r} not documented ({sorted(doc_rt)})", "documented")
    for tag in sorted(doc_rt - set(rr)):
        chk.violation("C15-R1", f"routine-type-doc:{tag}", read_routines, f"{DOC} documents routine type {tag!r}, which the decompile CLI rejects")

    # ---------------------------------------------------------------- R2 offset renumbering
    _r2(chk, ctx, build_ops, build_routines, loopvar)

    # ---------------------------------------------------------------- R3 coroutine ids
    appended_once: dict[str, bool] = {}
    branches = [ifn for _t, ifn in _eq_chain(read_routines.node, f"{rv}['type']")]
    lists = {n.func.value.id for b in branches for st in b.body for n in ast.walk(st)
             if isinstance(n, ast.Call) and isinstance(n.func, ast.Attribute) and n.func.attr == "append" and isinstance(n.func.value, ast.Name)}
    for L in lists:
        appended_once[L] = all(sum(1 for st in b.body for n in ast.walk(st) if isinstance(n, ast.Call) and isinstance(n.func, ast.Attribute)
                                   and n.func.attr == "append" and isinstance(n.func.value, ast.Name) and n.func.value.id == L) == 1
                               for b in branches)
    enum_idx = None
    if isinstance(rloop.iter, ast.Call) and dotted(rloop.iter.func) == "enumerate":  # type: ignore[union-attr]
        pass
    n_sites = 0
    for b in branches:
        for st in b.body:
            for n in ast.walk(st):
                if isinstance(n, ast.Call) and dotted(n.func) == "SsbCoroutine" and n.args:
                    n_sites += 1
                    ide = n.args[0]
                    key = fkey(read_routines, n)
                    tagtxt = norm(b.test)
                    if isinstance(ide, ast.Constant) or (isinstance(ide, ast.UnaryOp) and isinstance(ide.operand, ast.Constant)):
                        chk.violation("C15-R3", key, read_routines,
                                      f"routine name registered under the constant id {norm(ide)} ({tagtxt}): the decompiler looks names up by "
                                      "routine index, so coroutines are reported as unknown", node=n)
                    elif isinstance(ide, ast.Call) and dotted(ide.func) == "len" and isinstance(ide.args[0], ast.Name):
                        L = ide.args[0].id
                        # the list must grow by one per routine, and the len() must be taken before this routine's append
                        grows = appended_once.get(L)
                        before = True
                        for st2 in b.body:
                            if st2 is st:
                                break
                            if any(isinstance(m, ast.Call) and isinstance(m.func, ast.Attribute) and m.func.attr == "append"
                                   and isinstance(m.func.value, ast.Name) and m.func.value.id == L for m in ast.walk(st2)):
                                before = False
                        same_stmt_self = isinstance(st, ast.Expr) and isinstance(st.value, ast.Call) and isinstance(st.value.func, ast.Attribute) \
                            and isinstance(st.value.func.value, ast.Name) and st.value.func.value.id == L
                        if grows is False:
                            chk.violation("C15-R3", key, read_routines,
                                          f"id len({L}) is not the routine index: {L} does not grow by exactly one entry per routine "
                                          "(only some routine types append to it)", node=n)
                        elif grows and (before or same_stmt_self):
                            chk.hold("C15-R3", key, read_routines, f"id = len({L}) taken before this routine is appended = routine index", node=n)
                        elif grows and not before:
                            chk.violation("C15-R3", key, read_routines, f"id len({L}) is taken after this routine was appended: off by one", node=n)
                        else:
                            chk.unknown("C15-R3", key, read_routines, f"growth of {L} not established", node=n)
                    else:
                        chk.unknown("C15-R3", key, read_routines, f"id expression {norm(ide)} not recognised", node=n)
    chk.floor("C15-R3", "SsbCoroutine registration sites", n_sites, 1)

    # ---------------------------------------------------------------- R4 docs leaf types
    pfn = repo.func(f"{DMOD}:parse_pos_mark_arg")
    doc_types = set()
    for tag, vals in doc_tags.items():
        if tag == "POSITION_MARK":
            for v in vals:
                if isinstance(v, dict):
                    for axis in ("x", "y"):
                        if axis in v:
                            doc_types.add(type(v[axis]).__name__)
    arg = astq.params_of(pfn.node)[0]
    raw_str_ops = [n for n in walk_no_nested(pfn.node) if isinstance(n, ast.Call) and isinstance(n.func, ast.Attribute)
                   and isinstance(n.func.value, ast.Name) and n.func.value.id == arg
                   and n.func.attr in ("split", "strip", "rstrip", "lstrip", "partition", "startswith", "endswith", "replace")]
    non_str = doc_types - {"str"}
    if non_str and raw_str_ops:
        chk.violation("C15-R4", "parse_pos_mark_arg:types", pfn,
                      f"{DOC} shows position mark coordinates as {sorted(doc_types)}, but parse_pos_mark_arg applies `{norm(raw_str_ops[0])}` "
                      "to the raw value: numbers raise AttributeError", node=raw_str_ops[0])
    else:
        chk.hold("C15-R4", "parse_pos_mark_arg:types", pfn, f"documented coordinate types {sorted(doc_types)} are converted before string operations")

    # sign symmetry of a numeric half-tile test: x - int(x) truncates toward zero, so it is -0.5 for negative halves
    for n in walk_no_nested(pfn.node):
        if isinstance(n, ast.Compare) and len(n.ops) == 1 and isinstance(n.ops[0], (ast.Eq, ast.NotEq)):
            for side, other in ((n.left, n.comparators[0]), (n.comparators[0], n.left)):
                side_i = astq.inline_locals(pfn.node, side)
                if isinstance(side_i, ast.BinOp) and isinstance(side_i.op, ast.Sub) and isinstance(side_i.right, ast.Call) \
                        and dotted(side_i.right.func) in ("int", "math.trunc") and side_i.right.args \
                        and norm(side_i.right.args[0]) == norm(side_i.left) and isinstance(other, ast.Constant) \
                        and isinstance(other.value, (int, float)) and other.value > 0:
                    chk.violation("C15-R4", "parse_pos_mark_arg:negative-half", pfn,
                                  f"`{norm(n)}`: int() truncates toward zero, so the fractional part of a negative half-tile coordinate "
                                  "(e.g. -10.5, which the compile CLI prints) is -0.5 and the documented value is rejected", node=n)

    # ---------------------------------------------------------------- R5 exit status
    n_exit = 0
    for m in (cm, dm, repo.mod("explorerscript.cli")):
        for n in ast.walk(m.tree):
            if isinstance(n, ast.Call) and dotted(n.func) in ("exit", "sys.exit", "quit", "os._exit"):
                n_exit += 1
                a = n.args[0] if n.args else None
                v = fold.try_expr(m, a) if a is not None else 0
                chk.decide("C15-R5", f"{m.name}:exit:{norm(n)}", (v not in (0, None, False)) if (a is None or v is not None) else None, m,
                           f"`{norm(n)}` on an error path ends the process with status 0", "non-zero exit", node=n)
        main_if = next((n for n in m.tree.body if isinstance(n, ast.If) and "__main__" in norm(n.test)), None)
        if main_if is not None:
            for n in ast.walk(main_if):
                if isinstance(n, ast.ExceptHandler):
                    reraises = any(isinstance(x, ast.Raise) for x in ast.walk(n)) or any(
                        isinstance(x, ast.Call) and dotted(x.func) in ("exit", "sys.exit") for x in ast.walk(n))
                    chk.decide("C15-R5", f"{m.name}:handler:{norm(n.type) if n.type else 'bare'}", reraises, m,
                               "an exception handler in the __main__ block swallows the error: the process exits with status 0 on failure",
                               "handler re-raises or exits non-zero", node=n)
    chk.floor("C15-R5", "explicit exit() calls", n_exit, 5)
    from .cli_roundtrip import cli_roundtrip_rule
    cli_roundtrip_rule(chk, ctx, "C15-R6")
    chk.rule("C15-R7", "both command-line programs run as programs (their __main__ blocks interpreted on a virtual file system with a working directory and an "
                       "argument vector): the documented call with relative lookup paths given twice; the printed document has the documented structure and its "
                       "jump parameters are 1-based positions; compile | decompile | compile behaves like the source; a hand-written document with every documented "
                       "routine and argument type and the four dungeon mode states; exit status 0 exactly on success, errors on standard error")
    from .cli_main import cli_main_rule
    cli_main_rule(chk, ctx, "C15-R7")



def _r2(chk: Check, ctx: Any, build_ops: Func, build_routines: Func, loopvar: str) -> None:
    repo = ctx.repo
    cm = build_ops.mod
    # (a) the int branch of build_ops passes jump params through a lookup
    int_ifs = [ifn for c, ifn in _isinstance_chain(build_ops.node, loopvar) if c == "int"]
    if not int_ifs:
        raise AnalysisError("build_ops: int branch not found")
    ifn = int_ifs[0]
    lookups = []
    for st in ifn.body:
        for n in ast.walk(st):
            if isinstance(n, ast.Call) and isinstance(n.func, ast.Attribute) and n.func.attr == "get" and n.args and norm(n.args[0]) == loopvar:
                lookups.append((n.func.value, n))
            if isinstance(n, ast.Subscript) and isinstance(n.ctx, ast.Load) and norm(n.slice) == loopvar and not isinstance(n.value, ast.Constant):
                lookups.append((n.value, n))
    uses_table = any("OPS_WITH_JUMP_TO_MEM_OFFSET" in norm(n) for n in walk_no_nested(build_ops.node))
    if not lookups:
        chk.violation("C15-R2", "build_ops:jump-params", build_ops,
                      "integer parameters are printed as they are: jump targets keep the compiler's internal offsets although the JSON "
                      "addresses ops by their list position (wrong after any removed op)", node=ifn)
        return
    table_e = lookups[0][0]
    chk.decide("C15-R2", "build_ops:jump-params", uses_table or None, build_ops,
               "parameters are translated without consulting OPS_WITH_JUMP_TO_MEM_OFFSET", "jump parameter translated through a table", node=lookups[0][1])
    # the translation is applied at the table index of the opcode
    idx_ok = None
    for n in walk_no_nested(build_ops.node):
        if isinstance(n, ast.Assign) and "OPS_WITH_JUMP_TO_MEM_OFFSET" in norm(n.value) and isinstance(n.targets[0], ast.Name):
            jvar = n.targets[0].id
            conds = [c for c in ast.walk(ifn) if isinstance(c, ast.Compare) and jvar in astq.names_in(c)]
            if conds:
                c0 = conds[0]
                idx_ok = isinstance(c0.ops[0], ast.Eq) and len(c0.comparators) == 1
                if not idx_ok:
                    chk.violation("C15-R2", "build_ops:jump-index", build_ops,
                                  f"translation is applied under `{norm(c0)}`, not exactly at the opcode's jump parameter index", node=c0)
    if idx_ok:
        chk.hold("C15-R2", "build_ops:jump-index", build_ops, "translated exactly at the jump parameter index of the opcode")
    elif idx_ok is None:
        chk.unknown("C15-R2", "build_ops:jump-index", build_ops, "condition selecting the jump parameter not recognised")
    # (b) where does the table come from: parameter of build_ops <- argument at the call sites in build_routines_json
    tname = table_e.id if isinstance(table_e, ast.Name) else None
    ps = astq.params_of(build_ops.node)
    if tname is None or tname not in ps:
        chk.unknown("C15-R2", "mapping:source", build_ops, f"translation table {norm(table_e)} is not a parameter of build_ops")
        return
    pidx = ps.index(tname)
    calls = [c for c in walk_no_nested(build_routines.node) if isinstance(c, ast.Call) and dotted(c.func) == "build_ops"]
    if not calls:
        chk.unknown("C15-R2", "mapping:source", build_routines, "no call of build_ops in build_routines_json")
        return
    for c in calls:
        bound = astq.bind_call_args(c, ps)
        if tname not in bound:
            chk.violation("C15-R2", fkey(build_routines, c), build_routines, "build_ops is called without the offset table: jump targets are not translated", node=c)
            continue
        e = astq.inline_locals(build_routines.node, bound[tname])
        if not (isinstance(e, ast.Call) and dotted(e.func)):
            chk.unknown("C15-R2", fkey(build_routines, c), build_routines, f"offset table argument {norm(e)} not traced to a builder call", node=c)
            continue
        r = repo.resolve(cm, dotted(e.func) or "")
        if not r or r[0] != "func":
            chk.unknown("C15-R2", fkey(build_routines, c), build_routines, f"builder {norm(e.func)} not resolved", node=c)
            continue
        mf: Func = r[1]  # type: ignore[assignment]
        # the builder must see all routines: its argument is build_routines_json's routine_ops parameter
        all_rt = astq.params_of(build_routines.node)[-1]
        arg_ok = bool(e.args) and norm(e.args[0]) == all_rt
        chk.decide("C15-R2", "mapping:all-routines", arg_ok, build_routines,
                   f"the offset table is built from {norm(e.args[0]) if e.args else '?'}, not from all routines ({all_rt}): positions restart per routine",
                   "table built from all routines", node=c)
        _mapping_builder(chk, mf)
        break


def _mapping_builder(chk: Check, mf: Func) -> None:
    fn = mf.node
    stores = [n for n in walk_no_nested(fn) if isinstance(n, ast.Assign) and isinstance(n.targets[0], ast.Subscript)
              and isinstance(n.targets[0].value, ast.Name)]
    stores = [s for s in stores if isinstance(s.targets[0].slice, ast.Attribute) and s.targets[0].slice.attr == "offset"]  # type: ignore[union-attr]
    if len(stores) != 1:
        chk.unknown("C15-R2", "mapping:builder", mf, "table fill `m[op.offset] = ...` not found exactly once")
        return
    st = stores[0]
    m = st.targets[0].value.id  # type: ignore[union-attr]
    val = astq.inline_locals(fn, st.value, keep=(m,))
    # values must not depend on internal offsets
    taint = [n for n in ast.walk(val) if isinstance(n, ast.Attribute) and n.attr == "offset"]
    # also through loop-carried variables assigned from .offset
    carried = {t.id for n in walk_no_nested(fn) if isinstance(n, (ast.Assign, ast.AugAssign))
               for t in ([n.target] if isinstance(n, ast.AugAssign) else n.targets) if isinstance(t, ast.Name)
               and any(isinstance(x, ast.Attribute) and x.attr == "offset" for x in ast.walk(n.value))}
    tainted_vars = carried & astq.names_in(val)
    if taint or tainted_vars:
        chk.violation("C15-R2", "mapping:values", mf,
                      f"the new index `{norm(st.value)}` depends on the compiler's internal offsets "
                      f"({'via ' + ', '.join(sorted(tainted_vars)) if tainted_vars else 'op.offset'}): positions are shifted by every gap in front of them",
                      node=st)
        return
    # recognised counting idioms
    txt = norm(val)
    if txt == f"len({m}) + 1":
        chk.hold("C15-R2", "mapping:values", mf, "index = number of ops seen so far + 1 (1-based, across routines)", node=st)
        return
    if txt == f"len({m})":
        chk.violation("C15-R2", "mapping:values", mf, "indices start at 0; the documented indices (and the decompile CLI's counter) start at 1", node=st)
        return
    if isinstance(val, ast.Name):
        cvar = val.id
        incs = [n for n in walk_no_nested(fn) if isinstance(n, ast.AugAssign) and isinstance(n.target, ast.Name) and n.target.id == cvar]
        inits = [n for n in walk_no_nested(fn) if isinstance(n, ast.Assign) and any(isinstance(t, ast.Name) and t.id == cvar for t in n.targets)]
        if len(incs) == 1 and len(inits) == 1 and isinstance(incs[0].op, ast.Add) and isinstance(incs[0].value, ast.Constant) \
                and incs[0].value.value == 1 and isinstance(inits[0].value, ast.Constant):
            # init must be outside every loop; increment in the innermost loop
            loops = [n for n in walk_no_nested(fn) if isinstance(n, ast.For)]
            init_in_loop = any(inits[0] in list(ast.walk(l)) for l in loops)
            inc_first = incs[0].lineno < st.lineno
            start = inits[0].value.value + (1 if inc_first else 0)
            if init_in_loop:
                chk.violation("C15-R2", "mapping:values", mf, f"the counter {cvar} is reset inside the loop over routines: positions restart per routine", node=inits[0])
            elif start != 1:
                chk.violation("C15-R2", "mapping:values", mf, f"indices start at {start}; the documented indices start at 1", node=st)
            else:
                chk.hold("C15-R2", "mapping:values", mf, "running counter, 1-based, across routines", node=st)
            return
    chk.unknown("C15-R2", "mapping:values", mf, f"index expression {txt} is not a recognised counting idiom", node=st)


def _has_func(repo: Any, spec: str) -> bool:
    try:
        repo.func(spec)
        return True
    except Exception:
        return False
