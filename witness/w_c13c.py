from wlib import *
import itertools, random, logging
logging.disable(logging.CRITICAL)
random.seed(7)
def ifb(i):
    hdr = random.choice(["$V == %d" % i, "debug", "not edit", "$V == %d || $W[1]" % i, "scn($S) > [1, 2]"])
    neg = random.choice(["", "not "])
    s = "if %s(%s) { a%d(); }" % (neg, hdr, i)
    for k in range(random.randint(0, 2)):
        s += " elseif ($X == %d) { e%d_%d(); }" % (k, i, k)
    if random.random() < 0.5: s += " else { b%d(); }" % i
    return s
def swb(i):
    n = random.randint(1, 3)
    s = "switch (%s) { " % random.choice(["$W", "random(3)", "sector()", "scn($S)[0]"])
    for k in range(n):
        if random.random() < 0.3: s += "case %d: " % (10 + k)
        s += "case %d: c%d_%d(); break; " % (k, i, k)
    if random.random() < 0.6: s += "default: d%d(); break; " % i
    return s + "}"
bad = {}
for t in range(600):
    parts = []
    for i in range(random.randint(1, 5)):
        parts.append(random.choice([ifb, swb, lambda i: "x%d();" % i, lambda i: "$A = %d;" % i])(i))
    src = "def 0 { " + " ".join(parts) + " end; }"
    try:
        c = comp(src)
        txt, sm = decomp(c)
    except Exception as e:
        bad.setdefault("EXC " + type(e).__name__, []).append(src); continue
    if "is-ssb-script" in txt: bad.setdefault("fallback", []).append(src)
    elif "jump @" in txt: bad.setdefault("jump", []).append(src)
for k, v in bad.items():
    print(k, len(v))
    for s in sorted(v, key=len)[:3]: print("   ", s)
