"""REAL code: results of compile()/convert() run in several threads at once vs. run alone; and in one process after other inputs."""
import random, sys, threading, collections, logging, warnings
warnings.filterwarnings("ignore"); logging.disable(logging.CRITICAL)
sys.path.insert(0,'/verif/witness')
sys.setswitchinterval(1e-5)
from oplevel_probe import DMC
import random_programs as randprog
from explorerscript.ssb_converting.ssb_compiler import ExplorerScriptSsbCompiler
from explorerscript.ssb_converting.ssb_decompiler import ExplorerScriptSsbDecompiler
def gen(seed):
    g=randprog.G(random.Random(seed)); r=random.Random(seed)
    return "\n".join(g.routine(i) for i in range(r.randint(1,2)))
progs=[]
seed=int(sys.argv[1])
while len(progs)<int(sys.argv[2]):
    src=gen(seed); seed+=1
    try:
        c=ExplorerScriptSsbCompiler("$PERF"); c.compile(src,"/x.exps")
        if sum(len(r) for r in c.routine_ops)<=50: progs.append(src)
    except Exception: pass
def job(src):
    c=ExplorerScriptSsbCompiler("$PERF"); c.compile(src,"/x.exps")
    ops=[[(o.offset,o.op_code.name,[str(p) for p in o.params]) for o in r] for r in c.routine_ops]
    text,sm=ExplorerScriptSsbDecompiler(c.routine_infos,c.routine_ops,[],"$PERF",DMC).convert()
    return ops,text,sm.serialize(),c.source_map.serialize()
alone=[job(p) for p in progs]
again=[job(p) for p in reversed(progs)][::-1]
print("sequential repeat (other history) equal:", alone==again)
res=[None]*len(progs); errs=[]
def worker(idx):
    for i in idx:
        try: res[i]=job(progs[i])
        except Exception as ex: errs.append((i,repr(ex)))
T=8
ths=[threading.Thread(target=worker,args=([i for i in range(len(progs)) if i%T==k],)) for k in range(T)]
[t.start() for t in ths]; [t.join() for t in ths]
diff=[i for i in range(len(progs)) if res[i]!=alone[i]]
print("threads:",len(progs),"programs, errors",len(errs),"differences",len(diff))
if diff: 
    i=diff[0]; print(progs[i]); print(alone[i][1][:300]); print(res[i][1][:300] if res[i] else None)
if errs: print(errs[:3])
