import random, sys, collections, logging, warnings, re
warnings.filterwarnings("ignore"); logging.disable(logging.CRITICAL)
sys.path.insert(0,'/verif/witness')
from explorerscript.ssb_converting.ssb_compiler import ExplorerScriptSsbCompiler
import random_programs as randprog, macro_probe as macroprobe
TOK=re.compile(r"\s+|[A-Za-z_$@§~][\w]*|\d+\.\d+|\d+|'(?:\\.|[^'\\])*'|\"(?:\\.|[^\"\\])*\"|==|<=|>=|!=|\|\||&<<|[-+*/]=|.", re.S)
FILL=[" ","\n","\t","  \n  ","/* c */","/**/","/* * / **/","// line\n","/* multi\nline */"," \\\n "]
def ops(src):
    c=ExplorerScriptSsbCompiler("$PERF",[]); c.compile(src,"/nonexistent/a.exps")
    return [[(o.offset,o.op_code.name,[repr(p) if isinstance(p,int) else str(type(p).__name__)+str(p) for p in o.params]) for o in r] for r in c.routine_ops], [(i.type,i.linked_to,i.linked_to_name) for i in c.routine_infos], c.named_coroutines
c=collections.Counter(); shown=0
for seed in range(int(sys.argv[1]),int(sys.argv[2])):
    r=random.Random(seed)
    if r.random()<0.6:
        g=randprog.G(random.Random(seed)); src="\n".join(g.routine(i) for i in range(r.randint(1,2)))
    else:
        g=macroprobe.Gen(seed); g.make(); src=g.with_macros()
    try: a=ops(src)
    except Exception: c['base-rejected']+=1; continue
    toks=[t for t in TOK.findall(src)]
    out=[]
    for t in toks:
        if t.isspace():
            out.append(r.choice(FILL) if r.random()<0.5 else t)
            continue
        # alternative spellings
        if t.startswith('§') and r.random()<0.5: t='@'+t[1:]
        elif re.fullmatch(r"\d+",t) and r.random()<0.5:
            v=int(t); t=r.choice([hex(v),bin(v),oct(v),str(v)]) if v>0 else t
        out.append(t)
        if r.random()<0.15: out.append(r.choice(FILL))
    text="".join(out)
    if r.random()<0.3: text=r.choice(FILL)+text+r.choice(["","// end","/* open"])
    try:
        b=ops(text)
    except Exception as ex:
        c['respelling-rejected']+=1
        if shown<4: shown+=1; print('REJECT',seed,type(ex).__name__,str(ex)[:100]); print(text[:400])
        continue
    if a==b: c['same']+=1
    else:
        c['DIFF']+=1
        if shown<4: shown+=1; print('DIFF',seed); print(src[:300]); print(text[:400])
print(dict(c))
