"""Hand-written variants for the checker self-test (see runner.py).  Each edit is (relative path, old text, new text)."""

from __future__ import annotations

import re
from pathlib import Path
from typing import Any

CH = "explorerscript/ssb_converting/compiler/compile_handlers"
DEC = "explorerscript/ssb_converting/decompiler"

MUTANTS: list[dict[str, Any]] = []
TWINS: list[dict[str, Any]] = []


def _shift_lines(root: Path) -> str | None:
    """Every module gets two comment lines after its licence header: all line numbers move."""
    for p in (root / "explorerscript").rglob("*.py"):
        if "antlr" in p.parts:
            continue
        s = p.read_text(encoding="utf-8")
        if "from __future__ import annotations\n" in s:
            s = s.replace("from __future__ import annotations\n", "from __future__ import annotations\n\n# moved\n# lines\n", 1)
        else:
            s = "# moved\n# lines\n" + s
        p.write_text(s, encoding="utf-8")
    return None


def _messages(root: Path) -> str | None:
    """Reword user-facing error messages (no behaviour a property mentions)."""
    n = 0
    for p in (root / "explorerscript").rglob("*.py"):
        if "antlr" in p.parts:
            continue
        s = p.read_text(encoding="utf-8")
        s2 = re.sub(r'_\("([A-Z][^"{}]*)\."\)', lambda m: f'_("{m.group(1)}!")', s)
        if s2 != s:
            n += 1
            p.write_text(s2, encoding="utf-8")
    return None if n else "no message found"


TWINS += [
    {"id": "twin-line-shift", "what": "two comment lines added to every module (all line numbers move)", "transform": _shift_lines},
    {"id": "twin-messages", "what": "error message texts reworded", "transform": _messages},
]
