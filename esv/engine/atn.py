"""The tables of the generated lexers and parsers (ANTLR 4.13 serialized ATN, version 4), read from the .py files with `ast`,
and their comparison with the grammar files.

Every lexer and parser rule is a regular expression over an alphabet (code points and EOF; token types and rule references).  The
ATN of a rule and the rule as written in the .g4 file are both turned into finite automata and compared for language equality by a
breadth-first search over pairs of subset states; the first difference is returned as a witness word.  Lexer rules are compared with
the rules they refer to (fragments) inlined on both sides; parser rules treat a rule reference as one symbol.
Not compared: ANTLR's decision numbering and prediction, and greediness beyond the number of non-greedy loops per rule.
"""

from __future__ import annotations

import ast
from dataclasses import dataclass, field
from typing import Any

from . import rx
from .loader import AnalysisError, Repo

# state types / transition types of the serialization
RULE_STOP, LOOP_END = 7, 12
BLOCK_START_TYPES = {3, 4, 5}
EPSILON, RANGE, RULE, PREDICATE, ATOM, ACTION, SET, NOT_SET, WILDCARD, PRECEDENCE = 1, 2, 3, 4, 5, 6, 7, 8, 9, 10
MAXCP = 0x10FFFF
EOF = "<EOF>"


@dataclass
class Atn:
    grammar_type: int  # 0 lexer, 1 parser
    max_token_type: int
    states: list[tuple[int, int] | None]  # (type, rule index)
    non_greedy: set[int]
    precedence: set[int]
    rule_start: list[int]
    rule_token_type: list[int]
    rule_stop: dict[int, int]
    mode_start: list[int]
    sets: list[tuple[list[tuple[int, int]], bool]]
    edges: dict[int, list[tuple[int, int, int, int, int]]]  # src -> [(trg, type, a1, a2, a3)]
    lexer_actions: list[tuple[int, int, int]]
    rule_names: list[str] = field(default_factory=list)
    symbolic: list[str] = field(default_factory=list)
    literal: list[str] = field(default_factory=list)
    raw: list[int] = field(default_factory=list)


def _list_of(tree: ast.Module, name: str) -> list[Any] | None:
    for n in ast.walk(tree):
        if isinstance(n, ast.Assign) and len(n.targets) == 1 and isinstance(n.targets[0], ast.Name) and n.targets[0].id == name and isinstance(n.value, ast.List):
            return [ast.literal_eval(e) for e in n.value.elts]
    return None


def read_atn(repo: Repo, module: str) -> Atn:
    path = repo.root / (module.replace(".", "/") + ".py")
    if not path.exists():
        raise AnalysisError(f"generated module {module} not found")
    tree = ast.parse(path.read_text(encoding="utf-8"))
    node = None
    for n in tree.body:
        if isinstance(n, ast.FunctionDef) and n.name == "serializedATN":
            node = n
    if node is None:
        raise AnalysisError(f"{module}: serializedATN() not found")
    ret = [s for s in node.body if isinstance(s, ast.Return)]
    if len(ret) != 1 or not isinstance(ret[0].value, ast.List):
        raise AnalysisError(f"{module}: serializedATN() does not return a list display")
    data = [ast.literal_eval(e) for e in ret[0].value.elts]
    pos = 0

    def rd() -> int:
        nonlocal pos
        if pos >= len(data):
            raise AnalysisError(f"{module}: serialized ATN ends early")
        v = data[pos]
        pos += 1
        return int(v)
    if rd() != 4:
        raise AnalysisError(f"{module}: serialized ATN is not version 4")
    gtype, maxtt = rd(), rd()
    states: list[tuple[int, int] | None] = []
    for _ in range(rd()):
        st = rd()
        if st == 0:
            states.append(None)
            continue
        ri = rd()
        if st == LOOP_END or st in BLOCK_START_TYPES:
            rd()
        states.append((st, ri))
    non_greedy = {rd() for _ in range(rd())}
    prec = {rd() for _ in range(rd())}
    rule_start, rule_tt = [], []
    for _ in range(rd()):
        rule_start.append(rd())
        rule_tt.append(rd() if gtype == 0 else 0)
    modes = [rd() for _ in range(rd())]
    sets = []
    for _ in range(rd()):
        n = rd()
        has_eof = rd() != 0
        sets.append(([(rd(), rd()) for _ in range(n)], has_eof))
    edges: dict[int, list[tuple[int, int, int, int, int]]] = {}
    for _ in range(rd()):
        src, trg, tt, a1, a2, a3 = rd(), rd(), rd(), rd(), rd(), rd()
        edges.setdefault(src, []).append((trg, tt, a1, a2, a3))
    for _ in range(rd()):
        rd()  # decision states
    actions = []
    if gtype == 0:
        for _ in range(rd()):
            actions.append((rd(), rd(), rd()))
    if pos != len(data):
        raise AnalysisError(f"{module}: {len(data) - pos} numbers left over after the serialized ATN")
    stop = {s[1]: i for i, s in enumerate(states) if s is not None and s[0] == RULE_STOP}
    a = Atn(gtype, maxtt, states, non_greedy, prec, rule_start, rule_tt, stop, modes, sets, edges, actions, raw=data)
    a.rule_names = _list_of(tree, "ruleNames") or []
    a.symbolic = _list_of(tree, "symbolicNames") or []
    a.literal = _list_of(tree, "literalNames") or []
    if len(a.rule_names) != len(rule_start):
        raise AnalysisError(f"{module}: {len(a.rule_names)} rule names for {len(rule_start)} rules")
    return a


def read_interp_atn(repo: Repo, rel_path: str) -> list[int]:
    text = (repo.root / rel_path).read_text(encoding="utf-8")
    i = text.rfind("\natn:\n")
    if i < 0:
        raise AnalysisError(f"{rel_path}: no atn section")
    body = text[i + 6:].strip()
    return [int(x) for x in body.strip("[]").split(",") if x.strip()]


# ---------------------------------------------------------------------------------------------------------------------- automata
@dataclass
class Nfa:
    n: int = 0
    eps: dict[int, set[int]] = field(default_factory=dict)
    sym: list[tuple[int, Any, int]] = field(default_factory=list)  # (src, label, dst); label: rx.CharSet | EOF | frozenset of names
    start: int = 0
    accept: int = 0

    def new(self) -> int:
        self.n += 1
        return self.n - 1

    def e(self, a: int, b: int) -> None:
        self.eps.setdefault(a, set()).add(b)


def token_name(a: Atn, t: int) -> str:
    if t == -1:
        return EOF
    if 0 <= t < len(a.symbolic) and a.symbolic[t] != "<INVALID>":
        return str(a.symbolic[t])
    if 0 <= t < len(a.literal) and a.literal[t] != "<INVALID>":
        return str(a.literal[t])
    return f"<type {t}>"


def atn_rule_nfa(a: Atn, rule: int, depth: int = 0) -> Nfa:
    """The automaton of one rule.  Lexer: referenced rules inlined.  Parser: a rule reference is the symbol `rule:<name>`."""
    if depth > 12:
        raise AnalysisError("lexer rules refer to each other recursively")
    nfa = Nfa()
    ids: dict[int, int] = {}

    def sid(s: int) -> int:
        if s not in ids:
            ids[s] = nfa.new()
        return ids[s]
    nfa.start = sid(a.rule_start[rule])
    nfa.accept = sid(a.rule_stop[rule])
    todo = [a.rule_start[rule]]
    seen = set()
    lexer = a.grammar_type == 0
    all_tokens = frozenset(token_name(a, t) for t in range(1, a.max_token_type + 1))
    while todo:
        s = todo.pop()
        if s in seen or s == a.rule_stop[rule]:
            continue
        seen.add(s)
        for trg, tt, a1, a2, a3 in a.edges.get(s, []):
            if tt in (EPSILON, ACTION):
                nfa.e(sid(s), sid(trg))
                todo.append(trg)
            elif tt == RULE:
                # serialization: a1 = start state of the called rule, a2 = its rule index, a3 = precedence, trg = the state to continue in
                callee, follow_state = a2, trg
                if lexer:
                    sub = atn_rule_nfa(a, callee, depth + 1)
                    off = nfa.n
                    nfa.n += sub.n
                    for k, v in sub.eps.items():
                        nfa.eps.setdefault(k + off, set()).update(x + off for x in v)
                    nfa.sym.extend((x + off, lab, y + off) for x, lab, y in sub.sym)
                    nfa.e(sid(s), sub.start + off)
                    nfa.e(sub.accept + off, sid(follow_state))
                else:
                    nfa.sym.append((sid(s), frozenset({"rule:" + a.rule_names[callee]}), sid(follow_state)))
                todo.append(follow_state)
            elif tt in (ATOM, RANGE, SET, NOT_SET, WILDCARD):
                if lexer:
                    has_eof = False
                    if tt == ATOM:
                        cs, has_eof = (rx.CharSet(), True) if a3 != 0 else (rx.CharSet([(a1, a1)]), False)
                    elif tt == RANGE:
                        cs = rx.CharSet([(0 if a3 != 0 else a1, a2)])
                        has_eof = a3 != 0
                    elif tt == WILDCARD:
                        cs = rx.CharSet.all()
                    else:
                        iv, has_eof = a.sets[a1]
                        cs = rx.CharSet(iv)
                        if tt == NOT_SET:
                            cs, has_eof = cs.complement(), False
                    if not cs.is_empty():
                        nfa.sym.append((sid(s), cs, sid(trg)))
                    if has_eof:
                        nfa.sym.append((sid(s), EOF, sid(trg)))
                else:
                    if tt == ATOM:
                        names = frozenset({token_name(a, -1 if a3 != 0 else a1)})
                    elif tt == RANGE:
                        names = frozenset(token_name(a, t) for t in range(a1, a2 + 1))
                    elif tt == WILDCARD:
                        names = all_tokens
                    else:
                        iv, has_eof = a.sets[a1]
                        names = frozenset(token_name(a, t) for lo, hi in iv for t in range(lo, hi + 1)) | (frozenset({EOF}) if has_eof else frozenset())
                        if tt == NOT_SET:
                            names = all_tokens - names
                    nfa.sym.append((sid(s), names, sid(trg)))
                todo.append(trg)
            else:
                raise AnalysisError(f"rule {a.rule_names[rule]}: transition type {tt} (predicate/precedence) is not modelled")
    return nfa


def _charset_of_class(body: str, negated: bool) -> rx.CharSet:
    tree = rx.parse(f"[{body}]")
    cs = rx._single_set(*list(tree)[0], 0)
    if cs is None:
        raise AnalysisError(f"character class [{body}] not understood")
    return cs.complement() if negated else cs


def g4_rule_nfa(g: Any, name: str, depth: int = 0) -> Nfa:
    if depth > 12:
        raise AnalysisError("lexer rules refer to each other recursively")
    rule = g.rules[name]
    lexer = rule.is_lexer
    nfa = Nfa()

    def alts(seqs: list[Any], s: int, t: int) -> None:
        for q in seqs:
            cur = nfa.new()
            nfa.e(s, cur)
            for el in q.elems:
                nxt = nfa.new()
                elem(el, cur, nxt)
                cur = nxt
            nfa.e(cur, t)

    def once(el: Any, s: int, t: int) -> None:
        k = el.kind
        if k == "lit":
            if lexer:
                if el.negated:
                    if len(el.value) != 1:
                        raise AnalysisError("negated multi-character literal")
                    nfa.sym.append((s, rx.CharSet.of(el.value).complement(), t))
                    return
                cur = s
                for i, ch in enumerate(el.value):
                    nx = t if i == len(el.value) - 1 else nfa.new()
                    nfa.sym.append((cur, rx.CharSet.of(ch), nx))
                    cur = nx
                if not el.value:
                    nfa.e(s, t)
            else:
                nfa.sym.append((s, frozenset({g.literal_token(el.value)}), t))
        elif k == "set":
            nfa.sym.append((s, _charset_of_class(el.value, el.negated), t))
        elif k == "any":
            nfa.sym.append((s, rx.CharSet.all() if lexer else frozenset({"<any token>"}), t))
        elif k == "eof":
            nfa.sym.append((s, EOF if lexer else frozenset({EOF}), t))
        elif k == "tok":
            if lexer:
                if el.negated:
                    raise AnalysisError("negated rule reference in a lexer rule")
                sub = g4_rule_nfa(g, el.value, depth + 1)
                off = nfa.n
                nfa.n += sub.n
                for a, v in sub.eps.items():
                    nfa.eps.setdefault(a + off, set()).update(x + off for x in v)
                nfa.sym.extend((x + off, lab, y + off) for x, lab, y in sub.sym)
                nfa.e(s, sub.start + off)
                nfa.e(sub.accept + off, t)
            else:
                if el.negated:
                    raise AnalysisError("negated token in a parser rule")
                nfa.sym.append((s, frozenset({el.value}), t))
        elif k == "ref":
            nfa.sym.append((s, frozenset({"rule:" + el.value}), t))
        elif k == "group":
            if el.negated:
                raise AnalysisError("negated group")
            alts(el.value, s, t)
        else:
            raise AnalysisError(f"element kind {k}")

    def elem(el: Any, s: int, t: int) -> None:
        suf = el.suffix.rstrip("?") if el.suffix not in ("?", "??") else "?"
        if el.suffix in ("", ):
            once(el, s, t)
        elif suf == "?":
            once(el, s, t)
            nfa.e(s, t)
        elif suf in ("*", "+"):
            a, b = nfa.new(), nfa.new()
            nfa.e(s, a)
            once(el, a, b)
            nfa.e(b, a)
            nfa.e(b, t)
            if suf == "*":
                nfa.e(s, t)
        else:
            raise AnalysisError(f"suffix {el.suffix}")
    nfa.start = nfa.new()
    nfa.accept = nfa.new()
    alts(rule.alts, nfa.start, nfa.accept)
    return nfa


def _closure(n: Nfa, ss: frozenset[int]) -> frozenset[int]:
    out = set(ss)
    todo = list(ss)
    while todo:
        s = todo.pop()
        for t in n.eps.get(s, ()):
            if t not in out:
                out.add(t)
                todo.append(t)
    return frozenset(out)


def difference(a: Nfa, b: Nfa) -> str | None:
    """None if both automata accept the same words, else a shortest word (as text) accepted by exactly one of them."""
    charsets = [lab for n in (a, b) for _s, lab, _t in n.sym if isinstance(lab, rx.CharSet)]
    names: set[str] = set()
    for n in (a, b):
        for _s, lab, _t in n.sym:
            if isinstance(lab, frozenset):
                names |= lab
            elif lab == EOF:
                names.add(EOF)
    atoms: list[Any] = sorted(names)
    if charsets:
        cuts = {0, MAXCP + 1}
        for cs in charsets:
            for lo, hi in cs.iv:
                cuts.add(lo)
                cuts.add(hi + 1)
        cl = sorted(cuts)
        atoms += [(lo, hi - 1) for lo, hi in zip(cl, cl[1:])]

    def has(lab: Any, atom: Any) -> bool:
        if isinstance(atom, tuple):
            return isinstance(lab, rx.CharSet) and any(lo <= atom[0] and atom[1] <= hi for lo, hi in lab.iv)
        if isinstance(lab, frozenset):
            return atom in lab
        return lab == atom

    def step(n: Nfa, ss: frozenset[int], atom: Any) -> frozenset[int]:
        return _closure(n, frozenset(t for s, lab, t in n.sym if s in ss and has(lab, atom)))
    sa, sb = _closure(a, frozenset({a.start})), _closure(b, frozenset({b.start}))
    seen = {(sa, sb)}
    queue: list[tuple[frozenset[int], frozenset[int], tuple[Any, ...]]] = [(sa, sb, ())]
    while queue:
        xa, xb, word = queue.pop(0)
        if (a.accept in xa) != (b.accept in xb):
            def show(at: Any) -> str:
                if isinstance(at, tuple):
                    c = chr(at[0])
                    return c if c.isprintable() and c != " " else f"\\u{at[0]:04x}"
                return f" {at} "
            side = "the generated tables" if a.accept in xa else "the grammar file"
            return f"`{''.join(show(x) for x in word).strip() or '<empty>'}` is accepted only by {side}"
        if len(seen) > 200000:
            raise AnalysisError("automata too large to compare")
        for atom in atoms:
            ya, yb = step(a, xa, atom), step(b, xb, atom)
            if not ya and not yb:
                continue
            if (ya, yb) not in seen:
                seen.add((ya, yb))
                queue.append((ya, yb, word + (atom,)))
    return None


def agreement(repo: Repo, g: Any, gname: str) -> tuple[list[str], dict[str, int]]:
    """Problems (empty if the generated lexer and parser of `gname` are the tables of the grammar `g`) and what was compared."""
    problems: list[str] = []
    facts = {"rules_compared": 0, "lexer_states": 0, "parser_states": 0}
    lex = read_atn(repo, f"explorerscript.antlr.{gname}Lexer")
    par = read_atn(repo, f"explorerscript.antlr.{gname}Parser")
    facts["lexer_states"], facts["parser_states"] = len(lex.states), len(par.states)
    if lex.grammar_type != 0 or par.grammar_type != 1:
        problems.append("grammar type of a serialized ATN is not lexer/parser")
    lexer_rules = [f"T__{i}" for i in range(len(g.implicit))] + [n for n in g.order if g.rules[n].is_lexer]
    if lex.rule_names != lexer_rules:
        problems.append(f"{gname}Lexer.py lists the rules {[n for n in lex.rule_names if n not in lexer_rules][:4]} / the grammar {[n for n in lexer_rules if n not in lex.rule_names][:4]} (or in another order)")
    if par.rule_names != g.parser_rules:
        problems.append(f"{gname}Parser.py lists other parser rules than the grammar, or in another order")
    # (the Python target writes the lexer's symbolicNames without the gaps of unnamed tokens; the parser's table is indexed by token type)
    if [n for n in lex.symbolic if n != "<INVALID>"] != [n for n in par.symbolic if n != "<INVALID>"] or [n for n in lex.literal if n != "<INVALID>"] != [n for n in par.literal if n != "<INVALID>"]:
        problems.append("lexer and parser were generated with different token vocabularies")
    # token types: T__n and the non-fragment rules are numbered in order
    tt = 0
    for i, nm in enumerate(lex.rule_names):
        frag = (not nm.startswith("T__")) and nm in g.rules and g.rules[nm].fragment
        if frag:
            if lex.rule_token_type[i] != 0:
                problems.append(f"fragment {nm} has token type {lex.rule_token_type[i]}")
            continue
        tt += 1
        if lex.rule_token_type[i] != tt:
            problems.append(f"lexer rule {nm} has token type {lex.rule_token_type[i]}, expected {tt}")
            break
        want = nm if not nm.startswith("T__") else "<INVALID>"
        if tt < len(par.symbolic) and par.symbolic[tt] != want:
            problems.append(f"token type {tt} is named {par.symbolic[tt]}, the grammar's rule is {nm}")
    # every rule: same language
    for a, names in ((lex, lex.rule_names), (par, par.rule_names)):
        for i, nm in enumerate(names):
            try:
                if nm.startswith("T__"):
                    idx = int(nm[3:])
                    if idx >= len(g.implicit):
                        problems.append(f"{nm} has no literal in the grammar")
                        continue
                    lit = g.implicit[idx]
                    ref = Nfa()
                    cur = ref.start = ref.new()
                    for ch in lit:
                        nx = ref.new()
                        ref.sym.append((cur, rx.CharSet.of(ch), nx))
                        cur = nx
                    ref.accept = cur
                    d = difference(atn_rule_nfa(a, i), ref)
                else:
                    if nm not in g.rules:
                        continue
                    d = difference(atn_rule_nfa(a, i), g4_rule_nfa(g, nm))
                facts["rules_compared"] += 1
                if d:
                    problems.append(f"rule {nm}: {d}")
            except AnalysisError as ex:
                problems.append(f"rule {nm}: not compared ({ex})")
    # non-greedy loops and lexer commands per rule
    def lazy_count(alts: list[Any]) -> int:
        n = 0
        for s in alts:
            for e in s.elems:
                if e.suffix in ("*?", "+?", "??"):
                    n += 1
                if e.kind == "group":
                    n += lazy_count(e.value)
        return n
    for a in (lex, par):
        per_rule: dict[int, int] = {}
        for s in a.non_greedy:
            st = a.states[s]
            if st is not None:
                per_rule[st[1]] = per_rule.get(st[1], 0) + 1
        for i, nm in enumerate(a.rule_names):
            if nm in g.rules and per_rule.get(i, 0) != lazy_count(g.rules[nm].alts):
                problems.append(f"rule {nm}: {per_rule.get(i, 0)} non-greedy loops in the generated tables, {lazy_count(g.rules[nm].alts)} in the grammar")
    acting = set()
    for s, es in lex.edges.items():
        for trg, t, a1, a2, a3 in es:
            if t == ACTION and lex.states[s] is not None:
                acting.add(lex.rule_names[lex.states[s][1]])  # type: ignore[index]
    commanded = {n for n in g.order if g.rules[n].is_lexer and any(s.command for s in g.rules[n].alts)}
    if acting != commanded:
        problems.append(f"lexer commands: the generated lexer has them on {sorted(acting)}, the grammar on {sorted(commanded)}")
    if any(act[0] != 6 for act in lex.lexer_actions):
        problems.append(f"lexer actions other than skip: {lex.lexer_actions}")
    # the .interp files carry the same tables
    for rel, a in ((f"explorerscript/antlr/{gname}Lexer.interp", lex), (f"explorerscript/antlr/{gname}.interp", par)):
        try:
            if read_interp_atn(repo, rel) != a.raw:
                problems.append(f"{rel} holds other tables than the generated .py file")
        except (OSError, ValueError, AnalysisError) as ex:
            problems.append(f"{rel}: {ex}")
    return problems, facts
