"""C03: the compilation result is a closed, uniquely addressed op list - compile() interpreted on program families and macro projects."""

from __future__ import annotations

from typing import Any

from ..engine.absint import AObj, PyExc, Unsupported
from ..engine.loader import AnalysisError
from ..engine.report import Check

SPECIAL = "explorerscript.ssb_converting.ssb_special_ops"


def closed_oplist_rule(chk: Check, ctx: Any, rule: str, thorough: bool) -> None:
    from ..engine.pipeline import Pipeline
    from ..engine.sta import show
    from ..spec.skeletons import all_skeletons, gen_extra
    from .macros import INLINE_CASES, MAP_MAIN, MAP_PROJECT
    repo = ctx.repo
    fold = ctx.fold
    P = Pipeline(repo, fold)
    jidx = fold.const(f"{SPECIAL}:OPS_WITH_JUMP_TO_MEM_OFFSET")
    anchor = repo.func("explorerscript.ssb_converting.ssb_compiler:ExplorerScriptSsbCompiler.compile")
    cases: list[tuple[str, str, dict[str, str], list[str], str]] = []
    for i, (fam, prog) in enumerate(list(all_skeletons(False)) + list(gen_extra(False))):
        if thorough or i % 9 == 0 or fam in ("labels", "cross-routine", "calls", "same-shape-routines"):
            cases.append((fam, " ".join(f"def {k} {{ {show(r)} }}" for k, r in enumerate(prog)), {}, [], "exps"))
    for name, files, main, _inl, lookup in INLINE_CASES:
        cases.append(("macros:" + name, main, files, lookup, "exps"))
    cases.append(("macros:map-project", MAP_MAIN, MAP_PROJECT, [], "exps"))
    cases.append(("routine-kinds", "def 0 { a(); }\ndef 1 for actor 3 { alias previous; }\ndef 2 for object OBJ { b(); if ($V == 1) { jump @x; } c(); §x; }\ndef 3 { alias previous; }", {}, [], "exps"))
    cases.append(("routine-id-gaps", "def 0 { a(); }\ndef 3 for actor 2 { b(); if ($V == 1) { jump @x; } c(); §x; }\ndef 7 { alias previous; }\ndef 8 { d(); }", {}, [], "exps"))
    cases.append(("first-routine-id-not-zero", "def 2 { a(); while ($V < 2) { b(); } }\ndef 5 { c(); }", {}, [], "exps"))
    cases.append(("ssbscript-routine-id-gaps", "def 1 {\n    a(1);\n    @l;\n    b();\n    Jump(@l);\n}\ndef 4 for actor 2 {\n    c();\n}\n", {}, [], "ssbs"))
    cases.append(("coroutines", "coro A { a(); }\ncoro B { alias previous; }\ncoro C { forever { c(); if ($V == 1) { break_loop; } } }", {}, [], "exps"))
    cases.append(("ssbscript", "def 0 {\n    a(1);\n    @l;\n    Branch($V, 1, @m);\n    b();\n    Jump(@l);\n    @m;\n    End();\n}\ncoro X {\n    Call(@l);\n    Return();\n}\n", {}, [], "ssbs"))
    bad: list[tuple[str, str, str]] = []
    unknown: list[str] = []
    n = 0
    for fam, text, files, lookup, lang in cases:
        try:
            c = P.compile_exps(text, "/proj/main.exps", files, lookup) if lang == "exps" else P.compile_ssbs(text)
        except PyExc:
            continue
        except (Unsupported, AnalysisError) as e:
            unknown.append(f"{fam}: {e}")
            continue
        n += 1
        ops = c.attrs["routine_ops"]
        infos = c.attrs["routine_infos"]
        names = c.attrs["named_coroutines"]
        problems = []
        if not (len(ops) == len(infos) == len(names)):
            problems.append(f"tables have lengths ops={len(ops)}, infos={len(infos)}, names={len(names)}")
        offs: list[int] = []
        for r in ops:
            for op in r:
                if not isinstance(op, AObj) or op.cls.name != "SsbOperation":
                    problems.append(f"a {getattr(getattr(op, 'cls', None), 'name', type(op).__name__)} remains in the result")
                    continue
                offs.append(op.attrs["offset"])
        if len(set(offs)) != len(offs):
            dup = sorted({o for o in offs if offs.count(o) > 1})
            problems.append(f"offsets {dup[:4]} are used by more than one op")
        offset_set = set(offs)
        for r in ops:
            for op in r:
                if not isinstance(op, AObj) or op.cls.name != "SsbOperation":
                    continue
                nm = op.attrs["op_code"].attrs["name"]
                ps = op.attrs["params"]
                if nm in jidx:
                    if len(ps) != jidx[nm] + 1:
                        problems.append(f"{nm} at {op.attrs['offset']} has {len(ps)} parameters; its target belongs at index {jidx[nm]}, as the last one")
                    elif not isinstance(ps[-1], int) or ps[-1] not in offset_set:
                        problems.append(f"{nm} at {op.attrs['offset']} targets {ps[-1]!r}, which is not the offset of an op in the result")
        if problems:
            bad.append((fam, text, "; ".join(problems[:3])))
    chk.floor(rule, "compilation results inspected", n, 150 if not thorough else 1500)
    if unknown:
        chk.unknown(rule, "oplist:modelled-subset", anchor, f"abstract interpretation left the modelled subset on {len(unknown)} programs, e.g. {unknown[0]}")
    for fam, text, why in sorted(bad, key=lambda x: len(x[1]))[:12]:
        chk.violation(rule, f"oplist:{text[:300]}", anchor, f"`{text[:300]}` ({fam}): {why}")
    if not bad:
        chk.hold(rule, "oplist:closed", anchor, f"{n} results: unique offsets, every jump-carrying op ends in the offset of an op of the result, no pseudo op, tables of equal length")
