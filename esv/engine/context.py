"""Shared, lazily built analysis models."""

from __future__ import annotations

from functools import cached_property

from .loader import Repo
from .consts import Folder


class Ctx:
    def __init__(self, repo: Repo, tier: str) -> None:
        self.repo = repo
        self.tier = tier
        self.fold = Folder(repo)

    # What runs is the generated lexer/parser, what the rules read is the .g4 files: every use of a grammar first establishes that the
    # generated tables are the tables of that grammar (engine.atn).  C16 reports the comparison itself (C16-R5) and sets this to False.
    require_generated_tables_in_sync = True

    def _grammar(self, name: str):  # type: ignore[no-untyped-def]
        from .g4 import load_grammar
        from .loader import AnalysisError
        g = load_grammar(self.repo, name)
        if self.require_generated_tables_in_sync:
            from .atn import agreement
            problems, _facts = agreement(self.repo, g, name)
            if problems:
                raise AnalysisError(f"the generated {name} lexer/parser are not the tables of the grammar files (regenerate them, or the .g4 file is not what runs): "
                                    + "; ".join(problems[:3]))
        return g

    @cached_property
    def grammar_exps(self):  # type: ignore[no-untyped-def]
        return self._grammar("ExplorerScript")

    @cached_property
    def grammar_ssbs(self):  # type: ignore[no-untyped-def]
        return self._grammar("SsbScript")

    @cached_property
    def callgraph(self):  # type: ignore[no-untyped-def]
        from .calls import CallGraph
        return CallGraph(self.repo, self.fold)

    @cached_property
    def forms(self):  # type: ignore[no-untyped-def]
        from .forms import FormModel
        return FormModel(self)
