"""C11: results depend only on the input - call histories evaluated inside one interpreter (= one process: module-level, class-level and
default-argument state persists across calls) against the same call in a fresh interpreter (= a fresh process)."""

from __future__ import annotations

from typing import Any

from ..engine.absint import AObj, PyExc, Unsupported
from ..engine.loader import AnalysisError
from ..engine.report import Check

FILES_A = {"/proj/lib.exps": "macro m($v) { from_lib_a($v); if ($v == 1) { return; } tail_a(); }\nmacro only_a() { oa(); }\n"}
MAIN_A = 'import "./lib.exps";\nmacro local() { la(); }\ndef 0 { a1(); ~m(1); ~local(); ~only_a(); forever { a2(); break_loop; } end; }\n'
FILES_B = {"/proj/lib.exps": "macro m($v) { from_lib_b($v); }\n", "/proj/other.exps": 'import "./lib.exps";\nmacro o() { ob(); ~m(7); }\n'}
MAIN_B = 'import "./other.exps";\nimport "./lib.exps";\nmacro local() { lb(); }\ndef 0 { b1(); ~o(); ~m(2); ~local(); switch ($S) { case 1: b2(); break; default: b3(); } end; }\ncoro C { b4(); }\n'
MAIN_FAIL = 'import "./lib.exps";\ndef 0 { f1(); ~m(1); ~does_not_exist(); end; }\n'
MAIN_FAIL2 = "def 0 { forever { g1(); switch ($S) { case 1: continue; case 2: } } }\n"
PROG_X = "def 0 { x1(); if ($V == 1 || $W == 2) { x2(); } elseif ($U == 3) { x3(); } else { x4(); } forever { x5(); if ($T == 4) { break_loop; } } end; }\ndef 1 { x6(); jump @l; x7(); §l; return; }"
PROG_Y = "def 0 { y1(); switch ($S) { case 1: y2(); break; case 2: case 3: y3(); default: y4(); } while ($V < 3) { y5(); } if ($A == 1) { y6(); } else { y7(); } hold; }"
PROG_FALLBACK = "def 0 { z1(); §a; z2(); if ($V == 1) { jump @b; } z3(); jump @a; §b; z4(); if ($W == 2) { jump @a; } end; }"


def _ops(I: Any, c: AObj) -> Any:
    return [[(op.attrs["offset"], op.attrs["op_code"].attrs["name"], [I.str_strict(p) for p in op.attrs["params"]]) for op in r] for r in c.attrs["routine_ops"]]


def _smap(I: Any, sm: Any) -> Any:
    from .smap_roundtrip import _dump
    return _dump(I, sm)


def history_rule(chk: Check, ctx: Any, rule: str) -> None:
    from ..engine.pipeline import Pipeline
    repo = ctx.repo
    anchor = repo.func("explorerscript.ssb_converting.ssb_compiler:ExplorerScriptSsbCompiler.compile")
    danchor = repo.func("explorerscript.ssb_converting.ssb_decompiler:ExplorerScriptSsbDecompiler.convert")

    def fresh() -> Any:
        return Pipeline(repo, ctx.fold)

    def comp(P: Any, text: str, files: dict[str, str], obj: Any = None) -> Any:
        """compile in pipeline P, optionally re-using a compiler object; ('ok', ops, infos, names, smap) or ('exc', class)"""
        import posixpath
        I = P.I
        P.files = {posixpath.normpath(k): v for k, v in files.items()}
        P.files["/proj/main.exps"] = text
        if obj is None:
            obj = I.new(repo.find_class("ExplorerScriptSsbCompiler"), "$PERF", [])
        try:
            I.steps = 0
            I.call_func(repo.find_method(obj.cls, "compile"), [obj, text, "/proj/main.exps"], {})
        except PyExc as e:
            return obj, ("exc", e.cls_name)
        infos = [(i.attrs["type"].name, i.attrs["linked_to"], i.attrs["linked_to_name"]) if isinstance(i, AObj) else None for i in obj.attrs["routine_infos"]]
        return obj, ("ok", _ops(I, obj), infos, list(obj.attrs["named_coroutines"]), _smap(I, obj.attrs["source_map"]))

    def dec(P: Any, text: str) -> Any:
        I = P.I
        c = P.compile_exps(text)
        before = _ops(I, c)
        t, sm = P.decompile_exps(c.attrs["routine_infos"], c.attrs["routine_ops"], c.attrs["named_coroutines"])
        return ("ok", t, _smap(I, sm)), before, _ops(I, c)

    n = 0
    try:
        ref_b0 = comp(fresh(), MAIN_B, FILES_B)[1]
        ref_a = comp(fresh(), MAIN_A, FILES_A)[1]
        histories = {
            "other-program-first": [(MAIN_A, FILES_A, False)],
            "same-program-first": [(MAIN_B, FILES_B, False)],
            "failing-program-first": [(MAIN_FAIL, FILES_A, False), (MAIN_FAIL2, {}, False)],
            "reused-compiler-object": [(MAIN_A, FILES_A, True)],
            "reused-object-after-failure": [(MAIN_A, FILES_A, True), (MAIN_FAIL, FILES_A, True), (MAIN_FAIL2, {}, True)],
            "reused-object-same-program-twice": [(MAIN_B, FILES_B, True), (MAIN_B, FILES_B, True)],
        }
        MAIN_C = "def 0 { c1(); ~only_a(); ~local(); end; }\n"  # uses macros that only an earlier compilation defined
        ref_c = comp(fresh(), MAIN_C, {})[1]
        finals = {"reused-object-then-program-naming-earlier-macros": (MAIN_C, {}, ref_c)}
        histories["reused-object-then-program-naming-earlier-macros"] = [(MAIN_A, FILES_A, True)]
        for hname, steps in histories.items():
            n += 1
            P = fresh()
            obj = None
            for text, files, reuse in steps:
                o, _r = comp(P, text, files, obj if reuse else None)
                if reuse:
                    obj = o
            f_text, f_files, ref_b = finals.get(hname, (MAIN_B, FILES_B, ref_b0))
            _o, got = comp(P, f_text, f_files, obj)
            ok = got == ref_b
            why = ""
            if not ok:
                if got[0] != ref_b[0]:
                    why = f"the call {'raises ' + got[1] if got[0] == 'exc' else 'succeeds'} while in a fresh process it {'raises ' + ref_b[1] if ref_b[0] == 'exc' else 'succeeds'}"
                else:
                    part = next((nm for nm, a, b in zip(("ops", "routine table", "coroutine names", "source map"), got[1:], ref_b[1:]) if a != b), "result")
                    why = f"the {part} differ(s) from the result in a fresh process"
                    if part == "ops":
                        d = next(((a, b) for ra, rb in zip(ref_b[1], got[1]) for a, b in zip(ra, rb) if a != b), None)
                        why += f" (e.g. {d[0]} became {d[1]})" if d else f" (op counts {[len(r) for r in ref_b[1]]} vs {[len(r) for r in got[1]]})"
            chk.decide(rule, f"history:compile:{hname}", ok, anchor, f"compile() of the same two-file project after the history `{hname}`: {why}", "same ops, routine table, names and source map as in a fresh process")
        # decompiler histories
        ref_y = dec(fresh(), PROG_Y)[0]
        for hname, first in {"other-routine-set-first": [PROG_X], "same-routine-set-first": [PROG_Y], "fallback-first": [PROG_FALLBACK], "many-first": [PROG_X, PROG_FALLBACK, PROG_X]}.items():
            n += 1
            P = fresh()
            for t in first:
                dec(P, t)
            got, before, after = dec(P, PROG_Y)
            problems = []
            if got != ref_y:
                problems.append("text differs" if got[1] != ref_y[1] else "source map differs")
            if before != after:
                d = next(((a, b) for ra, rb in zip(before, after) for a, b in zip(ra, rb) if a != b), None)
                problems.append(f"convert() altered the routine set it was given ({d[0]} became {d[1]})" if d else "convert() altered the routine set it was given")
            chk.decide(rule, f"history:decompile:{hname}", not problems, danchor, f"convert() of the same routine set after the history `{hname}`: " + "; ".join(problems),
                       "same text and source map as in a fresh process; input unchanged")
        # histories over the *same objects*: a routine set that is decompiled more than once (by new decompiler objects, by the two
        # decompilers in both orders) gives each time what a fresh process gives for it.  The sets carry multi-line and language strings at
        # several depths (the writers keep layout state on the parameter objects) and one of them can only be written as fallback text.
        def sets(P: Any) -> dict[str, tuple[list[Any], list[list[Any]], list[Any]]]:
            o, inf, pa = P.op, P.info, P.param
            V = lambda nm: pa("SsbOpParamConstant", nm)  # noqa: E731
            cs = lambda t: pa("SsbOpParamConstString", t)  # noqa: E731
            ls = lambda **k: pa("SsbOpParamLanguageString", dict(k))  # noqa: E731
            structured = [[o(0, "hs_top", [cs("top\nlevel")]), o(1, "Branch", [V("$A"), 1, 3]), o(2, "Jump", [8]),
                           o(3, "hs_in_if", [cs("one\n  two"), ls(english="e1\ne2", german="g")]), o(4, "Branch", [V("$B"), 2, 6]), o(5, "Jump", [8]),
                           o(6, "hs_in_if_in_if", [cs("deep\n\ndeeper")]), o(7, "Jump", [8]), o(8, "hs_end", [ls(english="last\nline")]), o(9, "End", [])]]
            fallback = [[o(0, "hf_first", [cs("first\nline")]), o(1, "Branch", [V("$A"), 1, 3]), o(2, "Jump", [5]),
                         o(3, "hf_in_if", [cs("in\nif"), ls(english="x\ny")]), o(4, "Jump", [5]),
                         o(5, "Switch", [V("$S")]), o(6, "Case", [2, 10]), o(7, "Case", [3, 9]), o(8, "Jump", [5]),
                         o(9, "hf_body", [cs("case\nbody")]), o(10, "Jump", [6])]]
            return {"structured-with-strings": ([inf("GENERIC")], structured, [None]), "fallback-with-strings": ([inf("GENERIC")], fallback, [None])}

        def dec_objs(P: Any, st: tuple[list[Any], list[list[Any]], list[Any]], which: str) -> Any:
            infos, ops, names = st
            if which == "exps":
                t, sm = P.decompile_exps(infos, ops, names)
            else:
                t, sm = P.decompile_ssbs(infos, ops, names)
            return ("ok", t, _smap(P.I, sm))

        for sname in ("structured-with-strings", "fallback-with-strings"):
            refs = {}
            for which in ("exps", "ssbs"):
                Pf = fresh()
                refs[which] = dec_objs(Pf, sets(Pf)[sname], which)
            if sname.startswith("fallback") != refs["exps"][1].startswith("//?: is-ssb-script: true"):
                chk.unknown(rule, f"history:decompile-same-objects:{sname}", danchor,
                            "the sample set is " + ("not " if sname.startswith("fallback") else "") + "written as SsbScript fallback text any more; the history needs another set")
                continue
            for hname, steps in {"exps-twice": ["exps", "exps"], "ssbs-then-exps": ["ssbs", "exps"], "exps-then-ssbs": ["exps", "ssbs"],
                                 "exps-ssbs-exps": ["exps", "ssbs", "exps"], "ssbs-twice": ["ssbs", "ssbs"]}.items():
                n += 1
                P = fresh()
                st = sets(P)[sname]
                problems = []
                for i, which in enumerate(steps):
                    got = dec_objs(P, st, which)
                    if got != refs[which]:
                        a, b = refs[which][1], got[1]
                        k = next((j for j, (x, y) in enumerate(zip(a, b)) if x != y), min(len(a), len(b)))
                        problems.append(f"call {i + 1} ({which}): " + (f"text differs from position {k}: {a[max(0, k - 30):k + 40]!r} became {b[max(0, k - 30):k + 40]!r}"
                                                                  if a != b else "source map differs"))
                        break
                chk.decide(rule, f"history:decompile-same-objects:{sname}:{hname}", not problems, danchor,
                           f"routine set `{sname}` decompiled repeatedly ({' then '.join(steps)}; same op and parameter objects, new decompiler objects): " + "; ".join(problems),
                           "every call gives the text and source map a fresh process gives")
    except (Unsupported, AnalysisError) as e:
        chk.unknown(rule, "history:evaluation", anchor, f"abstract interpretation left the modelled subset: {e}")
    except PyExc as e:
        chk.unknown(rule, "history:evaluation", anchor, f"a reference call failed: {e.cls_name}: {e.msg}")
    chk.floor(rule, "call histories evaluated", n, 10)
