"""Macro expansion, imports and macro source-map entries: `ExplorerScriptSsbCompiler.compile` interpreted on small multi-file projects
(engine.pipeline; the file system is a dictionary).  Shared by C05 (a call means the body inlined; imports; order; rejections) and C08
(entries of expanded ops: defining file, macro, position, call position on the first op, return address)."""

from __future__ import annotations

from typing import Any

from ..engine.absint import AObj, PyExc, Unsupported
from ..engine.loader import AnalysisError
from ..engine.report import Check

SPECIAL = "explorerscript.ssb_converting.ssb_special_ops"

# ------------------------------------------------------------------------------------------------ C05: expansion = inlining
# (name, files, main text, the same program with every call replaced by the macro's body by hand, lookup paths)
INLINE_CASES: list[tuple[str, dict[str, str], str, str, list[str]]] = [
    ("docs-example", {},
     "macro another_example($anotherVariable) { another_print($anotherVariable); }\n"
     "macro example($variable1, $variable2) { print($variable1, $variable2); ~another_example($variable1); }\n"
     "def 0 { ~example($SCENARIO_MAIN, 3); ~example(ANOTHER_CONSTANT, 'A string'); ~another_example('Another string'); }",
     "def 0 { print($SCENARIO_MAIN, 3); another_print($SCENARIO_MAIN); print(ANOTHER_CONSTANT, 'A string'); another_print(ANOTHER_CONSTANT); "
     "another_print('Another string'); }", []),
    ("defined-after-use-chain", {},
     "def 0 { a(); ~top(1); end; }\nmacro top($x) { t($x); ~mid($x, 2); }\nmacro mid($x, $y) { m($y, $x); ~low($y); }\nmacro low($v) { l($v); }",
     "def 0 { a(); t(1); m(2, 1); l(2); end; }", []),
    ("return-in-macro", {},
     "macro guard($v) { g1($v); if ($v == 1) { return; } g2($v); }\ndef 0 { a(); ~guard($A); b(); ~guard($B); c(); end; }",
     "def 0 { a(); g1($A); if ($A == 1) { jump @e1; } g2($A); §e1; b(); g1($B); if ($B == 1) { jump @e2; } g2($B); §e2; c(); end; }", []),
    ("control-flow-in-macro", {},
     "macro flow($v, $n) { switch ($v) { case 1: s1($n); break; default: s2(); } while ($v < $n) { w($v); } forever { f(); break_loop; } }\n"
     "def 0 { ~flow($A, 3); z(); ~flow($B, 4); end; }",
     "def 0 { switch ($A) { case 1: s1(3); break; default: s2(); } while ($A < 3) { w($A); } forever { f(); break_loop; } z(); "
     "switch ($B) { case 1: s1(4); break; default: s2(); } while ($B < 4) { w($B); } forever { f(); break_loop; } end; }", []),
    ("labels-in-macro-twice", {},
     "macro loop($v) { §again; l1($v); if ($v == 2) { jump @again; } l2(); }\ndef 0 { ~loop($A); ~loop($B); end; }",
     "def 0 { §a1; l1($A); if ($A == 2) { jump @a1; } l2(); §a2; l1($B); if ($B == 2) { jump @a2; } l2(); end; }", []),
    ("parameter-permutation", {},
     "macro show($first, $second, $third) { s($first, $second, $third); }\nmacro rotate($third, $first, $second) { ~show($second, $third, $first); }\n"
     "def 0 { ~rotate(1, 2, 3); ~show($second, $third, $first); end; }",
     "def 0 { s(3, 1, 2); s($second, $third, $first); end; }", []),
    ("parameterless-twice", {},
     "macro plain() { p1(); if ($V == 1) { p2(); } p3(); }\ndef 0 { ~plain(); ~plain(); end; }",
     "def 0 { p1(); if ($V == 1) { p2(); } p3(); p1(); if ($V == 1) { p2(); } p3(); end; }", []),
    ("argument-kinds", {},
     "macro kinds($a, $b, $c, $d) { k($a, $b, $c, $d); with (actor $a) { w($b); } $VAR = $a; }\ndef 0 { ~kinds(7, 'text', Position<'m', 1, 2.5>, 1.5); end; }",
     "def 0 { k(7, 'text', Position<'m', 1, 2.5>, 1.5); with (actor 7) { w('text'); } $VAR = 7; end; }", []),
    ("caller-first-calls-nested-in-every-block-kind", {},
     "macro outer($v) { o1(); if ($v == 1) { ~in1($v, 1); } elseif ($v == 2) { ~in2($v, 2); } else { ~in3($v, 3); } switch ($v) { case 1: ~in4($v, 4); break; case 2: case 3: ~in5($v, 5); default: ~in6($v, 6); } forever { ~in7($v, 7); break_loop; } while ($v < 3) { ~in8($v, 8); } for ($I = 0; $I < 2; $I += 1;) { ~in9($v, 9); } if ($v == 4) { while ($v < 5) { for ($J = 0; $J < 3; $J += 1;) { switch ($v) { case 7: forever { ~in10($v, 10); break_loop; } } } } } o2(); }\n"
     "macro in10($a, $b) { c10($a, $b); }\nmacro in9($a, $b) { c9($a, $b); }\nmacro in8($a, $b) { c8($a, $b); }\nmacro in7($a, $b) { c7($a, $b); }\nmacro in6($a, $b) { c6($a, $b); }\nmacro in5($a, $b) { c5($a, $b); }\nmacro in4($a, $b) { c4($a, $b); }\nmacro in3($a, $b) { c3($a, $b); }\nmacro in2($a, $b) { c2($a, $b); }\nmacro in1($a, $b) { c1($a, $b); }\n"
     "def 0 { ~outer($A); end; }",
     "def 0 { o1(); if ($A == 1) { c1($A, 1); } elseif ($A == 2) { c2($A, 2); } else { c3($A, 3); } switch ($A) { case 1: c4($A, 4); break; case 2: case 3: c5($A, 5); default: c6($A, 6); } forever { c7($A, 7); break_loop; } while ($A < 3) { c8($A, 8); } for ($I = 0; $I < 2; $I += 1;) { c9($A, 9); } if ($A == 4) { while ($A < 5) { for ($J = 0; $J < 3; $J += 1;) { switch ($A) { case 7: forever { c10($A, 10); break_loop; } } } } } o2(); end; }", []),
    ("callers-first-one-per-block-kind", {},
     "macro o1($v) { b1(); if ($v == 1) { ~in1($v, 1); } e1(); }\nmacro o2($v) { b2(); if ($v == 1) { x(); } elseif ($v == 2) { ~in2($v, 2); } e2(); }\nmacro o3($v) { b3(); if ($v == 1) { x(); } else { ~in3($v, 3); } e3(); }\nmacro o4($v) { b4(); switch ($v) { case 1: ~in4($v, 4); break; default: x(); } e4(); }\nmacro o5($v) { b5(); switch ($v) { case 1: x(); break; default: ~in5($v, 5); } e5(); }\nmacro o6($v) { b6(); forever { ~in6($v, 6); break_loop; } e6(); }\nmacro o7($v) { b7(); while ($v < 3) { ~in7($v, 7); } e7(); }\nmacro o8($v) { b8(); for ($I = 0; $I < 2; $I += 1;) { ~in8($v, 8); } e8(); }\nmacro o9($v) { b9(); if ($v == 4) { while ($v < 5) { for ($J = 0; $J < 3; $J += 1;) { switch ($v) { case 7: forever { ~in9($v, 9); break_loop; } } } } } e9(); }\nmacro in9($a, $b) { c9($a, $b); }\nmacro in8($a, $b) { c8($a, $b); }\nmacro in7($a, $b) { c7($a, $b); }\nmacro in6($a, $b) { c6($a, $b); }\nmacro in5($a, $b) { c5($a, $b); }\nmacro in4($a, $b) { c4($a, $b); }\nmacro in3($a, $b) { c3($a, $b); }\nmacro in2($a, $b) { c2($a, $b); }\nmacro in1($a, $b) { c1($a, $b); }\n"
     "def 0 { ~o1($A); ~o2($A); ~o3($A); ~o4($A); ~o5($A); ~o6($A); ~o7($A); ~o8($A); ~o9($A); end; }",
     "def 0 { b1(); if ($A == 1) { c1($A, 1); } e1(); b2(); if ($A == 1) { x(); } elseif ($A == 2) { c2($A, 2); } e2(); b3(); if ($A == 1) { x(); } else { c3($A, 3); } e3(); b4(); switch ($A) { case 1: c4($A, 4); break; default: x(); } e4(); b5(); switch ($A) { case 1: x(); break; default: c5($A, 5); } e5(); b6(); forever { c6($A, 6); break_loop; } e6(); b7(); while ($A < 3) { c7($A, 7); } e7(); b8(); for ($I = 0; $I < 2; $I += 1;) { c8($A, 8); } e8(); b9(); if ($A == 4) { while ($A < 5) { for ($J = 0; $J < 3; $J += 1;) { switch ($A) { case 7: forever { c9($A, 9); break_loop; } } } } } e9(); end; }", []),
    ("macro-names-that-concatenate-alike", {},
     "macro scene() { sc1(); ~inout(1); ~out(2); sc2(); }\nmacro inout($a) { io($a); ~fade($a); }\nmacro out($b) { ou($b); ~fadein($b); }\n"
     "macro fadein($c) { fi($c); if ($c == 1) { return; } fi2(); }\nmacro fade($d) { fa($d); }\nmacro a($x) { ma($x); ~bc($x); }\nmacro ab($x) { mab($x); ~c($x); }\n"
     "macro c($x) { mc($x); }\nmacro bc($x) { mbc($x); }\ndef 0 { ~scene(); ~ab(3); ~a(4); end; }",
     "def 0 { sc1(); io(1); fa(1); ou(2); fi(2); if (2 == 1) { jump @e1; } fi2(); §e1; sc2(); mab(3); mc(3); ma(4); mbc(4); end; }", []),
    ("nested-files", {"/proj/lib/m.exps": 'import "./inner.exps";\nmacro outer($a, $b) { x($a); ~inner($b, 5); if ($V == 1) { return; } y($b); }\n',
                      "/proj/lib/inner.exps": "macro inner($p, $q) { i1($p); i2($q); }\n"},
     'import "./lib/m.exps";\nmacro local($z) { l($z); }\ndef 0 { a(); ~outer(1, CONST); ~local(3); ~outer(2, 4); end; }',
     "def 0 { a(); x(1); i1(CONST); i2(5); if ($V == 1) { jump @e1; } y(CONST); §e1; l(3); x(2); i1(4); i2(5); if ($V == 1) { jump @e2; } y(4); §e2; end; }", []),
    ("relative-to-importing-file", {"/proj/lib/outer.exps": 'import "./inner.exps";\nimport "./sub/deep.exps";\nmacro o() { ~i(); ~d(); }\n',
                                    "/proj/lib/inner.exps": "macro i() { from_lib_inner(); }\n",
                                    "/proj/lib/sub/deep.exps": 'import "../inner.exps";\nmacro d() { deep(); ~i(); }\n',
                                    "/proj/inner.exps": "macro i() { decoy_next_to_main(); }\n"},
     'import "./lib/outer.exps";\ndef 0 { ~o(); end; }',
     "def 0 { from_lib_inner(); deep(); from_lib_inner(); end; }", []),
    ("diamond-imports", {"/proj/base.exps": "macro b($v) { base($v); }\n", "/proj/util.exps": 'import "./base.exps";\nmacro u($v) { util($v); ~b($v); }\n'},
     'import "./base.exps";\nimport "./util.exps";\ndef 0 { ~b(1); ~u(2); end; }',
     "def 0 { base(1); util(2); base(2); end; }", []),
    ("lookup-paths-in-order", {"/proj/first/common.exps": "macro c() { from_first(); }\n", "/proj/second/common.exps": "macro c() { from_second(); }\n",
                               "/proj/second/only.exps": "macro o() { only_second(); }\n"},
     'import "common.exps";\nimport "only.exps";\ndef 0 { ~c(); ~o(); end; }',
     "def 0 { from_first(); only_second(); end; }", ["first", "second"]),
    ("same-label-name-in-two-macros", {},
     "macro first($v) { if ($v == 1) { f1($v); jump @skip; } f2(); §skip; f3(); }\nmacro second($v) { if ($v == 2) { s1($v); jump @skip; } s2(); §skip; s3(); }\n"
     "def 0 { ~first($A); ~second($B); ~first($C); end; }",
     "def 0 { if ($A == 1) { f1($A); jump @k1; } f2(); §k1; f3(); if ($B == 2) { s1($B); jump @k2; } s2(); §k2; s3(); if ($C == 1) { f1($C); jump @k3; } f2(); §k3; f3(); end; }", []),
    ("macro-ending-in-return-inside-if-chain", {},
     "macro early($v) { e1($v); if ($v == 1) { return; } e2(); return; }\n"
     "def 0 { if ($A == 1) { a1(); ~early($A); } elseif ($B == 2) { b1(); } else { c1(); } d1(); end; }",
     "def 0 { if ($A == 1) { a1(); e1($A); if ($A == 1) { jump @x; } e2(); jump @x; §x; } elseif ($B == 2) { b1(); } else { c1(); } d1(); end; }", []),
    ("macro-ending-in-return-last-in-routine", {},
     "macro tail($v) { t1($v); return; }\ndef 0 { a(); ~tail(1); b(); ~tail(2); }",
     "def 0 { a(); t1(1); b(); t1(2); }", []),
    ("absolute-import", {"/abs/place/greet.exps": "macro greet() { hello(); }\n", "/proj/lib/rel.exps": 'import "/abs/place/greet.exps";\nmacro r() { ~greet(); rr(); }\n'},
     'import "/abs/place/greet.exps";\nimport "./lib/rel.exps";\ndef 0 { ~greet(); ~r(); end; }',
     "def 0 { hello(); hello(); rr(); end; }", []),
    ("imported-macros-call-each-other", {"/proj/lib.exps": "macro a2($v) { ~b2($v); la($v); }\nmacro b2($v) { lb($v); }\n"},
     'import "./lib.exps";\ndef 0 { ~a2(1); end; }\ncoro Other { ~b2(2); }',
     "def 0 { lb(1); la(1); end; }\ncoro Other { lb(2); }", []),
]

# (name, files, main text, why) - must be rejected with a documented error class
REJECT_CASES: list[tuple[str, dict[str, str], str, str]] = [
    ("unknown-macro", {}, "def 0 { ~nothing(1); }", "call of an unknown macro"),
    ("direct-recursion", {}, "macro r($v) { a($v); ~r($v); }\ndef 0 { ~r(1); }", "a macro that calls itself"),
    ("mutual-recursion", {}, "macro r1() { ~r2(); }\nmacro r2() { ~r1(); }\ndef 0 { ~r1(); }", "macros that call each other in a cycle"),
    ("too-few-arguments", {}, "macro two($a, $b) { t($a, $b); }\ndef 0 { ~two(1); }", "too few macro arguments"),
    ("missing-import", {}, 'import "./gone.exps";\ndef 0 { a(); }', "an import that does not exist"),
    ("missing-lookup-import", {"/proj/other/x.exps": "macro x() { a(); }"}, 'import "x.exps";\ndef 0 { a(); }', "an import that is in no lookup path"),
    ("import-of-a-directory", {"/proj/dir/file.exps": "macro x() { a(); }"}, 'import "./dir";\ndef 0 { a(); }', "an import that names a directory"),
    ("cyclic-import", {"/proj/a.exps": 'import "./b.exps";\nmacro ma() { a(); }', "/proj/b.exps": 'import "./a.exps";\nmacro mb() { b(); }'},
     'import "./a.exps";\ndef 0 { ~ma(); }', "imports that form a cycle"),
    ("self-import", {}, 'import "./main.exps";\ndef 0 { a(); }', "a file that imports itself"),
    ("recursion-through-redefined-imported-name", {"/proj/lib.exps": "macro foo() { lib_foo(); }\n"}, 'import "./lib.exps";\nmacro foo() { a(); ~foo(); }\ndef 0 { ~foo(); }',
     "a macro that calls itself, under a name that an imported file also defines"),
    ("indirect-recursion-through-imported-name", {"/proj/lib.exps": "macro foo() { lib_foo(); }\nmacro bar() { lib_bar(); }\n"},
     'import "./lib.exps";\nmacro foo() { ~bar(); }\nmacro bar() { ~foo(); }\ndef 0 { ~foo(); }', "macros that call each other in a cycle, under imported names"),
    ("missing-lookup-import-after-a-found-one", {"/proj/first/common.exps": "macro c() { a(); }"}, 'import "common.exps";\nimport "nope.exps";\ndef 0 { ~c(); }',
     "a lookup import that exists nowhere, listed after one that was found"),
    ("routines-in-imported-file", {"/proj/lib.exps": "macro m() { a(); }\ndef 0 { b(); }"}, 'import "./lib.exps";\ndef 0 { ~m(); }', "routines in an imported file"),
    ("relative-path-in-lookup-import", {"/proj/first/x.exps": "macro x() { a(); }"}, 'import "../first/x.exps";\ndef 0 { ~x(); }', "relative segments in a lookup import"),
]


def _pipe(ctx: Any) -> Any:
    from ..engine.pipeline import Pipeline
    return Pipeline(ctx.repo, ctx.fold)


def inline_rule(chk: Check, ctx: Any, rule: str, rejects: bool = True) -> None:
    from ..engine.sta import compiled_graph, bisimilar
    repo = ctx.repo
    fold = ctx.fold
    P = _pipe(ctx)
    I = P.I
    branch = set(fold.const(f"{SPECIAL}:OPS_BRANCH")) | {"Case", "CaseMenu", "CaseMenu2", "CaseValue", "CaseVariable", "CaseScenario", "Call"}
    ends = set(fold.const(f"{SPECIAL}:OPS_THAT_END_CONTROL_FLOW")) - {fold.const(f"{SPECIAL}:OP_JUMP")}
    anchor = repo.func("explorerscript.macro:ExplorerScriptMacro.build")
    n = 0
    for name, files, main, inlined, lookup in INLINE_CASES:
        key = f"inline:{name}"
        n += 1
        try:
            c1 = P.compile_exps(main, "/proj/main.exps", files, lookup)
            c2 = P.compile_exps(inlined, "/proj/main.exps", {})
        except PyExc as e:
            chk.violation(rule, key, anchor, f"project `{name}` is valid but compilation fails with {e.cls_name}: {e.msg} (at {e.where}); main file: {main!r}")
            continue
        except (Unsupported, AnalysisError) as e:
            chk.unknown(rule, key, anchor, f"project `{name}`: abstract interpretation left the modelled subset: {e}")
            continue
        i1 = [(i.attrs["type"].name, i.attrs["linked_to"], i.attrs["linked_to_name"]) if isinstance(i, AObj) else None for i in c1.attrs["routine_infos"]]
        i2 = [(i.attrs["type"].name, i.attrs["linked_to"], i.attrs["linked_to_name"]) if isinstance(i, AObj) else None for i in c2.attrs["routine_infos"]]
        why = None
        if i1 != i2 or c1.attrs["named_coroutines"] != c2.attrs["named_coroutines"]:
            why = f"routine table differs: {i1} vs {i2}"
        else:
            try:
                g1, e1 = compiled_graph(I, c1.attrs["routine_ops"], branch, ends)
                g2, e2 = compiled_graph(I, c2.attrs["routine_ops"], branch, ends)
                for ri, (a, b) in enumerate(zip(e1, e2)):
                    ok, w = bisimilar(a, b)
                    if not ok:
                        why = f"routine {ri}: {w} (compiled with macros vs. compiled with the bodies inlined by hand)"
                        break
            except AnalysisError as e:
                why = f"malformed result: {e}"
        if why:
            ops = [[(op.attrs["op_code"].attrs["name"], [I.str_strict(p) for p in op.attrs["params"]]) for op in r] for r in c1.attrs["routine_ops"]]
            chk.violation(rule, key, anchor, f"project `{name}`: the program with macro calls does not behave like the program with the bodies inlined: {why}; "
                                             f"main file {main!r} compiles to {ops}")
        else:
            chk.hold(rule, key, anchor, "behaves like the hand-inlined program")
    if rejects:
        n += reject_projects(chk, ctx, rule, P)
    chk.floor(rule, "multi-file macro projects compiled abstractly", n, 20 if rejects else 12)


def reject_projects(chk: Check, ctx: Any, rule: str, P: Any = None) -> int:
    """Meaningless macro/import projects are rejected with a documented error class (shared by C05 and C10)."""
    repo = ctx.repo
    if P is None:
        P = _pipe(ctx)
    anchor = repo.func("explorerscript.ssb_converting.ssb_compiler:ExplorerScriptSsbCompiler.compile")
    n = 0
    for name, files, main, what in REJECT_CASES:
        key = f"reject:{name}"
        n += 1
        try:
            P.compile_exps(main, "/proj/main.exps", files, ["first", "second"] if "lookup" in name else [])
            chk.violation(rule, key, anchor, f"project `{name}` ({what}) compiles and yields output; main file: {main!r}")
        except PyExc as e:
            chk.decide(rule, key, e.cls_name in ("SsbCompilerError", "ValueError", "ParseError"), anchor,
                       f"project `{name}` ({what}) fails with {e.cls_name} ({e.msg}) instead of SsbCompilerError, ValueError or ParseError", f"rejected: {e.cls_name}")
        except (Unsupported, AnalysisError) as e:
            chk.unknown(rule, key, anchor, f"project `{name}`: abstract interpretation left the modelled subset: {e}")
    # the same on a compiler object that has compiled another program before: what that program defined or imported is not known to this one
    for name, main, what in REJECT_AFTER_CASES:
        key = f"reject-after-valid-program:{name}"
        n += 1
        try:
            c = P.compile_exps(REJECT_AFTER_FIRST[1], "/proj/main.exps", REJECT_AFTER_FIRST[0])
        except (PyExc, Unsupported, AnalysisError) as e:
            chk.unknown(rule, key, anchor, f"the valid first program of the history does not compile abstractly: {e}")
            continue
        try:
            P.compile_exps(main, "/proj/main.exps", REJECT_AFTER_FIRST[0], compiler=c)
            chk.violation(rule, key, anchor, f"on a compiler object that compiled {REJECT_AFTER_FIRST[1]!r} before, the program {main!r} ({what}) compiles and yields output")
        except PyExc as e:
            chk.decide(rule, key, e.cls_name in ("SsbCompilerError", "ValueError", "ParseError"), anchor,
                       f"second program `{name}` ({what}) fails with {e.cls_name} ({e.msg}) instead of SsbCompilerError, ValueError or ParseError", f"rejected: {e.cls_name}")
        except (Unsupported, AnalysisError) as e:
            chk.unknown(rule, key, anchor, f"second program `{name}`: abstract interpretation left the modelled subset: {e}")
    # the file system changes between two compilations in one process: an imported file that is gone is a missing import again
    lib = {"/proj/common/util.exps": "macro u() { from_util(); }\n", "/proj/lib/rel.exps": "macro r() { from_rel(); }\n"}
    for name, main, lookup, gone in (("lookup-path-import-removed", 'import "util.exps";\ndef 0 { ~u(); end; }', ["common"], "/proj/common/util.exps"),
                                     ("relative-import-removed", 'import "./lib/rel.exps";\ndef 0 { ~r(); end; }', [], "/proj/lib/rel.exps")):
        key = f"reject-after-file-removed:{name}"
        n += 1
        try:
            P.compile_exps(main, "/proj/main.exps", lib, lookup)
        except (PyExc, Unsupported, AnalysisError) as e:
            chk.unknown(rule, key, anchor, f"the project does not compile abstractly while the file exists: {e}")
            continue
        try:
            P.compile_exps(main, "/proj/main.exps", {k: v for k, v in lib.items() if k != gone}, lookup)
            chk.violation(rule, key, anchor, f"`{main}` compiled once, then {gone} is removed: the second compilation in the same process still succeeds")
        except PyExc as e:
            chk.decide(rule, key, e.cls_name in ("SsbCompilerError", "ValueError", "ParseError"), anchor,
                       f"`{main}` compiled once, then {gone} is removed: the second compilation in the same process fails with {e.cls_name} ({e.msg}) instead of "
                       "SsbCompilerError, ValueError or ParseError", f"rejected: {e.cls_name}")
        except (Unsupported, AnalysisError) as e:
            chk.unknown(rule, key, anchor, f"second compilation: abstract interpretation left the modelled subset: {e}")
    return n


REJECT_AFTER_FIRST = ({"/proj/lib.exps": 'import "./deep.exps";\nmacro from_lib($v) { fl($v); ~from_deep(); }\n', "/proj/deep.exps": "macro from_deep() { fd(); }\n"},
                      'import "./lib.exps";\nmacro local($v) { lc($v); }\ndef 0 { a(); ~local(1); ~from_lib(2); §here; b(); jump @here; }\n')
REJECT_AFTER_CASES: list[tuple[str, str, str]] = [
    ("macro-of-the-earlier-program", "def 0 { a(); ~local(1); end; }", "call of a macro that only the earlier program defined"),
    ("macro-of-the-earlier-import", "def 0 { a(); ~from_lib(1); end; }", "call of a macro from a file that only the earlier program imported"),
    ("macro-of-the-earlier-transitive-import", "macro mine() { ~from_deep(); }\ndef 0 { ~mine(); end; }", "a macro calling a macro that only the earlier program imported"),
    ("label-of-the-earlier-program", "def 0 { a(); jump @here; }", "jump to a label that only the earlier program defined"),
]


# ------------------------------------------------------------------------------------------------ C08: entries of expanded ops

MAP_PROJECT = {
    "/proj/lib/m.exps": 'import "./inner.exps";\n'
                        "macro outer($a, $b) {\n"
                        "    ox($a);\n"
                        "      ~inner($b, 5);\n"
                        "    if ($V == 1) { return; }\n"
                        "    oy($b); ~inner($a, 6);\n"
                        "}\n",
    "/proj/lib/inner.exps": "// a comment line\nmacro inner($p, $q) {\n    i1($p); i2($q, Position<'m', 1, 2.5>);\n    ~leaf($q);\n    i3();\n}\n"
                            "macro unused() { never(); }\nmacro sibling() { sb(); }\n"
                            "macro leaf($w) {\n    lf1($w);\n    if ($w == 2) { return; }\n    lf2();\n}\n",
    "/proj/other/unused.exps": "macro not_called() { nope(); }\n",
    "/proj/wrap/wrap.exps": 'import "./leaf/leaf.exps";\nmacro wrapped() {\n    ~leafm();\n    own_op();\n}\n',
    "/proj/wrap/leaf/leaf.exps": "macro leafm() {\n    lm1();\n    if ($V == 3) { lm2(); }\n    return;\n}\n",
    # blocks that are a lone jump (folded into the header) and an operation used as a condition: op numbers and emitted ops must still agree
    "/proj/lib/guard.exps": "macro guard($g) {\n    g_first($g);\n    if ($g == 1) { jump @g_out; }\n    g_work();\n    §g_out;\n    g_last();\n}\n"
                            "macro probe($q) {\n    q_first($q);\n    if (BranchExecuteSub($q)) {\n        q_inner();\n    }\n    q_last();\n}\n"
                            "macro both($x) {\n    bo_first();\n    ~guard($x);\n    bo_mid();\n    ~probe($x);\n    bo_last();\n}\n",
}
MAP_MAIN = ('import "./lib/m.exps";\nimport "./other/unused.exps";\nimport "./wrap/wrap.exps";\nimport "./lib/guard.exps";\n'
            "macro local($z) { lc($z); }\n"
            "def 0 {\n"
            "    a();\n"
            "    ~outer(1, CONST);\n"
            "    ~local(3);   ~outer(2, 4);\n"
            "    ~sibling();\n"
            "    ~wrapped(); after_wrapped();\n"
            "    b(Position<'direct', 3, 4>);\n"
            "    ~guard($A); r_c();\n"
            "    ~probe($B);\n"
            "    r_d();\n"
            "    ~both(3); r_e();\n"
            "    end;\n"
            "}\n")


def macro_map_rule(chk: Check, ctx: Any, rule: str) -> None:
    import bisect
    import posixpath
    repo = ctx.repo
    g = ctx.grammar_exps
    P = _pipe(ctx)
    I = P.I
    anchor = repo.func("explorerscript.macro:ExplorerScriptMacro._build_op")
    files = dict(MAP_PROJECT)
    files["/proj/main.exps"] = MAP_MAIN
    # expectations from the grammar's parse trees of the files
    where_op: dict[str, tuple[str | None, str | None, int, int]] = {}  # op name -> (file relative to main or None, macro or None, line0, col)
    calls: dict[tuple[str | None, str], list[tuple[int, int]]] = {}  # (file of the call, called macro) -> positions
    first_op: dict[str, str] = {}  # macro -> name of its first operation
    call_owner: dict[tuple[Any, int, int], str | None] = {}  # call site -> macro that contains it (None: a routine)
    marks_src: list[tuple[str, Any]] = []
    for path, text in files.items():
        tree = g.parse_text("start", text)
        if tree is None:
            chk.unknown(rule, "macro-map:project", anchor, f"{path} of the sample project does not parse with the grammar")
            return
        starts = [0] + [i + 1 for i, ch in enumerate(text) if ch == "\n"]

        def pos(p: int, starts: list[int] = starts) -> tuple[int, int]:
            i = bisect.bisect_right(starts, p) - 1
            return i, p - starts[i]
        rel = None if path == "/proj/main.exps" else posixpath.relpath(path, "/proj")

        def visit(n: Any, macro: str | None) -> None:
            if n.rule == "macrodef":
                macro = n.tok("IDENTIFIER").text
            if n.rule == "operation":
                nm = n.tok("IDENTIFIER").text
                where_op[nm] = (rel, macro, *pos(n.first_token().pos))
                if macro is not None and macro not in first_op:
                    first_op[macro] = nm
            if n.rule == "macro_call":
                callee = n.tok("MACRO_CALL").text[1:]
                calls.setdefault((rel, callee), []).append(pos(n.first_token().pos))
                call_owner[(rel, *pos(n.first_token().pos))] = macro
                if macro is not None and macro not in first_op:
                    first_op[macro] = "~" + callee
            for ch in n.children:
                if hasattr(ch, "rule"):
                    visit(ch, macro)
        visit(tree, None)
    try:
        c = P.compile_exps(MAP_MAIN, "/proj/main.exps", MAP_PROJECT)
    except PyExc as e:
        chk.violation(rule, "macro-map:project", anchor, f"the sample project is valid but compilation fails with {e.cls_name}: {e.msg}")
        return
    except (Unsupported, AnalysisError) as e:
        chk.unknown(rule, "macro-map:project", anchor, f"abstract interpretation left the modelled subset: {e}")
        return
    sm = c.attrs["source_map"]
    direct = sm.attrs.get("_mappings", {})
    macros = sm.attrs.get("_mappings_macros", {})
    ops = [op for r in c.attrs["routine_ops"] for op in r]
    problems: dict[str, list[str]] = {"entry": [], "file": [], "position": [], "call": [], "return": []}
    n_macro_ops = 0
    for idx, op in enumerate(ops):
        off = op.attrs["offset"]
        nm = op.attrs["op_code"].attrs["name"]
        if nm not in where_op:
            # generated jump/branch of an if inside a macro: an entry must exist, its file/macro must be those of the surrounding expansion
            if off not in direct and off not in macros:
                problems["entry"].append(f"op {off} {nm} has no entry")
            continue
        rel, macro, line, col = where_op[nm]
        if macro is None:
            e = direct.get(off)
            if e is None:
                problems["entry"].append(f"direct op {off} {nm} has no direct entry")
            elif (e.attrs["line"], e.attrs["column"]) != (line, col):
                problems["position"].append(f"direct op {nm}: recorded {(e.attrs['line'], e.attrs['column'])}, written at {(line, col)}")
            if off in macros:
                problems["entry"].append(f"direct op {off} {nm} also has a macro entry")
            continue
        n_macro_ops += 1
        e = macros.get(off)
        if e is None:
            problems["entry"].append(f"op {off} {nm} of macro {macro} has no macro entry")
            continue
        a = e.attrs
        if a.get("relpath_included_file") != rel:
            problems["file"].append(f"op {nm} of macro {macro}: file recorded as {a.get('relpath_included_file')!r}, defined in {rel!r} (relative to the compiled file; null = same file)")
        if a.get("macro_name") != macro:
            problems["file"].append(f"op {nm}: macro recorded as {a.get('macro_name')!r}, is {macro!r}")
        if (a.get("line"), a.get("column")) != (line, col):
            problems["position"].append(f"op {nm} of macro {macro}: recorded {(a.get('line'), a.get('column'))}, written at {(line, col)} in {rel or 'the compiled file'}")
        ci = a.get("called_in")
        is_first = first_op.get(macro) == nm
        if is_first:
            ok = isinstance(ci, tuple) and len(ci) == 3 and any((ci[1], ci[2]) in calls.get((f, macro), []) and ci[0] == f for f in {k[0] for k in calls if k[1] == macro})
            if not ok:
                problems["call"].append(f"first op {nm} of an expansion of {macro}: call position recorded as {ci!r}; calls of {macro} are at "
                                        f"{ {k[0]: v for k, v in calls.items() if k[1] == macro} } (file, line, column)")
        elif ci is not None:
            problems["call"].append(f"op {nm} is not the first op of an expansion of {macro} but carries a call position {ci!r}")
    # expansion instances, rebuilt from the call positions: an op that carries a call position opens an instance of its macro inside the
    # instance of the macro that contains the call; other ops belong to the innermost open instance of their macro
    stack: list[dict[str, Any]] = []
    instances: list[dict[str, Any]] = []
    for idx, op in enumerate(ops):
        e = macros.get(op.attrs["offset"])
        if e is None:
            stack = []
            continue
        a = e.attrs
        mname = a.get("macro_name")
        ci = a.get("called_in")
        if isinstance(ci, tuple) and len(ci) == 3:
            owner = call_owner.get((ci[0], ci[1], ci[2]), "?")
            if owner is not None and not any(x["macro"] == owner for x in stack):
                # the calling macro starts with this nested call: its own expansion opens at the same op (one op carries one call position)
                stack = []
                outer_inst = {"macro": owner, "ra": None, "first": idx, "last": idx, "ras": set()}
                instances.append(outer_inst)
                stack.append(outer_inst)
            while stack and stack[-1]["macro"] != owner:
                stack.pop()
            inst = {"macro": mname, "ra": a.get("return_addr"), "first": idx, "last": idx, "ras": {a.get("return_addr")}}
            instances.append(inst)
            stack.append(inst)
        else:
            while stack and stack[-1]["macro"] != mname:
                stack.pop()
            if not stack:
                problems["call"].append(f"op {op.attrs['offset']} of macro {mname} follows no op that opens an expansion of {mname}")
                continue
            stack[-1]["ras"].add(a.get("return_addr"))
        for inst in stack:
            inst["last"] = idx
    for inst in instances:
        last_off = ops[inst["last"]].attrs["offset"]
        next_off = ops[inst["last"] + 1].attrs["offset"] if inst["last"] + 1 < len(ops) else None
        for ra in inst["ras"]:
            if not isinstance(ra, int) or ra <= last_off or (next_off is not None and ra > next_off):
                problems["return"].append(f"expansion of {inst['macro']} (ops {ops[inst['first']].attrs['offset']}..{last_off}): return address {ra}; the first op after the "
                                          f"expansion is {next_off}")
    chk.floor(rule, "ops of macro expansions in the sample project", n_macro_ops, 12)
    text = {"entry": "every emitted op has an entry (direct ops a direct one, ops of expansions a macro entry)",
            "file": "macro entries name the defining file relative to the compiled file and the macro",
            "position": "entries carry the zero-based position of the op's statement in its defining file",
            "call": "exactly the first op of an expansion carries the position (file, line, column) of the call",
            "return": "the return address lies after every op of the expansion and not after the first op following it"}
    for k, lst in problems.items():
        chk.decide(rule, f"macro-map:{k}", not lst, anchor, "; ".join(lst[:3]), text[k])
    # files named = imported files that contributed ops
    named = {e.attrs.get("relpath_included_file") for e in macros.values()} - {None}
    contributing = {where_op[op.attrs["op_code"].attrs["name"]][0] for op in ops if op.attrs["op_code"].attrs["name"] in where_op} - {None}
    chk.decide(rule, "macro-map:files", named == contributing, anchor,
               f"macro entries name the files {sorted(named)}; the imported files that contributed ops are {sorted(contributing)}", "files named = files that contributed ops")
    # IncludedUsageMap: the files a script depends on
    try:
        ium_cls = repo.find_class("IncludedUsageMap")
        ium = I.new(ium_cls, sm, "/proj/main.exps")
        got_files = set(ium.attrs.get("included_files", set()))
        want_files = {posixpath.normpath(posixpath.join("/proj", f)) for f in contributing}
        chk.decide(rule, "macro-map:included-usage-map", got_files == want_files, repo.func("explorerscript.included_usage_map:IncludedUsageMap.__init__"),
                   f"IncludedUsageMap lists {sorted(got_files)}; the imported files that contributed ops are {sorted(want_files)}", "included files = files that contributed ops")
    except (PyExc, Unsupported, AnalysisError) as e:
        chk.unknown(rule, "macro-map:included-usage-map", anchor, f"IncludedUsageMap not evaluated: {e}")
    # position marks = marks in emitted parameters
    emitted = []
    for op in ops:
        for p in op.attrs["params"]:
            if isinstance(p, AObj) and p.cls.name == "SsbOpParamPositionMarker":
                emitted.append((p.attrs["name"], p.attrs["x_offset"], p.attrs["y_offset"], p.attrs["x_relative"], p.attrs["y_relative"]))
    rec = []
    for m in sm.attrs.get("_position_marks", []):
        rec.append((m.attrs["name"], m.attrs["x_offset"], m.attrs["y_offset"], m.attrs["x_relative"], m.attrs["y_relative"]))
    for y in sm.attrs.get("_position_marks_macro", []):
        m = y[2]
        rec.append((m.attrs["name"], m.attrs["x_offset"], m.attrs["y_offset"], m.attrs["x_relative"], m.attrs["y_relative"]))
    chk.decide(rule, "macro-map:marks", sorted(rec) == sorted(emitted), anchor,
               f"recorded position marks {sorted(rec)} differ from the marks in the emitted parameters {sorted(emitted)}", "one recorded mark per mark parameter")
