"""REAL code: decompile-time source map on random programs: every entry points at the start of the statement printed for its op;
recompiling the text places the op on the same line."""
import random, sys, collections, logging, warnings, re
warnings.filterwarnings("ignore"); logging.disable(logging.CRITICAL)
sys.path.insert(0,'/verif/witness')
from oplevel_probe import DMC
import random_programs as randprog
from explorerscript.ssb_converting.ssb_compiler import ExplorerScriptSsbCompiler
from explorerscript.ssb_converting.ssb_decompiler import ExplorerScriptSsbDecompiler
c=collections.Counter(); shown=0
for seed in range(int(sys.argv[1]),int(sys.argv[2])):
    g=randprog.G(random.Random(seed)); r=random.Random(seed)
    src="\n".join(g.routine(i) for i in range(r.randint(1,2)))
    try:
        cc=ExplorerScriptSsbCompiler("$PERF"); cc.compile(src,"/x.exps")
    except Exception: c['not-compiled']+=1; continue
    if sum(len(x) for x in cc.routine_ops)>60: c['big']+=1; continue
    text,sm=ExplorerScriptSsbDecompiler(cc.routine_infos,cc.routine_ops,[],"$PERF",DMC).convert()
    if text.startswith('//?:'): c['fallback']+=1; continue
    lines=text.split("\n")
    by_off={op.offset:op for rr in cc.routine_ops for op in rr}
    probs=[]
    for off,m in sm._mappings.items():
        if off not in by_off: probs.append(f"entry {off} no op"); continue
        nm=by_off[off].op_code.name
        if not (0<=m.line<len(lines)) or m.column>len(lines[m.line]): probs.append(f"{nm}@{off} outside text {m.line},{m.column}"); continue
        rest=lines[m.line][m.column:]
        if re.match(r"op\d+$",nm):
            if not rest.startswith(nm+"("): probs.append(f"{nm}@{off} -> {rest[:20]!r}")
        elif nm=="Branch":
            if not re.match(r"(if|elseif)\b",rest): probs.append(f"Branch@{off} -> {rest[:20]!r}")
        elif nm=="Switch":
            if not rest.startswith("switch"): probs.append(f"Switch@{off} -> {rest[:20]!r}")
        elif nm=="Case":
            if not rest.startswith("case"): probs.append(f"Case@{off} -> {rest[:20]!r}")
        elif nm in ("End","Return","Hold"):
            if not rest.startswith(nm.lower()+";"): probs.append(f"{nm}@{off} -> {rest[:20]!r}")
        elif nm=="Jump":
            if not re.match(r"(jump @|continue;|break_loop;|break;)",rest): probs.append(f"Jump@{off} -> {rest[:25]!r} (line {m.line})")
        elif nm.startswith("flag_"):
            if not rest.startswith("$"): probs.append(f"{nm}@{off} -> {rest[:20]!r}")
    # every plain op printed has an entry
    for off,op in by_off.items():
        if re.match(r"op\d+$",op.op_code.name) and (op.op_code.name+"(") in text and off not in sm._mappings: probs.append(f"{op.op_code.name} printed without entry")
    # recompile: same line
    try:
        c2=ExplorerScriptSsbCompiler("$PERF"); c2.compile(text,"/x.exps")
        line2={}
        for rr in c2.routine_ops:
            for op in rr:
                if re.match(r"op\d+$",op.op_code.name):
                    l=c2.source_map._mappings.get(op.offset)
                    if l: line2.setdefault(op.op_code.name,set()).add(l.line)
        for off,m in sm._mappings.items():
            nm=by_off[off].op_code.name if off in by_off else None
            if nm and nm in line2 and m.line not in line2[nm]: probs.append(f"{nm}: decompiler line {m.line}, recompiled {sorted(line2[nm])}")
    except Exception as ex:
        probs.append("recompile: "+str(ex)[:50])
    if probs:
        c['BAD']+=1
        if shown<5: shown+=1; print('BAD',seed,probs[:3]); print(text[:700])
    else: c['ok']+=1
print(dict(c))
