from wlib import *
import logging
logging.disable(logging.CRITICAL)
for src in ["def 0 { switch ($W) { case 1: case 2: c(); break; } end; }", "def 0 { switch ($W) { case 1: c(); break; } end; }",
            "def 0 { x(); switch ($W) { case 1: case 2: c(); break; } y(); end; }",
            "def 0 { if ($V == 1) { a(); } switch ($W) { case 1: case 2: c(); break; } y(); end; }",
            "def 0 { if ($V == 1) { a(); } else { b(); } switch ($W) { case 1: c(); break; case 2: d(); break; default: e(); break; } y(); end; }"]:
    c = comp(src); txt, sm = decomp(c)
    print(src); print(txt)
