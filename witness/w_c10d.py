from wlib import *
import tempfile, os
d = tempfile.mkdtemp()
open(os.path.join(d, "lib.exps"), "w").write("macro m() { a(); }\ndef 0 { b(); }\n")
main = os.path.join(d, "main.exps")
src = 'import "./lib.exps";\ndef 0 { ~m(); }\n'
try:
    c = comp(src, main); show(c); print("ACCEPTED (should be rejected: routines in an imported file)")
except Exception as e:
    print(type(e).__name__, e)
