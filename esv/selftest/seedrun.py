"""Run checks against a seeded change applied to a scratch copy: python -m esv.selftest.seedrun <dir with patch.diff> [PROP ...]"""

from __future__ import annotations

import json
import subprocess
import sys
from pathlib import Path

from .scratch import scratch_repo, run_check


def apply_patch(root: Path, patch: Path) -> None:
    p = subprocess.run(["git", "apply", "--whitespace=nowarn", str(patch)], cwd=str(root), capture_output=True, text=True)
    if p.returncode != 0:
        raise RuntimeError(f"patch does not apply: {p.stderr}")


def run_seed(seed: Path, props: list[str]) -> dict[str, tuple[int, list[str]]]:
    out = {}
    with scratch_repo() as r:
        apply_patch(r, seed / "patch.diff")
        for prop in props:
            code, text = run_check(r, prop)
            lines = [l for l in text.splitlines() if "VIOLATION" in l or "ANALYSIS-ERROR" in l or "C" in l[:60] and "]: " in l]
            out[prop] = (code, lines)
    return out


if __name__ == "__main__":
    seed = Path(sys.argv[1])
    props = sys.argv[2:]
    if not props:
        meta = json.load(open(seed / "meta.json"))
        props = [meta["property"]]
    for prop, (code, lines) in run_seed(seed, props).items():
        print(f"--- {seed} {prop}: exit {code}")
        for l in lines[:8]:
            print("   ", l[:300])
