"""Verdict bookkeeping, evidence files, known findings, exit codes."""

from __future__ import annotations

import ast
import hashlib
import json
import os
import time
from dataclasses import dataclass, field
from pathlib import Path
from typing import Any

from .loader import Repo, Func, Mod, norm, AnalysisError

VERIF = Path(__file__).resolve().parents[2]
EVIDENCE_DIR = Path(os.environ.get("ESV_EVIDENCE_DIR", str(VERIF / "evidence")))
KNOWN_FILE = VERIF / "known_findings.json"


@dataclass
class Loc:
    file: str
    line: int
    func: str = ""

    def __str__(self) -> str:
        return f"{self.file}:{self.line}" + (f" {self.func}" if self.func else "")


def loc_of(where: Any, node: ast.AST | None = None) -> Loc:
    if isinstance(where, Loc):
        return where
    if isinstance(where, Func):
        n = node if node is not None else where.node
        return Loc(where.mod.relpath, getattr(n, "lineno", where.node.lineno), where.short)
    if isinstance(where, Mod):
        return Loc(where.relpath, getattr(node, "lineno", 1) if node is not None else 1, "")
    if isinstance(where, tuple) and len(where) == 2:
        return Loc(str(where[0]), int(where[1]))
    return Loc(str(where), 0)


@dataclass
class Finding:
    rule: str
    key: str
    verdict: str  # HOLD | VIOLATION | UNKNOWN
    loc: Loc
    msg: str
    facts: Any = None

    def ident(self) -> str:
        return f"{self.rule}|{self.key}"

    def as_json(self) -> dict[str, Any]:
        return {
            "rule": self.rule,
            "key": self.key,
            "verdict": self.verdict,
            "file": self.loc.file,
            "line": self.loc.line,
            "function": self.loc.func,
            "message": self.msg,
            "facts": self.facts,
        }


class Check:
    """One run of one property's rule set."""

    def __init__(self, prop: str, tier: str, repo: Repo, level: str = "other") -> None:
        self.prop = prop
        self.tier = tier
        self.repo = repo
        self.level = level
        self.findings: list[Finding] = []
        self.rules: dict[str, str] = {}
        self.floors: list[dict[str, Any]] = []
        self.consulted: set[str] = set()
        self.explanation = ""
        self.assumptions: list[str] = []
        self.trusted_base: list[str] = []
        self.extra: dict[str, Any] = {}
        self.t0 = time.time()
        self._seen: set[str] = set()

    # ------------------------------------------------------------------ recording
    def rule(self, rid: str, text: str) -> None:
        self.rules[rid] = text

    def _add(self, rule: str, key: str, verdict: str, where: Any, msg: str, facts: Any, node: ast.AST | None) -> None:
        loc = loc_of(where, node)
        if loc.file:
            self.consulted.add(loc.file)
        k = key
        n = 2
        while f"{rule}|{k}" in self._seen:
            k = f"{key}#{n}"
            n += 1
        self._seen.add(f"{rule}|{k}")
        self.findings.append(Finding(rule, k, verdict, loc, msg, facts))

    def hold(self, rule: str, key: str, where: Any, msg: str = "", facts: Any = None, node: ast.AST | None = None) -> None:
        self._add(rule, key, "HOLD", where, msg, facts, node)

    def violation(self, rule: str, key: str, where: Any, msg: str, facts: Any = None, node: ast.AST | None = None) -> None:
        self._add(rule, key, "VIOLATION", where, msg, facts, node)

    def unknown(self, rule: str, key: str, where: Any, msg: str, facts: Any = None, node: ast.AST | None = None) -> None:
        self._add(rule, key, "UNKNOWN", where, msg, facts, node)

    def decide(self, rule: str, key: str, ok: bool | None, where: Any, msg_bad: str, msg_ok: str = "", facts: Any = None,
               node: ast.AST | None = None) -> None:
        if ok is None:
            self.unknown(rule, key, where, msg_bad, facts, node)
        elif ok:
            self.hold(rule, key, where, msg_ok, facts, node)
        else:
            self.violation(rule, key, where, msg_bad, facts, node)

    def floor(self, rule: str, what: str, count: int, minimum: int) -> None:
        self.floors.append({"rule": rule, "what": what, "count": count, "floor": minimum, "ok": count >= minimum})
        if count < minimum:
            self.unknown(rule, f"floor:{what}", Loc("", 0), f"instance floor not met for {what}: {count} < {minimum} "
                         "(the rule would pass vacuously; anchors moved or idiom changed)")

    # ------------------------------------------------------------------ finishing
    def finish(self, seed: int, replay_filter: str | None = None) -> int:
        known = load_known()
        wall = time.time() - self.t0
        viol = [f for f in self.findings if f.verdict == "VIOLATION"]
        unk = [f for f in self.findings if f.verdict == "UNKNOWN"]
        holds = [f for f in self.findings if f.verdict == "HOLD"]
        if replay_filter:
            viol = [f for f in viol if f.ident() == replay_filter]
            unk = [f for f in unk if f.ident() == replay_filter]
        known_hits: list[tuple[Finding, dict[str, Any]]] = []
        new_viol: list[Finding] = []
        for f in viol:
            # an entry names the failing construct by the exact instance key, or - for an input that a rule evaluates in several places
            # (depths, statement kinds, pairings) - by the input's own text inside the key ("key_contains"); "msg_contains" narrows an entry to
            # one way of failing (the printed text is rejected) so that the same input failing otherwise (a changed value) is still reported
            ent = next((k for k in known if k.get("property") == self.prop and k.get("rule") == f.rule and k.get("status") == "known"
                        and (k.get("key") == f.key or (k.get("key_contains") and k["key_contains"] in f.key))
                        and (not k.get("msg_contains") or k["msg_contains"] in f.msg)), None)
            if ent is not None:
                known_hits.append((f, ent))
            else:
                new_viol.append(f)

        print(f"== {self.prop} tier={self.tier} repo={self.repo.root} rules={len(self.rules)} "
              f"instances={len(self.findings)} hold={len(holds)} violation={len(viol)} unknown={len(unk)} "
              f"wall={wall:.2f}s")
        for fl in self.floors:
            print(f"   floor {fl['rule']} {fl['what']}: {fl['count']} (>= {fl['floor']}) {'ok' if fl['ok'] else 'NOT MET'}")
        for f, ent in known_hits:
            ident = f.key if len(f.key) <= 160 else f.key[:157] + "..."
            print(f"KNOWN-FINDING: property={self.prop} {f.rule} {f.loc} [{ident}] {ent.get('what', f.msg)}")
        replay_paths = []
        for f in new_viol:
            rp = self._write_replay(f)
            replay_paths.append(rp)
            print(f"{f.loc} {f.rule} [{f.key}]: {f.msg}")
            print(f"VIOLATION property={self.prop} replay={rp}")
        for f in unk:
            print(f"ANALYSIS-ERROR property={self.prop} {f.rule} {f.loc} [{f.key}]: {f.msg}")

        self._write_evidence(seed, wall, holds, viol, unk, known_hits, new_viol)
        if new_viol:
            return 1
        if unk:
            return 2
        return 0

    def _write_replay(self, f: Finding) -> str:
        d = EVIDENCE_DIR / "replay"
        d.mkdir(parents=True, exist_ok=True)
        h = hashlib.sha256(f.ident().encode()).hexdigest()[:10]
        p = d / f"{self.prop}-{f.rule}-{h}.json"
        p.write_text(json.dumps({"property": self.prop, "ident": f.ident(), **f.as_json(),
                                 "rule_text": self.rules.get(f.rule, "")}, indent=1, default=str))
        return str(p)

    def _write_evidence(self, seed: int, wall: float, holds: list[Finding], viol: list[Finding], unk: list[Finding],
                        known_hits: list[tuple[Finding, dict[str, Any]]], new_viol: list[Finding]) -> None:
        EVIDENCE_DIR.mkdir(parents=True, exist_ok=True)
        per_rule: dict[str, dict[str, int]] = {}
        for f in self.findings:
            r = per_rule.setdefault(f.rule, {"HOLD": 0, "VIOLATION": 0, "UNKNOWN": 0})
            r[f.verdict] += 1
        samples: list[dict[str, Any]] = []
        seen_rules: dict[str, int] = {}
        for f in self.findings:
            if seen_rules.get(f.rule, 0) < (4 if self.tier == "quick" else 8) or f.verdict != "HOLD":
                seen_rules[f.rule] = seen_rules.get(f.rule, 0) + 1
                samples.append(f.as_json())
        obligations = len(self.findings)
        discharged = len(holds)
        consulted = sorted(x for x in self.consulted if x)
        cov: dict[str, Any] = {
            "obligations": obligations,
            "discharged": discharged,
            "evaluations": obligations,
            "distinct_nontrivial": len({f.ident() for f in self.findings}),
            "rule": "one obligation per rule instance (a construct of /repo selected by the rule's role query); "
                    "distinct = distinct (rule, construct key); every instance is non-trivial by construction "
                    "because rules only enumerate constructs that play the rule's role",
            "rules": self.rules,
            "per_rule": per_rule,
            "samples": samples[:120],
            "floors": self.floors,
            "explanation": self.explanation,
            "checker_cmd": f"/venv/bin/python -m esv check {self.prop} --tier {self.tier}",
            "trusted_base": self.trusted_base or ["CPython ast parser", "the rule tables under /verif/esv/spec"],
            "consulted_files": {p: self.repo.digests.get(p, "") for p in consulted},
            "modules_parsed": len(self.repo.modules),
            "known_findings_matched": [f.ident() for f, _ in known_hits],
            "unknown": [f.as_json() for f in unk][:40],
            "exhaustive": True,
        }
        cov.update(self.extra)
        ev = {
            "property_id": self.prop,
            "tier": self.tier,
            "seed": seed,
            "level": self.level,
            "coverage": cov,
            "assumptions": self.assumptions,
            "wall_s": round(wall, 3),
            "violations": len(new_viol),
        }
        (EVIDENCE_DIR / f"{self.prop}.json").write_text(json.dumps(ev, indent=1, default=str))


def load_known() -> list[dict[str, Any]]:
    if not KNOWN_FILE.is_file():
        return []
    try:
        data = json.loads(KNOWN_FILE.read_text())
    except Exception as e:  # pragma: no cover
        raise AnalysisError(f"known_findings.json unreadable: {e}")
    return list(data.get("findings", []))


def fkey(func: Func | None, node: ast.AST | None = None, extra: str = "") -> str:
    """Construct key: qualified function + normalised statement text (never a line number)."""
    parts = []
    if func is not None:
        parts.append(func.qual)
    if node is not None:
        parts.append(norm(node))
    if extra:
        parts.append(extra)
    return " :: ".join(parts)
