"""C15-R7: the two command-line programs, run as programs.

The `__main__` blocks of `explorerscript.cli.compile` and `explorerscript.cli.decompile` are interpreted (engine.clirun) on a virtual
file system with a working directory and an argument vector; what is compared is what a shell sees: exit status, standard output,
standard error, files written.  The oracle for the printed document is /verif's own reading of docs/cli_api_usage.rst
(`doc_to_ops`), not the repository's reader.
"""

from __future__ import annotations

import json
from typing import Any

from ..engine.absint import AObj, PyExc, Unsupported
from ..engine.loader import AnalysisError
from ..engine.report import Check

SPECIAL = "explorerscript.ssb_converting.ssb_special_ops"
SETTINGS = {"settings": {"performance_progress_list_var_name": "$PERF",
                         "dungeon_mode_constants": {"open": "DM_O", "closed": "DM_C", "request": "DM_R", "open_request": "DM_OR"}}}
# which state each settings key stands for (docs: "the constants that should be used for the dungeon mode states"; 0 closed, 1 open, 2 request, 3 both)
DMODE_KEY_OF_STATE = {0: "closed", 1: "open", 2: "request", 3: "open_request"}
ROUTINE_TYPES = {"COROUTINE", "GENERIC", "ACTOR", "OBJECT", "PERFORMER"}
PARAM_TYPES = {"FIXED_POINT", "CONSTANT", "CONST_STRING", "LANG_STRING", "POSITION_MARK"}

PROJECT = {
    "/work/settings.json": json.dumps(SETTINGS),
    "/work/proj/SCRIPT/main.exps": (
        "import 'lib.exps';\nimport 'more.exps';\n"
        "coro CORO_X { ~m(1); return; }\n"
        "def 0 { a(1, -2, 1.5, CONST, 'text', {english='e', german='g'}, Position<'m', 3, 4.5>); if ($A == 1) { if ($B == 2) { b(); } else { c(); } } d(); jump @far; }\n"
        "def 1 for actor 5 { ~n('s'); switch ($S) { case 1: f(); break; case 2: case 3: g(); default: h(); } §far; i(); hold; }\n"
        "def 2 for object OBJ_NAME { while ($W < 3) { j(); } end; }\n"
        "def 3 for performer 0 { forever { k(); if (debug) { break_loop; } } end; }\n"
        "def 4 { alias previous; }\n"),
    "/work/proj/macros/lib.exps": "macro m($x) { f($x); if ($x == 1) { return; } g(); }\n",
    "/work/proj/more/more.exps": "macro n($s) { say($s); }\n",
}


def _routine_docs_problem(doc: Any) -> str | None:
    if not isinstance(doc, dict) or set(doc) != {"settings", "routines"}:
        return f"top-level keys are {sorted(doc) if isinstance(doc, dict) else type(doc).__name__}, documented: settings, routines"
    if not isinstance(doc["routines"], list):
        return "`routines` is not a list"
    for ri, r in enumerate(doc["routines"]):
        if not isinstance(r, dict) or r.get("type") not in ROUTINE_TYPES:
            return f"routine {ri}: type {r.get('type') if isinstance(r, dict) else r!r} is not a documented routine type"
        want = {"type", "ops"} | ({"name"} if r["type"] == "COROUTINE" else set()) | ({"target_id"} if r["type"] in ("ACTOR", "OBJECT", "PERFORMER") else set())
        if set(r) != want:
            return f"routine {ri} ({r['type']}): keys {sorted(r)}, documented {sorted(want)}"
        if r["type"] == "COROUTINE" and not isinstance(r["name"], str):
            return f"routine {ri}: coroutine name {r['name']!r} is not a string"
        if "target_id" in r and not isinstance(r["target_id"], (int, str)) or isinstance(r.get("target_id"), bool):
            return f"routine {ri}: target_id {r.get('target_id')!r} is neither an integer nor a string"
        if not isinstance(r["ops"], list):
            return f"routine {ri}: ops is not a list"
        for oi, op in enumerate(r["ops"]):
            if not isinstance(op, dict) or set(op) != {"opcode", "params"} or not isinstance(op["opcode"], str) or not isinstance(op["params"], list):
                return f"routine {ri}, op {oi}: {str(op)[:80]} is not {{opcode, params}}"
            for p in op["params"]:
                if isinstance(p, bool) or not (isinstance(p, int) or (isinstance(p, dict) and set(p) == {"type", "value"} and p["type"] in PARAM_TYPES)):
                    return f"routine {ri}, op {oi}: parameter {str(p)[:60]} is not a documented argument encoding"
                if isinstance(p, dict):
                    v = p["value"]
                    okv = {"FIXED_POINT": isinstance(v, (str, int, float)) and not isinstance(v, bool), "CONSTANT": isinstance(v, str), "CONST_STRING": isinstance(v, str),
                           "LANG_STRING": isinstance(v, dict) and all(isinstance(k, str) and isinstance(x, str) for k, x in v.items()),
                           "POSITION_MARK": isinstance(v, dict) and set(v) == {"name", "x", "y"}}[p["type"]]
                    if not okv:
                        return f"routine {ri}, op {oi}: value of {p['type']} is {str(v)[:60]}"
    return None


def doc_to_ops(P: Any, doc: Any) -> tuple[list[Any], list[list[Any]], list[Any]]:
    """The routine set a document denotes, read as docs/cli_api_usage.rst describes it (op number = 1-based position across routines)."""
    infos, ops, names = [], [], []
    pos = 0
    for r in doc["routines"]:
        t = r["type"]
        if t == "COROUTINE":
            infos.append(P.info("COROUTINE", -1))
            names.append(r["name"])
        elif t == "GENERIC":
            infos.append(P.info("GENERIC", -1))
            names.append(None)
        else:
            tid = r["target_id"]
            infos.append(P.info(t, tid if isinstance(tid, int) else -1, None if isinstance(tid, int) else str(tid)))
            names.append(None)
        lst = []
        for op in r["ops"]:
            pos += 1
            ps = []
            for p in op["params"]:
                if isinstance(p, int):
                    ps.append(p)
                elif p["type"] == "CONSTANT":
                    ps.append(P.param("SsbOpParamConstant", p["value"]))
                elif p["type"] == "CONST_STRING":
                    ps.append(P.param("SsbOpParamConstString", p["value"]))
                elif p["type"] == "LANG_STRING":
                    ps.append(P.param("SsbOpParamLanguageString", dict(p["value"])))
                elif p["type"] == "FIXED_POINT":
                    ps.append(f"fixed:{p['value']}")
                else:
                    ps.append(f"mark:{p['value']['name']}:{float(str(p['value']['x']))}:{float(str(p['value']['y']))}")
            lst.append(P.op(pos, op["opcode"], ps))
        ops.append(lst)
    return infos, ops, names


def neutral_ops(P: Any, routines: list[list[Any]]) -> list[list[Any]]:
    """Compiled ops with fixed-point numbers and position marks written the way `doc_to_ops` writes them (values, not objects)."""
    out = []
    for r in routines:
        lst = []
        for op in r:
            ps = []
            for p in op.attrs["params"]:
                if isinstance(p, AObj) and p.cls.name == "SsbOpParamFixedPoint":
                    ps.append(f"fixed:{P.I.str_(p)}")
                elif isinstance(p, AObj) and p.cls.name == "SsbOpParamPositionMarker":
                    a = p.attrs
                    ps.append(f"mark:{a['name']}:{float(a['x_relative']) + (0.5 if a['x_offset'] >= 2 else 0.0)}:{float(a['y_relative']) + (0.5 if a['y_offset'] >= 2 else 0.0)}")
                else:
                    ps.append(p)
            lst.append(P.op(op.attrs["offset"], op.attrs["op_code"].attrs["name"], ps))
        out.append(lst)
    return out


def cli_main_rule(chk: Check, ctx: Any, rule: str) -> None:
    from ..engine.clirun import CliRunner
    from ..engine.sta import compiled_graph, bisimilar
    repo = ctx.repo
    fold = ctx.fold
    R = CliRunner(repo, fold)
    cmain = repo.mod("explorerscript.cli.compile")
    dmain = repo.mod("explorerscript.cli.decompile")
    branch = set(fold.const(f"{SPECIAL}:OPS_BRANCH")) | {"Case", "CaseMenu", "CaseMenu2", "CaseValue", "CaseVariable", "CaseScenario", "Call"}
    ends = set(fold.const(f"{SPECIAL}:OPS_THAT_END_CONTROL_FLOW")) - {fold.const(f"{SPECIAL}:OP_JUMP")}
    n = 0

    def guarded(key: str, where: Any, fn: Any) -> None:
        nonlocal n
        n += 1
        try:
            problem = fn()
            if problem is not None and problem.startswith("no document") or problem is not None and problem.startswith("no compilation"):
                return  # depends on a scenario that is already reported
            chk.decide(rule, key, not problem, where, problem or "", "as documented")
        except PyExc as e:
            chk.violation(rule, key, where, f"scenario `{key}`: {e.cls_name}: {e.msg} (at {e.where})")
        except (Unsupported, AnalysisError) as e:
            chk.unknown(rule, key, where, f"scenario `{key}`: abstract interpretation left the modelled subset: {e}")

    def graphs(P: Any, doc: Any) -> tuple[list[Any], list[Any], list[Any]]:
        infos, ops, names = doc_to_ops(P, doc)
        _g, e = compiled_graph(P.I, ops, branch, ends)
        kinds = [(i.attrs["type"].name, i.attrs["linked_to"] if i.attrs["type"].name in ("ACTOR", "OBJECT", "PERFORMER") else 0, i.attrs["linked_to_name"]) for i in infos]
        return kinds, e, names

    state: dict[str, Any] = {}

    # ---- 1. the documented call: source outside the working directory, relative lookup paths, the option given twice
    def s_compile() -> str | None:
        r = R.run("explorerscript.cli.compile", ["proj/SCRIPT/main.exps", "--settings", "settings.json", "--lookup", "proj/macros", "--lookup", "proj/more",
                                                 "--source-map", "out/main.sm"], dict(PROJECT, **{"/work/out/.keep": ""}), "/work")
        state["compile"] = r
        if r["exit"] != 0:
            return (f"`compile proj/SCRIPT/main.exps --settings settings.json --lookup proj/macros --lookup proj/more` (working directory /work, both macro files exist) "
                    f"exits with status {r['exit']}: {r['stderr'].strip()[-200:]}")
        try:
            doc = json.loads(r["stdout"])
        except json.JSONDecodeError as ex:
            return f"standard output is not JSON: {ex}"
        state["doc"] = doc
        p = _routine_docs_problem(doc)
        if p:
            return "the printed document does not have the documented structure: " + p
        if doc["settings"] != SETTINGS["settings"]:
            return "the settings block of the printed document differs from the settings given"
        return None
    guarded("compile:documented-call", cmain, s_compile)

    def s_jumps() -> str | None:
        if "doc" not in state:
            return "no document (see compile:documented-call)"
        doc = state["doc"]
        P = state["compile"]["pipe"]
        total = sum(len(r["ops"]) for r in doc["routines"])
        jidx = dict(fold.const(f"{SPECIAL}:OPS_WITH_JUMP_TO_MEM_OFFSET"))
        for r in doc["routines"]:
            for op in r["ops"]:
                if op["opcode"] in jidx and len(op["params"]) > jidx[op["opcode"]]:
                    t = op["params"][jidx[op["opcode"]]]
                    if not (isinstance(t, int) and 1 <= t <= total):
                        return f"jump parameter {t!r} of {op['opcode']} is not the 1-based position of an op (the document has {total} ops)"
        # the same program compiled directly: same routine table and behaviour
        from ..engine.pipeline import Pipeline
        P2 = Pipeline(repo, fold, max_steps=6_000_000)
        c = P2.compile_exps(PROJECT["/work/proj/SCRIPT/main.exps"], "/work/proj/SCRIPT/main.exps", {k: v for k, v in PROJECT.items() if k.endswith(".exps")},
                            ["/work/proj/macros", "/work/proj/more"], perf="$PERF")
        _g, e_ref = compiled_graph(P2.I, neutral_ops(P2, c.attrs["routine_ops"]), branch, ends)
        kinds_ref = [(i.attrs["type"].name, i.attrs["linked_to"] if i.attrs["type"].name in ("ACTOR", "OBJECT", "PERFORMER") else 0, i.attrs["linked_to_name"]) for i in c.attrs["routine_infos"]]
        names_ref = [nm if isinstance(nm, str) and kinds_ref[i][0] == "COROUTINE" else None for i, nm in enumerate(c.attrs["named_coroutines"])]
        kinds, e_doc, names = graphs(P2, doc)
        state["ref"] = (P2, kinds_ref, e_ref, names_ref)
        if [k[0] for k in kinds] != [k[0] for k in kinds_ref] or names != names_ref:
            return f"routine table of the document {list(zip(kinds, names))} differs from the compiled one {list(zip(kinds_ref, names_ref))}"
        for ri, (a, b) in enumerate(zip(e_doc, e_ref)):
            ok, why = bisimilar(a, b)
            if not ok:
                return f"routine {ri} of the printed document, read with 1-based op numbers, behaves differently from the compiled routine: {why}"
        return None
    guarded("compile:jump-parameters-are-positions", cmain, s_jumps)

    def s_smap() -> str | None:
        r = state.get("compile")
        if not r or r["exit"] != 0:
            return "no compilation (see compile:documented-call)"
        sm = r["files"].get("/work/out/main.sm")
        if sm is None:
            return "--source-map out/main.sm wrote no file"
        m = json.loads(sm)
        total = sum(len(x["ops"]) for x in state["doc"]["routines"])
        keys = sorted(int(k) for k in list(m.get("map", {})) + list(m.get("macros", {}).get("map", {})))
        if keys != list(range(1, total + 1)):
            return f"the source map written next to the document has entries for ops {keys[:12]}.. while the document numbers its ops 1..{total}"
        return None
    guarded("compile:source-map-uses-document-numbers", cmain, s_smap)

    # ---- 2. the decompile command on that document, and its text through the compile command again
    def s_decompile() -> str | None:
        if "doc" not in state or "ref" not in state:
            return "no document (see compile:documented-call)"
        files = {"/work/settings.json": PROJECT["/work/settings.json"], "/work/in/doc.json": json.dumps(state["doc"]), "/work/out/.keep": ""}
        r = R.run("explorerscript.cli.decompile", ["in/doc.json", "--source-map", "out/doc.sm"], files, "/work")
        if r["exit"] != 0:
            return f"`decompile in/doc.json` on the compile command's own output exits with status {r['exit']}: {r['stderr'].strip()[-200:]}"
        if "/work/out/doc.sm" not in r["files"]:
            return "--source-map out/doc.sm wrote no file"
        text = r["stdout"]
        r2 = R.run("explorerscript.cli.compile", ["back.exps", "--settings", "settings.json"], {"/work/settings.json": PROJECT["/work/settings.json"], "/work/back.exps": text}, "/work")
        if r2["exit"] != 0:
            return f"the text printed by the decompile command is not accepted by the compile command (status {r2['exit']}): {r2['stderr'].strip()[-200:]}"
        P2, kinds_ref, e_ref, names_ref = state["ref"]
        kinds, e_doc, names = graphs(P2, json.loads(r2["stdout"]))
        if kinds != kinds_ref or names != names_ref:
            return f"routine table after compile | decompile | compile: {list(zip(kinds, names))}, source: {list(zip(kinds_ref, names_ref))}"
        for ri, (a, b) in enumerate(zip(e_doc, e_ref)):
            ok, why = bisimilar(a, b)
            if not ok:
                return f"routine {ri} after compile | decompile | compile behaves differently from the source: {why}"
        return None
    guarded("decompile:own-output-round-trip", dmain, s_decompile)

    # ---- 3. a hand-written document with every documented routine and argument type; dungeon mode states
    def s_document() -> str | None:
        doc = {"settings": SETTINGS["settings"], "routines": [
            {"type": "COROUTINE", "name": "CORO_A", "ops": [{"opcode": "x", "params": [1, {"type": "FIXED_POINT", "value": "1.5"}, {"type": "CONSTANT", "value": "C_1"}]},
                                                           {"opcode": "Return", "params": []}]},
            {"type": "GENERIC", "ops": [{"opcode": "y", "params": [{"type": "CONST_STRING", "value": "it's \"q\""}, {"type": "LANG_STRING", "value": {"english": "Hello", "german": "Hallo\nWelt"}},
                                                                      {"type": "POSITION_MARK", "value": {"name": "mark", "x": 10, "y": 20.5}}]},
                                        {"opcode": "Branch", "params": [{"type": "CONSTANT", "value": "$V"}, 3, 6]}, {"opcode": "End", "params": []},
                                        {"opcode": "z", "params": []}, {"opcode": "Jump", "params": [3]}]},
            {"type": "ACTOR", "target_id": 7, "ops": [{"opcode": "flag_SetDungeonMode", "params": [5, 0]}, {"opcode": "flag_SetDungeonMode", "params": [5, 1]},
                                                      {"opcode": "flag_SetDungeonMode", "params": [5, 2]}, {"opcode": "flag_SetDungeonMode", "params": [5, 3]},
                                                      {"opcode": "Hold", "params": []}]},
            {"type": "OBJECT", "target_id": "OBJECT_X", "ops": [{"opcode": "w", "params": []}, {"opcode": "End", "params": []}]},
            {"type": "PERFORMER", "target_id": 2, "ops": [{"opcode": "Jump", "params": [17]}, {"opcode": "v", "params": []}, {"opcode": "End", "params": []}]},
        ]}
        r = R.run("explorerscript.cli.decompile", ["doc.json"], {"/work/doc.json": json.dumps(doc)}, "/work")
        if r["exit"] != 0:
            return f"a document with every documented routine and argument type is rejected (status {r['exit']}): {r['stderr'].strip()[-200:]}"
        text = r["stdout"]
        for st, keyname in DMODE_KEY_OF_STATE.items():
            want = f"dungeon_mode(5) = {SETTINGS['settings']['dungeon_mode_constants'][keyname]};"
            if want not in text:
                got = [ln.strip() for ln in text.split("\n") if "dungeon_mode(5)" in ln]
                return f"dungeon mode state {st} is the `{keyname}` constant of the settings ({want}); the decompile command prints {got}"
        r2 = R.run("explorerscript.cli.compile", ["back.exps", "--settings", "settings.json"], {"/work/settings.json": PROJECT["/work/settings.json"], "/work/back.exps": text}, "/work")
        if r2["exit"] != 0:
            return f"the text printed for the hand-written document is not accepted by the compile command (status {r2['exit']}): {r2['stderr'].strip()[-200:]}"
        from ..engine.pipeline import Pipeline
        P2 = Pipeline(repo, fold)
        # dungeon mode numbers come back as the constants that stand for them
        for op in doc["routines"][2]["ops"][:4]:
            op["params"][1] = {"type": "CONSTANT", "value": SETTINGS["settings"]["dungeon_mode_constants"][DMODE_KEY_OF_STATE[op["params"][1]]]}
        k1, e1, n1 = graphs(P2, doc)
        k2, e2, n2 = graphs(P2, json.loads(r2["stdout"]))
        if k1 != k2 or n1 != n2:
            return f"routine table {list(zip(k1, n1))} comes back as {list(zip(k2, n2))}"
        for ri, (a, b) in enumerate(zip(e2, e1)):
            ok, why = bisimilar(a, b)
            if not ok:
                return f"routine {ri} of the hand-written document behaves differently after decompile | compile: {why}"
        return None
    guarded("decompile:documented-document", dmain, s_document)

    # ---- 4. exit status: 0 exactly on success
    def status(module: str, argv: list[str], files: dict[str, str], want_ok: bool, what: str) -> Any:
        def f() -> str | None:
            r = R.run(module, argv, files, "/work")
            if want_ok and r["exit"] != 0:
                return f"{what}: exits with status {r['exit']} ({r['stderr'].strip()[-160:]})"
            if not want_ok and r["exit"] == 0:
                return f"{what}: exits with status 0 (standard output: {r['stdout'][:80]!r})"
            if not want_ok and not r["stderr"].strip():
                return f"{what}: fails with status {r['exit']} but prints nothing on standard error"
            return None
        return f
    ok_set = PROJECT["/work/settings.json"]
    C, D = "explorerscript.cli.compile", "explorerscript.cli.decompile"
    simple = "def 0 { a(); end; }\n"
    cases = [
        ("status:compile:ok", C, ["a.exps", "--settings", "settings.json"], {"/work/settings.json": ok_set, "/work/a.exps": simple}, True, "a valid program"),
        ("status:compile:absolute-paths", C, ["/data/a.exps", "--settings", "/etc/s.json"], {"/etc/s.json": ok_set, "/data/a.exps": simple}, True, "absolute paths"),
        ("status:compile:missing-source", C, ["nope.exps", "--settings", "settings.json"], {"/work/settings.json": ok_set}, False, "missing source file"),
        ("status:compile:missing-settings", C, ["a.exps", "--settings", "nope.json"], {"/work/a.exps": simple}, False, "missing settings file"),
        ("status:compile:no-settings-option", C, ["a.exps"], {"/work/a.exps": simple}, False, "no --settings option"),
        ("status:compile:settings-without-block", C, ["a.exps", "--settings", "settings.json"], {"/work/settings.json": "{}", "/work/a.exps": simple}, False, "settings file without the settings block"),
        ("status:compile:settings-incomplete", C, ["a.exps", "--settings", "settings.json"],
         {"/work/settings.json": json.dumps({"settings": {"performance_progress_list_var_name": "$P", "dungeon_mode_constants": {"open": "O"}}}), "/work/a.exps": simple}, False,
         "dungeon mode constants incomplete"),
        ("status:compile:syntax-error", C, ["a.exps", "--settings", "settings.json"], {"/work/settings.json": ok_set, "/work/a.exps": "def 0 { a(; }"}, False, "syntax error in the source"),
        ("status:compile:meaningless", C, ["a.exps", "--settings", "settings.json"], {"/work/settings.json": ok_set, "/work/a.exps": "def 0 { break; }"}, False, "break outside a switch"),
        ("status:compile:missing-import", C, ["a.exps", "--settings", "settings.json"], {"/work/settings.json": ok_set, "/work/a.exps": "import 'x.exps';\n" + simple}, False, "missing import"),
        ("status:decompile:ok", D, ["d.json"], {"/work/d.json": json.dumps({"settings": SETTINGS["settings"], "routines": [{"type": "GENERIC", "ops": [{"opcode": "End", "params": []}]}]})}, True,
         "a minimal document"),
        ("status:decompile:missing-file", D, ["nope.json"], {}, False, "missing document"),
        ("status:decompile:no-settings", D, ["d.json"], {"/work/d.json": json.dumps({"routines": []})}, False, "document without settings"),
        ("status:decompile:bad-routine-type", D, ["d.json"], {"/work/d.json": json.dumps({"settings": SETTINGS["settings"], "routines": [{"type": "THING", "ops": []}]})}, False, "unknown routine type"),
        ("status:decompile:routine-without-ops", D, ["d.json"], {"/work/d.json": json.dumps({"settings": SETTINGS["settings"], "routines": [{"type": "GENERIC"}]})}, False, "routine without ops"),
        ("status:decompile:bad-param", D, ["d.json"], {"/work/d.json": json.dumps({"settings": SETTINGS["settings"], "routines": [{"type": "GENERIC", "ops": [{"opcode": "a", "params": [{"type": "WHAT", "value": 1}]}]}]})},
         False, "unknown argument type"),
        ("status:decompile:not-json", D, ["d.json"], {"/work/d.json": "{not json"}, False, "a file that is not JSON"),
    ]
    for key, module, argv, files, want_ok, what in cases:
        guarded(key, cmain if module == C else dmain, status(module, argv, files, want_ok, what))
    chk.floor(rule, "command-line scenarios interpreted", n, 20)
