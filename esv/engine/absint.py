"""Abstract interpreter for the op-list builders of the compiler.

It evaluates the *syntax trees* of repository functions (handlers' ``collect``/``add``, ``_process_block``, the compiler
context, the label post-passes) over abstract objects: instances of in-repo classes are attribute maps, parse-tree
contexts are small configuration records, leaf statements are atoms.  Nothing of the repository is imported or run by
Python; every branch is decided by the abstract state, anything outside the modelled subset raises ``Unsupported``
(reported as UNKNOWN by the rules, never as a violation).
"""

from __future__ import annotations

import ast
import itertools
import operator
import re
from pathlib import PurePath
import itertools
from dataclasses import dataclass, field
from typing import Iterator, Any, Callable

from .loader import Repo, Cls, Func, Mod, dotted, AnalysisError, walk_no_nested
from .migraph import MGraph, MVertex, MEdge, MGraphError, _Seq as _MSeq
from .consts import Folder, NotConst, EnumMember, ClassRef, Opaque


class Unsupported(Exception):
    pass


class PyExc(Exception):
    """A Python-level exception raised by the interpreted code."""

    def __init__(self, cls_name: str, msg: str = "", where: str = "") -> None:
        super().__init__(f"{cls_name}: {msg}")
        self.cls_name = cls_name
        self.msg = msg
        self.where = where


class _Return(Exception):
    def __init__(self, value: Any) -> None:
        self.value = value


class _Break(Exception):
    pass


class _Continue(Exception):
    pass


_uid = itertools.count(1)


def _without_decorators(fn: ast.FunctionDef) -> ast.FunctionDef:
    import copy
    g = copy.copy(fn)
    g.decorator_list = [d for d in fn.decorator_list if (dotted(d) or (dotted(d.func) if isinstance(d, ast.Call) else "")) not in
                        ("lru_cache", "functools.lru_cache", "cache", "functools.cache")]
    return g


class NativeObj:
    """Base of /verif's own models of third-party objects (parser runtime, files): attribute access and calls go to the model."""


class AObj:
    """Instance of an in-repo class."""

    __slots__ = ("cls", "attrs", "uid")

    def __init__(self, cls: Cls) -> None:
        self.cls = cls
        self.attrs: dict[str, Any] = {}
        self.uid = next(_uid)

    def __repr__(self) -> str:
        return f"<{self.cls.name}#{self.uid}>"


@dataclass(eq=False)
class ClassVal:
    cls: Cls

    def __eq__(self, o: object) -> bool:
        return isinstance(o, ClassVal) and o.cls == self.cls

    def __hash__(self) -> int:
        return hash(("class", self.cls.qual))


@dataclass
class FuncVal:
    func: Func
    bound: Any = None  # self / cls


@dataclass
class Tok:
    text: str
    type: str = ""
    line: int = 1
    column: int = 0

    def __repr__(self) -> str:
        return f"Tok({self.text})"


class ACtx:
    """A parse-tree context reduced to what the handlers ask of it."""

    def __init__(self, rule: str, tokens: dict[str, Any] | None = None, subs: dict[str, Any] | None = None, line: int = 1, column: int = 0) -> None:
        self.rule = rule
        self.tokens = tokens or {}
        self.subs = subs or {}
        self.line = line
        self.column = column
        self.uid = next(_uid)
        self.children: list[Any] = []  # ACtx | Tok in source order (grammar-derived contexts only)
        self.freq: dict[str, int] | None = None  # element frequencies of the rule: accessor shape as in the generated parser
        self.stop_line = line
        self.stop_column = column + 1

    def __repr__(self) -> str:
        return f"<ctx {self.rule}#{self.uid}>"


class _Pos:
    def __init__(self, line: int, column: int) -> None:
        self.line = line
        self.column = column


@dataclass
class EnumVal:
    cls: Cls
    name: str
    value: Any

    def __hash__(self) -> int:
        return hash((self.cls.qual, self.name))

    def __eq__(self, other: object) -> bool:
        return isinstance(other, EnumVal) and other.cls.qual == self.cls.qual and other.name == self.name


class Env:
    def __init__(self, mod: Mod, locals_: dict[str, Any], func: Func | None, parent: "Env | None" = None) -> None:
        self.mod = mod
        self.locals = locals_
        self.func = func
        self.parent = parent  # enclosing function scope of a nested function / lambda


@dataclass(eq=False)
class Closure:
    """A nested function together with the scope it was defined in."""
    func: Func
    env: Env


BUILTIN_EXC = {"IndexError", "KeyError", "ValueError", "TypeError", "AssertionError", "StopIteration", "AttributeError", "Exception", "LookupError"}


class Interp:
    def __init__(self, repo: Repo, fold: Folder, max_steps: int = 400_000) -> None:
        self.repo = repo
        self.fold = fold
        self.steps = 0
        self.max_steps = max_steps
        self.depth = 0
        self.trace: list[str] = []
        self.caught: list[tuple[str, str, str, str]] = []  # exceptions the analysed code caught itself (diagnostics)
        self._globals: dict[tuple[str, str], Any] = {}
        self.natives: dict[str, Any] = {}  # models of third-party callables, by qualified name
        self.set_order_policy = 0  # 0: sets of graph elements are iterated by ascending element number, 1: descending
        self.set_order_choices = 0
        self.builtin_overrides: dict[str, Any] = {}  # print, exit, ... when a rule wants to observe them
        self.native_consts: dict[str, Any] = {}  # models of third-party objects, by qualified name
        self.natives["functools.reduce"] = self._reduce
        self.cur: tuple[str, int] = ("?", 0)
        self._lenient = 0  # > 0 while a message for an exception is being built (its text never matters)

    # ------------------------------------------------------------------ class bodies
    def class_ns(self, cls: Cls) -> dict[str, Any]:
        """The class's own namespace after its body ran (assignments and loops at class level; one object per interpreter, as in a process)."""
        cache = self.__dict__.setdefault("_class_ns", {})
        if cls.qual in cache:
            return cache[cls.qual]  # type: ignore[no-any-return]
        ns: dict[str, Any] = {}
        cache[cls.qual] = ns
        env = Env(cls.mod, ns, None)
        for st in cls.node.body:
            if isinstance(st, (ast.FunctionDef, ast.AsyncFunctionDef, ast.ClassDef, ast.Pass)):
                continue
            if isinstance(st, ast.Expr) and isinstance(st.value, ast.Constant):
                continue
            if isinstance(st, ast.AnnAssign) and st.value is None:
                continue
            try:
                self.exec_stmt(st, env)
            except (Unsupported, PyExc):
                # leave the names of this statement undefined; a later read reports it
                for n in ast.walk(st):
                    if isinstance(n, ast.Name) and isinstance(n.ctx, ast.Store):
                        ns.pop(n.id, None)
                        ns.setdefault("<failed>", set()).add(n.id)
        return ns

    def class_attr(self, cls: Cls, attr: str) -> tuple[bool, Any]:
        for k in self.repo.mro(cls):
            if attr in k.class_assigns or any(isinstance(n, ast.Name) and n.id == attr and isinstance(n.ctx, ast.Store) for st in k.node.body
                                              if not isinstance(st, (ast.FunctionDef, ast.ClassDef)) for n in ast.walk(st)):
                ns = self.class_ns(k)
                if attr in ns:
                    return True, ns[attr]
                if attr in ns.get("<failed>", ()):
                    raise Unsupported(f"class attribute {k.name}.{attr} could not be evaluated")
        return False, None

    # ------------------------------------------------------------------ parse-tree visitors
    def _is_tree_visitor(self, cls: Cls) -> bool:
        for k in self.repo.mro(cls):
            for b in k.base_exprs:
                n = dotted(b) or ""
                if n.split(".")[-1].endswith("Visitor") and not any(n.split(".")[-1] in m.classes for m in self.repo.modules.values()):
                    return True
        return False

    def _vmeth(self, visitor: AObj, name: str) -> Func | None:
        if name in visitor.attrs:
            # an instance attribute hides the method of the class (`self.visitX = ...`): the dispatch of the tree walker would use it
            raise Unsupported(f"{visitor.cls.name}.{name} is set on the instance; visitor methods stored on instances are not modelled")
        return self.repo.find_method(visitor.cls, name)

    def visit_dispatch(self, visitor: Any, ctx: Any) -> Any:
        """ctx.accept(visitor) of the parser runtime."""
        if not isinstance(visitor, AObj):
            raise Unsupported("visit with a non-object visitor")
        if isinstance(ctx, Tok):
            m = self._vmeth(visitor, "visitTerminal")
            if m is not None:
                return self.call_func(m, [visitor, ctx], {})
            d = self._vmeth(visitor, "defaultResult")
            return self.call_func(d, [visitor], {}) if d is not None else None
        if not isinstance(ctx, ACtx):
            raise Unsupported("visit of a non-context")
        name = "visit" + ctx.rule[0].upper() + ctx.rule[1:]
        m = self._vmeth(visitor, name)
        if m is not None:
            return self.call_func(m, [visitor, ctx], {})
        return self.visit_children(visitor, ctx)

    def visit_children(self, visitor: Any, ctx: Any) -> Any:
        """AbstractParseTreeVisitor.visitChildren: defaultResult, then aggregateResult over the children's results (overrides honoured)."""
        d = self._vmeth(visitor, "defaultResult")
        agg = self._vmeth(visitor, "aggregateResult")
        should = self._vmeth(visitor, "shouldVisitNextChild")
        res = self.call_func(d, [visitor], {}) if d is not None else None
        for ch in list(ctx.children):
            if should is not None and not self.truth(self.call_func(should, [visitor, ctx, res], {})):
                return res
            r = self.visit_dispatch(visitor, ch)
            res = self.call_func(agg, [visitor, res, r], {}) if agg is not None else r
        return res

    # ------------------------------------------------------------------ objects
    def new(self, cls: Cls, *args: Any, **kwargs: Any) -> AObj:
        o = AObj(cls)
        init = self.repo.find_method(cls, "__init__")
        if init is not None:
            self.call(FuncVal(init, o), list(args), kwargs)
        return o

    def isinstance_(self, v: Any, c: Any) -> bool:
        if isinstance(c, tuple):
            return any(self.isinstance_(v, x) for x in c)
        if isinstance(c, ClassVal):
            if isinstance(v, AObj):
                return c.cls in self.repo.mro(v.cls)
            return False
        if isinstance(c, _External):
            nm = c.name.split(".")[-1]
            if c.name.startswith("igraph") and nm in ("Vertex", "Edge", "Graph"):
                return isinstance(v, {"Vertex": MVertex, "Edge": MEdge, "Graph": MGraph}[nm])
        if isinstance(c, Opaque):
            t = {"int": int, "str": str, "list": list, "dict": dict, "tuple": tuple, "set": set, "bool": bool, "float": float}.get(c.text)
            if t is not None:
                return isinstance(v, t) and not (t is int and isinstance(v, bool))
        if c is _BUILTINS["str"]:
            return isinstance(v, str)
        for nm, t in (("list", list), ("dict", dict), ("set", set), ("tuple", tuple)):
            if c is _BUILTINS[nm]:
                return isinstance(v, t)
        if c in (int, str, list, dict, tuple, set, bool, float):
            return isinstance(v, c) and not (c is int and isinstance(v, bool))
        raise Unsupported(f"isinstance against {c!r}")

    def exc_matches(self, e: PyExc, types: list[str] | None) -> bool:
        if types is None:
            return True
        chain = [e.cls_name]
        try:
            c = self.repo.find_class(e.cls_name)
            chain += [k.name for k in self.repo.mro(c)]
        except AnalysisError:
            pass
        import builtins
        b = getattr(builtins, e.cls_name, None)
        if isinstance(b, type):
            chain += [x.__name__ for x in b.__mro__]
        else:
            chain.append("Exception")
        return any(t in chain for t in types)

    # ------------------------------------------------------------------ calls
    def _pycallable(self, v: Any) -> Any:
        """A Python callable for an interpreter-level callable (so that sorted(key=...), map(...), min(key=...) can use it)."""
        if isinstance(v, (FuncVal, Closure, ClassVal, AObj)) or v is _BUILTINS["str"] or v is _BUILTINS["isinstance"]:
            return lambda *a, **k: self.call(v, list(a), k)
        return v

    def call(self, fv: Any, args: list[Any], kwargs: dict[str, Any]) -> Any:
        if fv is _BUILTINS["str"]:
            return self.str_strict(args[0]) if args else ""
        if fv is _BUILTINS["isinstance"]:
            return self.isinstance_(args[0], args[1])
        if isinstance(fv, Closure):
            return self.call_func(fv.func, args, kwargs, parent=fv.env)
        if isinstance(fv, FuncVal):
            return self.call_func(fv.func, ([fv.bound] if fv.bound is not None else []) + args, kwargs)
        if isinstance(fv, ClassVal):
            if self._is_enum(fv.cls):
                # SsbOperator(2)
                for name, e in fv.cls.class_assigns.items():
                    val = self.fold.try_expr(fv.cls.mod, e)
                    code = val[0] if isinstance(val, tuple) else val
                    if code == args[0]:
                        return EnumVal(fv.cls, name, val)
                raise PyExc("ValueError", f"{args[0]} is not a valid {fv.cls.name}")
            return self.new(fv.cls, *args, **kwargs)
        if isinstance(fv, AObj):
            m = self.repo.find_method(fv.cls, "__call__")
            if m is not None:
                return self.call_func(m, [fv] + args, kwargs)
        if callable(fv):
            if "key" in kwargs:
                kwargs = dict(kwargs, key=self._pycallable(kwargs["key"]))
            if fv in (_BUILTINS["map"], _BUILTINS["filter"]) and args:
                args = [self._pycallable(args[0])] + [self.iterate(a) for a in args[1:]]
            if fv in _ITERABLE_BUILTINS and fv not in _ORDER_FREE_BUILTINS and any(self._element_set(a) for a in args):
                args = [self._ordered_elements(a) if self._element_set(a) else a for a in args]
            if any(isinstance(a, AObj) for a in args) and fv in _ITERABLE_BUILTINS:
                args = [self.iterate(a) if isinstance(a, AObj) and self.repo.find_method(a.cls, "__iter__") is not None else a for a in args]
            try:
                return fv(*args, **kwargs)
            except MGraphError as ex:
                raise self._lib_error(ex)
            except StopIteration:
                raise PyExc("StopIteration", "")
        raise Unsupported(f"call of {fv!r}")

    def _reduce(self, f: Any, it: Any, *init: Any) -> Any:
        items = list(self.iterate(it))
        if init:
            acc = init[0]
        elif items:
            acc, items = items[0], items[1:]
        else:
            raise PyExc("TypeError", "reduce() of empty iterable with no initial value")
        for x in items:
            acc = self.call(f, [acc, x], {})
        return acc

    def _lib_error(self, ex: MGraphError) -> Exception:
        if ex.kind == "Unsupported":
            return Unsupported(f"graph library: {ex.msg}")
        return PyExc(ex.kind, ex.msg, f"{self.cur[0]}:{self.cur[1]} (graph library)")

    def call_func(self, f: Func, args: list[Any], kwargs: dict[str, Any], parent: Env | None = None) -> Any:
        self.depth += 1
        if self.depth > 60:
            raise Unsupported("call depth")
        try:
            fn = f.node
            decos = [dotted(d) for d in fn.decorator_list]
            # decorators change what a call does: the ones the repository uses are modelled, memoising ones are modelled as a table that lives
            # as long as this interpreter (= the process), anything else is refused rather than ignored
            memo_key = None
            for dn, dexpr in zip(decos, fn.decorator_list):
                base = dn if dn is not None else (dotted(dexpr.func) if isinstance(dexpr, ast.Call) else None)
                if base in ("staticmethod", "classmethod", "property", "cached_property", "functools.cached_property", "abstractmethod", "abc.abstractmethod", "override", "typing.override", "final", "typing.final") \
                        or (base or "").endswith((".setter", ".getter")):
                    continue
                if base in ("lru_cache", "functools.lru_cache", "cache", "functools.cache"):
                    memo_limit: int | None = None
                    if base.endswith("lru_cache"):
                        memo_limit = 128  # the library's default
                        if isinstance(dexpr, ast.Call):
                            vals = list(dexpr.args[:1]) + [k.value for k in dexpr.keywords if k.arg == "maxsize"]
                            if vals:
                                if not (isinstance(vals[0], ast.Constant) and (vals[0].value is None or isinstance(vals[0].value, int))):
                                    raise Unsupported(f"{f.qual}: lru_cache size `{ast.unparse(vals[0])}` is not a literal")
                                memo_limit = vals[0].value
                    try:
                        memo_key = (f.qual, tuple(args), tuple(sorted(kwargs.items())))
                        hash(memo_key)
                    except TypeError:
                        raise PyExc("TypeError", f"unhashable argument in a call of the memoised function {f.qual}")
                    continue
                raise Unsupported(f"decorator `{ast.unparse(dexpr)}` on {f.qual} is not modelled")
            if memo_key is not None:
                table = self.__dict__.setdefault("_memo_tables", {})
                if memo_key in table:
                    return table[memo_key]
                # a bounded cache behaves like an unbounded one until it is full; eviction is not modelled
                if memo_limit is not None and sum(1 for k in table if k[0] == f.qual) >= memo_limit:
                    raise Unsupported(f"the lru_cache of {f.qual} (maxsize {memo_limit}) is full; eviction is not modelled")
                self.depth -= 1
                try:
                    stripped = Func(f.mod, f.cls, _without_decorators(fn))
                    res = self.call_func(stripped, args, kwargs, parent)
                finally:
                    self.depth += 1
                table[memo_key] = res
                return res
            params = [a.arg for a in fn.args.posonlyargs + fn.args.args]
            if "staticmethod" in decos and args and isinstance(args[0], (AObj, ClassVal)) and len(args) > len(params):
                args = args[1:]
            if "classmethod" in decos and args and isinstance(args[0], AObj):
                args = [ClassVal(args[0].cls)] + args[1:]
            loc: dict[str, Any] = {}
            defaults = fn.args.defaults
            dstart = len(params) - len(defaults)
            for i, p in enumerate(params):
                if i < len(args):
                    loc[p] = args[i]
                elif p in kwargs:
                    loc[p] = kwargs[p]
                elif i >= dstart:
                    loc[p] = self._default(f, defaults[i - dstart])
                else:
                    raise PyExc("TypeError", f"missing argument {p} for {f.short}")
            for a, d in zip(fn.args.kwonlyargs, fn.args.kw_defaults):
                if a.arg in kwargs:
                    loc[a.arg] = kwargs[a.arg]
                elif d is not None:
                    loc[a.arg] = self._default(f, d)
            if fn.args.vararg:
                loc[fn.args.vararg.arg] = tuple(args[len(params):])
            if fn.args.kwarg:
                loc[fn.args.kwarg.arg] = {k: v for k, v in kwargs.items() if k not in params}
            env = Env(f.mod, loc, f, parent)
            if self._is_generator(fn):
                # generator functions are run eagerly; the values they yield are handed out by an iterator afterwards (the
                # repository's generators have no side effects that a consumer could observe in between)
                env.locals["<yields>"] = []
                try:
                    self.exec_block(fn.body, env)
                except _Return:
                    pass
                return _AIter(env.locals["<yields>"])
            try:
                self.exec_block(fn.body, env)
            except _Return as r:
                return r.value
            return None
        finally:
            self.depth -= 1

    def _default(self, f: Func, d: ast.expr) -> Any:
        """Default values are created once per function (when it is defined), not per call: a mutable default is shared by all calls."""
        c = self.__dict__.setdefault("_default_cache", {})
        if id(d) not in c:
            c[id(d)] = self.eval(d, Env(f.mod, {}, f))
        return c[id(d)]

    def _is_generator(self, fn: ast.FunctionDef) -> bool:
        c = self.__dict__.setdefault("_gen_cache", {})
        if id(fn) not in c:
            c[id(fn)] = any(isinstance(n, (ast.Yield, ast.YieldFrom)) for n in walk_no_nested(fn))
        return c[id(fn)]  # type: ignore[no-any-return]

    def ev_Yield(self, e: ast.Yield, env: Env) -> Any:
        if "<yields>" not in env.locals:
            raise Unsupported("yield outside a generator function")
        env.locals["<yields>"].append(self.eval(e.value, env) if e.value is not None else None)
        return None

    def ev_YieldFrom(self, e: ast.YieldFrom, env: Env) -> Any:
        if "<yields>" not in env.locals:
            raise Unsupported("yield outside a generator function")
        env.locals["<yields>"].extend(self.iterate(self.eval(e.value, env)))
        return None

    # ------------------------------------------------------------------ statements
    def exec_block(self, body: list[ast.stmt], env: Env) -> None:
        for st in body:
            self.exec_stmt(st, env)

    def exec_stmt(self, st: ast.stmt, env: Env) -> None:
        self.cur = (env.func.short if env.func else "?", getattr(st, "lineno", 0))
        self.steps += 1
        if self.steps > self.max_steps:
            raise Unsupported("step budget exhausted")
        if isinstance(st, ast.Expr):
            if isinstance(st.value, ast.Constant):
                return
            self.eval(st.value, env)
        elif isinstance(st, ast.Assign):
            v = self.eval(st.value, env)
            for t in st.targets:
                self.assign(t, v, env)
        elif isinstance(st, ast.AnnAssign):
            if st.value is not None:
                self.assign(st.target, self.eval(st.value, env), env)
        elif isinstance(st, ast.AugAssign):
            cur = self.eval(self._as_load(st.target), env)
            v = self.eval(st.value, env)
            if isinstance(st.op, ast.Add):
                if isinstance(cur, list):
                    if not isinstance(v, (list, tuple)):
                        raise Unsupported("list += non-list")
                    cur.extend(v)
                    new = cur
                else:
                    new = cur + v
            elif isinstance(cur, set) and isinstance(st.op, (ast.BitOr, ast.BitAnd, ast.Sub)):
                # in-place set operators keep the object
                if isinstance(st.op, ast.BitOr):
                    cur |= set(v)
                elif isinstance(st.op, ast.BitAnd):
                    cur &= set(v)
                else:
                    cur -= set(v)
                new = cur
            else:
                new = self.binop(st.op, cur, v)
            self.assign(st.target, new, env)
        elif isinstance(st, ast.If):
            if self.truth(self.eval(st.test, env)):
                self.exec_block(st.body, env)
            else:
                self.exec_block(st.orelse, env)
        elif isinstance(st, ast.For):
            it = self.iterate(self.eval(st.iter, env))
            broke = False
            for item in it:
                self.assign(st.target, item, env)
                try:
                    self.exec_block(st.body, env)
                except _Break:
                    broke = True
                    break
                except _Continue:
                    continue
            if not broke:
                self.exec_block(st.orelse, env)
        elif isinstance(st, ast.While):
            n = 0
            while self.truth(self.eval(st.test, env)):
                n += 1
                if n > 5000:
                    raise Unsupported("while bound")
                try:
                    self.exec_block(st.body, env)
                except _Break:
                    break
                except _Continue:
                    continue
        elif isinstance(st, ast.Return):
            raise _Return(self.eval(st.value, env) if st.value is not None else None)
        elif isinstance(st, ast.Raise):
            if st.exc is None:
                raise Unsupported("bare raise")
            e = st.exc
            if isinstance(e, ast.Call):
                name = dotted(e.func) or "Exception"
                msg = ""
                self._lenient += 1
                try:
                    if e.args:
                        msg = str(self.eval(e.args[0], env))
                except Unsupported:
                    msg = "<message>"
                finally:
                    self._lenient -= 1
            else:
                v = self.eval(e, env) if not isinstance(e, ast.Name) or e.id in env.locals else None
                if isinstance(v, PyExc):
                    raise v
                name = dotted(e) or "Exception"
                msg = ""
            raise PyExc(name.split(".")[-1], msg, f"{env.func.short if env.func else '?'}:{st.lineno}")
        elif isinstance(st, ast.Assert):
            if not self.truth(self.eval(st.test, env)):
                raise PyExc("AssertionError", ast.unparse(st.test), f"{env.func.short if env.func else '?'}:{st.lineno}")
        elif isinstance(st, ast.Pass):
            return
        elif isinstance(st, ast.Break):
            raise _Break()
        elif isinstance(st, ast.Continue):
            raise _Continue()
        elif isinstance(st, ast.Delete):
            for t in st.targets:
                if isinstance(t, ast.Subscript):
                    base = self.eval(t.value, env)
                    idx = self.eval(t.slice, env)
                    try:
                        del base[idx]
                    except IndexError:
                        raise PyExc("IndexError", "list assignment index out of range")
                    except KeyError:
                        raise PyExc("KeyError", str(idx))
                else:
                    raise Unsupported("del of non-subscript")
        elif isinstance(st, ast.Try):
            try:
                self.exec_block(st.body, env)
            except PyExc as ex:
                for h in st.handlers:
                    types = None
                    if h.type is not None:
                        els = h.type.elts if isinstance(h.type, ast.Tuple) else [h.type]
                        types = [(dotted(x) or "").split(".")[-1] for x in els]
                    if self.exc_matches(ex, types):
                        self.caught.append((ex.cls_name, ex.msg, ex.where, f"{env.func.short if env.func else '?'}:{h.lineno}"))
                        if h.name:
                            env.locals[h.name] = ex
                        self.exec_block(h.body, env)
                        break
                else:
                    raise
            else:
                self.exec_block(st.orelse, env)
            finally:
                if st.finalbody:
                    self.exec_block(st.finalbody, env)
        elif isinstance(st, ast.ImportFrom) and env.func is not None and st.module and st.level == 0:
            # function-level import (used by the repository to break import cycles)
            mod = self.repo.modules.get(st.module)
            for al in st.names:
                nm = al.asname or al.name
                if mod is None:
                    env.locals[nm] = _STDLIB_CONSTS.get(f"{st.module}.{al.name}", _External(f"{st.module}.{al.name}"))
                elif al.name in mod.classes:
                    env.locals[nm] = ClassVal(mod.classes[al.name])
                elif al.name in mod.funcs:
                    env.locals[nm] = FuncVal(Func(mod, None, mod.funcs[al.name]))
                else:
                    env.locals[nm] = self.global_name(mod, al.name)
            return
        elif isinstance(st, (ast.Import, ast.ImportFrom, ast.Global, ast.Nonlocal)):
            return
        elif isinstance(st, ast.With):
            managers = []
            for item in st.items:
                cm = self.eval(item.context_expr, env)
                val: Any = cm
                if isinstance(cm, AObj):
                    en = self.repo.find_method(cm.cls, "__enter__")
                    if en is None or self.repo.find_method(cm.cls, "__exit__") is None:
                        raise Unsupported(f"{cm.cls.name} is not a context manager")
                    val = self.call_func(en, [cm], {})
                elif isinstance(cm, _External):
                    val = cm  # locks and the like: entering/leaving has no effect on a single thread of evaluation
                elif hasattr(cm, "__enter__"):
                    val = cm.__enter__()
                else:
                    raise Unsupported(f"with over {type(cm).__name__}")
                if item.optional_vars is not None:
                    self.assign(item.optional_vars, val, env)
                managers.append(cm)
            try:
                self.exec_block(st.body, env)
            except PyExc as ex:
                swallowed = False
                for cm in reversed(managers):
                    if isinstance(cm, AObj):
                        r = self.call_func(self.repo.find_method(cm.cls, "__exit__"), [cm, _External(ex.cls_name), ex, None], {})  # type: ignore[arg-type]
                        swallowed = swallowed or bool(r)
                    elif hasattr(cm, "__exit__") and not isinstance(cm, _External):
                        cm.__exit__(None, None, None)
                if not swallowed:
                    raise
            except (_Return, _Break, _Continue):
                for cm in reversed(managers):
                    if isinstance(cm, AObj):
                        self.call_func(self.repo.find_method(cm.cls, "__exit__"), [cm, None, None, None], {})  # type: ignore[arg-type]
                    elif hasattr(cm, "__exit__") and not isinstance(cm, _External):
                        cm.__exit__(None, None, None)
                raise
            else:
                for cm in reversed(managers):
                    if isinstance(cm, AObj):
                        self.call_func(self.repo.find_method(cm.cls, "__exit__"), [cm, None, None, None], {})  # type: ignore[arg-type]
                    elif hasattr(cm, "__exit__") and not isinstance(cm, _External):
                        cm.__exit__(None, None, None)
        elif isinstance(st, ast.FunctionDef):
            env.locals[st.name] = Closure(Func(env.mod, None, st), env)
        elif isinstance(st, ast.ClassDef):
            raise Unsupported("nested class definition")
        else:
            raise Unsupported(f"statement {type(st).__name__}")

    @staticmethod
    def _as_load(t: ast.AST) -> ast.AST:
        import copy
        n = copy.copy(t)
        if hasattr(n, "ctx"):
            n.ctx = ast.Load()  # type: ignore[attr-defined]
        return n

    def assign(self, t: ast.AST, v: Any, env: Env) -> None:
        if isinstance(t, ast.Name):
            env.locals[t.id] = v
        elif isinstance(t, ast.Attribute):
            o = self.eval(t.value, env)
            if isinstance(o, AObj):
                # property setter?
                setter = self._find_property(o.cls, t.attr, "setter")
                if setter is not None:
                    self.call_func(setter, [o, v], {})
                else:
                    o.attrs[t.attr] = v
            elif isinstance(o, ClassVal):
                # the class object is shared by the whole evaluation (one "process")
                for k in self.repo.mro(o.cls):
                    if t.attr in self.class_ns(k) or k is self.repo.mro(o.cls)[-1]:
                        break
                owner = next((k for k in self.repo.mro(o.cls) if t.attr in self.class_ns(k)), o.cls)
                self.class_ns(owner)[t.attr] = v
            else:
                raise Unsupported(f"attribute store on {type(o).__name__}")
        elif isinstance(t, ast.Subscript):
            base = self.eval(t.value, env)
            idx = self.eval(t.slice, env)
            try:
                base[idx] = v
            except MGraphError as ex:
                raise self._lib_error(ex)
            except IndexError:
                raise PyExc("IndexError", "list assignment index out of range")
            except TypeError:
                raise Unsupported("subscript store")
        elif isinstance(t, (ast.Tuple, ast.List)):
            vals = list(self.iterate(v))
            star = [i for i, e in enumerate(t.elts) if isinstance(e, ast.Starred)]
            if star:
                i = star[0]
                after = len(t.elts) - i - 1
                if len(vals) < len(t.elts) - 1:
                    raise PyExc("ValueError", "not enough values to unpack")
                for e, x in zip(t.elts[:i], vals[:i]):
                    self.assign(e, x, env)
                self.assign(t.elts[i].value, vals[i:len(vals) - after], env)  # type: ignore[attr-defined]
                for e, x in zip(t.elts[i + 1:], vals[len(vals) - after:]):
                    self.assign(e, x, env)
            else:
                if len(vals) != len(t.elts):
                    raise PyExc("ValueError", "unpack length")
                for e, x in zip(t.elts, vals):
                    self.assign(e, x, env)
        else:
            raise Unsupported(f"assignment target {type(t).__name__}")

    # ------------------------------------------------------------------ expressions
    def truth(self, v: Any) -> bool:
        if isinstance(v, AObj):
            # Python's rule: __bool__, else __len__, else true
            for dunder in ("__bool__", "__len__"):
                m = self.repo.find_method(v.cls, dunder)
                if m is not None:
                    return bool(self.call_func(m, [v], {}))
            return True
        if isinstance(v, EnumVal):
            if any(k.name in ("IntEnum", "IntFlag", "Flag") or (dotted(b) or "").split(".")[-1] in ("IntEnum", "IntFlag", "Flag", "int")
                   for k in self.repo.mro(v.cls) for b in k.base_exprs):
                raise Unsupported(f"truth value of a member of the integer enumeration {v.cls.name}")
            return True
        if isinstance(v, (ClassVal, FuncVal, ACtx, Tok)):
            return True
        return bool(v)

    def _element_set(self, v: Any) -> bool:
        """A set of graph elements: the library hashes them by the address of their graph, so the order of an iteration is not fixed by
        the program.  The interpreter iterates by element number, ascending or descending (`set_order_policy`), and counts the places
        where that choice was made, so that a rule can evaluate both orders."""
        return isinstance(v, (set, frozenset)) and len(v) >= 2 and all(x is None or isinstance(x, (MVertex, MEdge)) for x in v) and any(x is not None for x in v)

    def _ordered_elements(self, v: Any) -> list[Any]:
        self.set_order_choices += 1
        return sorted(v, key=lambda x: (-1 if x is None else x._i), reverse=bool(self.set_order_policy))

    def iterate(self, v: Any) -> Any:
        if self._element_set(v):
            return self._ordered_elements(v)
        if isinstance(v, (list, tuple, set, dict, str, range)):
            return list(v)
        if isinstance(v, AObj):
            m = self.repo.find_method(v.cls, "__iter__")
            if m is not None:
                return list(self.iterate(self.call_func(m, [v], {})))
        if isinstance(v, ClassVal) and self._is_enum(v.cls):
            return [EnumVal(v.cls, nm, self.fold.try_expr(v.cls.mod, ex)) for nm, ex in v.cls.class_assigns.items() if not nm.startswith("_")]
        if isinstance(v, (zip, enumerate, map, filter)) or hasattr(v, "__next__"):
            return list(v)
        if hasattr(v, "__iter__") and not isinstance(v, (AObj,)):
            return list(v)
        raise Unsupported(f"iteration over {type(v).__name__}")

    def eval(self, e: ast.AST, env: Env) -> Any:
        self.steps += 1
        if self.steps > self.max_steps:
            raise Unsupported("step budget exhausted")
        m = getattr(self, "ev_" + type(e).__name__, None)
        if m is None:
            raise Unsupported(f"expression {type(e).__name__}")
        return m(e, env)

    def ev_Constant(self, e: ast.Constant, env: Env) -> Any:
        return e.value

    def ev_Name(self, e: ast.Name, env: Env) -> Any:
        if e.id in env.locals:
            return env.locals[e.id]
        p = env.parent
        while p is not None:
            if e.id in p.locals:
                return p.locals[e.id]
            p = p.parent
        return self.global_name(env.mod, e.id)

    def global_name(self, mod: Mod, name: str) -> Any:
        r = self.repo.resolve(mod, name)
        if r is not None:
            kind, obj = r
            if kind == "class":
                return ClassVal(obj)  # type: ignore[arg-type]
            if kind == "func":
                return FuncVal(obj)  # type: ignore[arg-type]
            if kind == "const":
                m2, n2 = obj  # type: ignore[misc]
                gkey = (getattr(m2, "name", m2), n2)
                if gkey in self._globals:
                    return self._globals[gkey]
                val = self._global_value(m2, n2, name)
                if isinstance(val, (list, dict, set, AObj)):
                    self._globals[gkey] = val  # module-level mutable state lives as long as this interpreter (one "process")
                return val
            if kind == "external":
                if str(obj) in _STDLIB_CONSTS:
                    return _STDLIB_CONSTS[str(obj)]
                if str(obj) in self.native_consts:
                    return self.native_consts[str(obj)]
                return _External(str(obj))
            if kind == "module":
                return _External(obj.name)  # type: ignore[union-attr]
        if name in self.builtin_overrides:
            return self.builtin_overrides[name]
        if name in _BUILTINS:
            return _BUILTINS[name]
        if name in BUILTIN_EXC:
            return _External(name)
        raise Unsupported(f"name {name}")

    def _global_value(self, m2: Any, n2: str, name: str) -> Any:
        if True:
            if True:
                try:
                    v = self.fold.name(m2, n2)
                except NotConst as ex:
                    mm = self.repo.modules.get(m2) if isinstance(m2, str) else m2
                    if mm is not None and n2 in mm.assigns:
                        return self.eval(mm.assigns[n2], Env(mm, {}, None))
                    raise Unsupported(f"global {name}: {ex}")
                if isinstance(v, Opaque):
                    # an expression the folder keeps as text (e.g. a constructor call at module level): evaluate it
                    mm = self.repo.modules.get(m2) if isinstance(m2, str) else m2
                    if mm is not None and n2 in mm.assigns and isinstance(mm.assigns[n2], ast.Call):
                        try:
                            return self.eval(mm.assigns[n2], Env(mm, {}, None))
                        except Unsupported:
                            pass
                return self.from_folded(v)
        raise Unsupported(f"name {name}")

    def from_folded(self, v: Any) -> Any:
        if isinstance(v, EnumMember):
            c = self.repo.find_class(v.cls)
            return EnumVal(c, v.name, v.value)
        if isinstance(v, ClassRef):
            mod, _, n = v.qual.rpartition(".")
            if mod in self.repo.modules and n in self.repo.modules[mod].classes:
                return ClassVal(self.repo.modules[mod].classes[n])
            return _External(v.qual)
        if isinstance(v, Opaque):
            if v.text.replace(" ", "") == "type(None)":
                return type(None)
            return _External(v.text)
        if isinstance(v, list):
            return [self.from_folded(x) for x in v]
        if isinstance(v, dict):
            return {self.from_folded(k): self.from_folded(x) for k, x in v.items()}
        return v

    def ev_Attribute(self, e: ast.Attribute, env: Env) -> Any:
        o = self.eval(e.value, env)
        return self.getattr_(o, e.attr)

    def getattr_(self, o: Any, attr: str) -> Any:
        if isinstance(o, (MGraph, MVertex, MEdge, _MSeq, NativeObj, re.Pattern, re.Match, PurePath)):
            try:
                return getattr(o, attr)
            except MGraphError as ex:
                raise self._lib_error(ex)
            except AttributeError:
                raise Unsupported(f"graph library attribute {type(o).__name__}.{attr} is not modelled")
        if isinstance(o, AObj):
            if attr in o.attrs:
                return o.attrs[attr]
            if attr == "__class__":
                return ClassVal(o.cls)
            if attr == "__dict__":
                return dict(o.attrs)
            getter = self._find_property(o.cls, attr, "getter")
            if getter is not None:
                val = self.call_func(getter, [o], {})
                if any((dotted(d) or "").split(".")[-1] == "cached_property" for d in getter.node.decorator_list):
                    o.attrs[attr] = val  # functools.cached_property: the value is stored in the instance and found there from now on
                return val
            m = self.repo.find_method(o.cls, attr)
            if m is not None:
                return FuncVal(m, o)
            if attr.startswith("visit") and self._is_tree_visitor(o.cls):
                return _BoundVisit(self, attr, o)
            found, val = self.class_attr(o.cls, attr)
            if found:
                return val
            raise PyExc("AttributeError", f"{o.cls.name} has no attribute {attr}")
        if isinstance(o, ClassVal):
            if attr == "__name__":
                return o.cls.name
            if self._is_enum(o.cls) and attr in o.cls.class_assigns:
                return EnumVal(o.cls, attr, self.fold.try_expr(o.cls.mod, o.cls.class_assigns[attr]))
            m = self.repo.find_method(o.cls, attr)
            if m is not None:
                decos = [dotted(d) for d in m.node.decorator_list]
                return FuncVal(m, o if "classmethod" in decos else None)
            found, val = self.class_attr(o.cls, attr)
            if found:
                return val
            for k in self.repo.mro(o.cls):
                for sub in k.node.body:
                    if isinstance(sub, ast.ClassDef) and sub.name == attr:
                        return ClassVal(Cls(f"{k.name}.{attr}", k.mod, sub, list(sub.bases)))
            raise Unsupported(f"class attribute {o.cls.name}.{attr}")
        if isinstance(o, EnumVal):
            if attr == "value":
                return o.value[0] if isinstance(o.value, tuple) else o.value
            if attr == "name":
                return o.name
            if attr == "notation":
                return o.value[1] if isinstance(o.value, tuple) else None
            raise Unsupported(f"enum attribute {attr}")
        if isinstance(o, ACtx):
            if attr == "start":
                return _Pos(o.line, o.column)
            if attr == "stop":
                return _Pos(o.stop_line, o.stop_column)
            if attr == "accept":
                return _BoundVisit(self, "accept", o)
            if attr == "children":
                return list(o.children)
            return _CtxAccessor(o, attr)
        if isinstance(o, _Pos):
            return getattr(o, attr)
        if isinstance(o, _External):
            if f"{o.name}.{attr}" in _STDLIB_CONSTS:
                return _STDLIB_CONSTS[f"{o.name}.{attr}"]
            return _External(f"{o.name}.{attr}")
        if isinstance(o, (list, dict, set, str, tuple, frozenset)):
            if not attr.startswith("_") and hasattr(o, attr):
                return _BoundNative(o, attr)  # methods of the built-in containers and of str: fixed by the language
            raise Unsupported(f"native attribute {attr}")
        if isinstance(o, PyExc):
            if attr == "__context__":
                return None
            raise Unsupported("exception attribute")
        if isinstance(o, Tok):
            raise Unsupported(f"token attribute {attr}")
        if o is None:
            raise PyExc("AttributeError", f"'NoneType' object has no attribute '{attr}'")
        raise Unsupported(f"attribute {attr} of {type(o).__name__}")

    def _find_property(self, cls: Cls, attr: str, kind: str) -> Func | None:
        for k in self.repo.mro(cls):
            for sub in k.node.body:
                if isinstance(sub, ast.FunctionDef) and sub.name == attr:
                    decos = [dotted(d) for d in sub.decorator_list]
                    if kind == "getter" and ("property" in decos or any((d or "").split(".")[-1] == "cached_property" for d in decos)):
                        return Func(k.mod, k, sub)
                    if kind == "setter" and f"{attr}.setter" in decos:
                        return Func(k.mod, k, sub)
        return None

    def _is_enum(self, c: Cls) -> bool:
        return any((dotted(b) or "").split(".")[-1] in ("Enum", "IntEnum") for b in c.base_exprs)

    def ev_Call(self, e: ast.Call, env: Env) -> Any:
        # super()
        if isinstance(e.func, ast.Attribute) and isinstance(e.func.value, ast.Call) and dotted(e.func.value.func) == "super":
            if env.func is None or env.func.cls is None:
                raise Unsupported("super outside method")
            selfv = env.locals.get("self")
            mro = self.repo.mro(selfv.cls if isinstance(selfv, AObj) else env.func.cls)
            try:
                i = mro.index(env.func.cls)
            except ValueError:
                i = 0
            for k in mro[i + 1:]:
                if e.func.attr in k.methods:
                    args = [self.eval(a, env) for a in e.args]
                    kwargs = {k2.arg: self.eval(k2.value, env) for k2 in e.keywords if k2.arg}
                    return self.call_func(Func(k.mod, k, k.methods[e.func.attr]), [selfv] + args, kwargs)
            if "super." + e.func.attr in self.natives:  # a method of a third-party base class that a rule models
                args = [self.eval(a, env) for a in e.args]
                kwargs = {k2.arg: self.eval(k2.value, env) for k2 in e.keywords if k2.arg}
                return self.natives["super." + e.func.attr](selfv, *args, **kwargs)
            return None  # object.__init__
        d = dotted(e.func)
        if d in ("logger.debug", "logger.info", "logger.warning", "logger.error", "warnings.warn"):
            return None
        if d in ("f", "_"):
            return "<message>"
        if d == "cast":
            return self.eval(e.args[1], env)
        fv = self.eval(e.func, env)
        args: list[Any] = []
        for a in e.args:
            if isinstance(a, ast.Starred):
                args.extend(self.iterate(self.eval(a.value, env)))
            else:
                args.append(self.eval(a, env))
        kwargs = {}
        for k in e.keywords:
            if k.arg is None:
                kwargs.update(self.eval(k.value, env))
            else:
                kwargs[k.arg] = self.eval(k.value, env)
        if fv is _BUILTINS["isinstance"]:
            return self.isinstance_(args[0], args[1])
        if fv is _BUILTINS["open"] and "open" in self.natives:
            return self.natives["open"](*args, **kwargs)
        if isinstance(fv, _External):
            if fv.name.split(".")[-1] in ("getLogger",):
                return _External("logger")
            if fv.name.startswith("logger") or fv.name.startswith("logging"):
                return None
            if fv.name in self.natives:
                try:
                    return self.natives[fv.name](*args, **kwargs)
                except MGraphError as ex:
                    raise self._lib_error(ex)
            if fv.name in _STDLIB_FUNCS:
                return _STDLIB_FUNCS[fv.name](*args, **kwargs)
            raise Unsupported(f"external call {fv.name}")
        if isinstance(fv, _CtxAccessor):
            return fv(*args)
        if isinstance(fv, _BoundNative):
            return fv(self, *args, **kwargs)
        if fv is int:
            if args and isinstance(args[0], AObj):
                m = self.repo.find_method(args[0].cls, "__int__")
                if m is None:
                    raise PyExc("TypeError", "int() argument must be a string or a number")
                return self.call_func(m, [args[0]], {})
            try:
                return int(*args)
            except ValueError as ex:
                raise PyExc("ValueError", str(ex))
            except TypeError as ex:
                raise PyExc("TypeError", str(ex))
        if fv is _BUILTINS["str"]:
            return self.str_strict(args[0]) if args else ""
        if fv is _BUILTINS["getattr"]:
            try:
                return self.getattr_(args[0], args[1])
            except (PyExc, Unsupported):
                if len(args) > 2:
                    return args[2]
                raise
        if fv is _BUILTINS["setattr"]:
            if isinstance(args[0], AObj):
                args[0].attrs[args[1]] = args[2]
                return None
            raise Unsupported("setattr on a native value")
        if fv is _BUILTINS["hasattr"]:
            o, a = args
            if o is None or isinstance(o, (int, str, float, bool, list, dict, tuple, set)):
                return hasattr(o, a)
            try:
                self.getattr_(o, a)
                return True
            except PyExc:
                return False
        if fv is _BUILTINS["type"]:
            o = args[0]
            if isinstance(o, AObj):
                return ClassVal(o.cls)
            if o is None or isinstance(o, (int, str, float, bool, list, dict, tuple, set)):
                return type(o)
            raise Unsupported("type() of native")
        if fv is _BUILTINS["id"]:
            o = args[0]
            return getattr(o, "uid", id(o))
        return self.call(fv, args, kwargs)

    def str_(self, v: Any) -> str:
        if isinstance(v, Tok):
            return v.text
        if isinstance(v, AObj):
            m = self.repo.find_method(v.cls, "__str__")
            if m is not None:
                try:
                    return str(self.call_func(m, [v], {}))
                except Unsupported:
                    if not self._lenient:
                        raise
                    return f"<{v.cls.name}>"
            return f"<{v.cls.name}>"
        if isinstance(v, EnumVal):
            return v.name
        if v is None:
            return "None"
        if isinstance(v, (int, str, float, bool)):
            return str(v)
        if isinstance(v, (list, dict, tuple)):
            return "<container>"
        if isinstance(v, ClassVal):
            return f"<class {v.cls.name}>"
        return "<value>"

    def ev_JoinedStr(self, e: ast.JoinedStr, env: Env) -> Any:
        out = []
        for p in e.values:
            if isinstance(p, ast.Constant):
                out.append(str(p.value))
            elif isinstance(p, ast.FormattedValue):
                try:
                    v = self.eval(p.value, env)
                    if p.conversion == 114:  # !r
                        v = self.repr_strict(v)
                    elif p.conversion in (115, 97):  # !s / !a
                        v = self.str_strict(v)
                    if p.format_spec is not None:
                        spec = self.eval(p.format_spec, env)
                        if isinstance(v, (int, str, float)) and not isinstance(v, bool):
                            out.append(format(v, spec))
                        else:
                            out.append(format(self.str_strict(v), spec))
                    else:
                        out.append(self.str_strict(v))
                except Unsupported:
                    if self._lenient:
                        out.append("<?>")
                    else:
                        raise
        return "".join(out)

    def str_strict(self, v: Any) -> str:
        """str(v) exactly, or Unsupported (used where the text is an output of the analysed code)."""
        if isinstance(v, Tok):
            return v.text
        if isinstance(v, AObj):
            m = self.repo.find_method(v.cls, "__str__")
            if m is None:
                if self._lenient:
                    return f"<{v.cls.name}>"
                raise Unsupported(f"str() of {v.cls.name} without __str__")
            return str(self.call_func(m, [v], {}))
        if isinstance(v, EnumVal):
            return f"{v.cls.name}.{v.name}"
        if v is None or isinstance(v, (int, str, float, bool)):
            return str(v)
        if isinstance(v, dict):
            return "{" + ", ".join(f"{self.repr_strict(k)}: {self.repr_strict(x)}" for k, x in v.items()) + "}"
        if isinstance(v, (set, frozenset)):
            return "{" + ", ".join(sorted(self.repr_strict(x) for x in v)) + "}" if v else "set()"
        if isinstance(v, ClassVal):
            return f"<class '{v.cls.qual}'>"
        if isinstance(v, (MVertex, MEdge, MGraph)):
            return repr(v)
        if isinstance(v, PurePath):
            return str(v)
        if isinstance(v, PyExc):
            return v.msg
        if isinstance(v, (list, tuple)):
            inner = ", ".join(self.repr_strict(x) for x in v)
            return f"[{inner}]" if isinstance(v, list) else (f"({inner},)" if len(v) == 1 else f"({inner})")
        if self._lenient:
            return "<value>"
        raise Unsupported(f"str() of {type(v).__name__}")

    def repr_strict(self, v: Any) -> str:
        if v is None or isinstance(v, (int, str, float, bool)):
            return repr(v)
        if isinstance(v, AObj):
            m = self.repo.find_method(v.cls, "__repr__")
            if m is not None:
                return str(self.call_func(m, [v], {}))
        return self.str_strict(v)

    def ev_List(self, e: ast.List, env: Env) -> Any:
        out = []
        for x in e.elts:
            if isinstance(x, ast.Starred):
                out.extend(self.iterate(self.eval(x.value, env)))
            else:
                out.append(self.eval(x, env))
        return out

    def ev_Tuple(self, e: ast.Tuple, env: Env) -> Any:
        return tuple(self.ev_List(e, env))  # type: ignore[arg-type]

    def ev_Set(self, e: ast.Set, env: Env) -> Any:
        return set(self.ev_List(e, env))  # type: ignore[arg-type]

    def ev_Dict(self, e: ast.Dict, env: Env) -> Any:
        return {self.eval(k, env): self.eval(v, env) for k, v in zip(e.keys, e.values) if k is not None}

    def ev_BoolOp(self, e: ast.BoolOp, env: Env) -> Any:
        if isinstance(e.op, ast.And):
            v: Any = True
            for x in e.values:
                v = self.eval(x, env)
                if not self.truth(v):
                    return v
            return v
        v = False
        for x in e.values:
            v = self.eval(x, env)
            if self.truth(v):
                return v
        return v

    def ev_UnaryOp(self, e: ast.UnaryOp, env: Env) -> Any:
        v = self.eval(e.operand, env)
        if isinstance(e.op, ast.Not):
            return not self.truth(v)
        if isinstance(v, AObj):
            raise PyExc("TypeError", "bad operand type for a unary operator")
        if isinstance(e.op, ast.USub):
            return -v
        if isinstance(e.op, ast.UAdd):
            return +v
        if isinstance(e.op, ast.Invert):
            return ~v
        raise Unsupported("unary op")

    _BINOPS = {ast.Add: operator.add, ast.Sub: operator.sub, ast.Mult: operator.mul, ast.Div: operator.truediv, ast.FloorDiv: operator.floordiv, ast.Mod: operator.mod,
               ast.Pow: operator.pow, ast.BitAnd: operator.and_, ast.BitOr: operator.or_, ast.BitXor: operator.xor, ast.LShift: operator.lshift, ast.RShift: operator.rshift}

    def binop(self, op: ast.operator, l: Any, r: Any) -> Any:
        if isinstance(op, ast.Mod) and isinstance(l, str):
            args = r if isinstance(r, tuple) else (r,)
            try:
                return l % tuple(a if isinstance(a, (int, float, str)) and not isinstance(a, bool) else self.str_strict(a) for a in args)
            except (TypeError, ValueError) as ex:
                raise PyExc("TypeError", str(ex))
        fn = self._BINOPS.get(type(op))
        if fn is None:
            raise Unsupported(f"binary operator {type(op).__name__}")
        if isinstance(l, AObj) or isinstance(r, AObj):
            dunder = {ast.Add: "__add__", ast.Sub: "__sub__", ast.Mult: "__mul__", ast.Mod: "__mod__"}.get(type(op))
            if dunder and isinstance(l, AObj):
                m = self.repo.find_method(l.cls, dunder)
                if m is not None:
                    return self.call_func(m, [l, r], {})
            raise PyExc("TypeError", f"unsupported operand type(s) for {type(op).__name__}")
        try:
            return fn(l, r)
        except TypeError as ex:
            raise PyExc("TypeError", str(ex))
        except ZeroDivisionError as ex:
            raise PyExc("ZeroDivisionError", str(ex))

    def ev_BinOp(self, e: ast.BinOp, env: Env) -> Any:
        return self.binop(e.op, self.eval(e.left, env), self.eval(e.right, env))

    def ev_NamedExpr(self, e: ast.NamedExpr, env: Env) -> Any:
        v = self.eval(e.value, env)
        self.assign(e.target, v, env)
        return v

    def ev_IfExp(self, e: ast.IfExp, env: Env) -> Any:
        return self.eval(e.body if self.truth(self.eval(e.test, env)) else e.orelse, env)

    def ev_Compare(self, e: ast.Compare, env: Env) -> Any:
        left = self.eval(e.left, env)
        for op, right_e in zip(e.ops, e.comparators):
            right = self.eval(right_e, env)
            if isinstance(op, ast.Is):
                ok = self.identical(left, right)
            elif isinstance(op, ast.IsNot):
                ok = not self.identical(left, right)
            elif isinstance(op, ast.Eq):
                ok = self.equal(left, right)
            elif isinstance(op, ast.NotEq):
                ok = not self.equal(left, right)
            elif isinstance(op, (ast.In, ast.NotIn)) and isinstance(left, str) and isinstance(right, str):
                ok = (left in right) == isinstance(op, ast.In)  # substring test
            elif isinstance(op, (ast.In, ast.NotIn)) and isinstance(right, NativeObj) and hasattr(right, "__contains__"):
                ok = (left in right) == isinstance(op, ast.In)
            elif isinstance(op, ast.In):
                ok = any(self.equal(left, x) for x in self.iterate(right)) if not isinstance(right, (dict, set)) or isinstance(left, (AObj, EnumVal)) else left in right
            elif isinstance(op, ast.NotIn):
                ok = not (any(self.equal(left, x) for x in self.iterate(right)) if not isinstance(right, (dict, set)) or isinstance(left, (AObj, EnumVal)) else left in right)
            elif isinstance(op, (ast.Lt, ast.LtE, ast.Gt, ast.GtE)):
                if isinstance(left, (AObj, Tok)) or isinstance(right, (AObj, Tok)) or left is None or right is None:
                    raise PyExc("TypeError", "ordering comparison")
                ok = {ast.Lt: left < right, ast.LtE: left <= right, ast.Gt: left > right, ast.GtE: left >= right}[type(op)]
            else:
                raise Unsupported("compare op")
            if not ok:
                return False
            left = right
        return True

    def identical(self, a: Any, b: Any) -> bool:
        if isinstance(a, ClassVal) and isinstance(b, ClassVal):
            return a.cls == b.cls
        if isinstance(a, EnumVal) and isinstance(b, EnumVal):
            return a == b
        return a is b

    def equal(self, a: Any, b: Any) -> bool:
        # containers compare element-wise with the elements' own notion of equality (as in the language)
        if isinstance(a, (list, tuple)) and isinstance(b, (list, tuple)):
            if isinstance(a, tuple) != isinstance(b, tuple) or len(a) != len(b):
                return False
            return all(x is y or self.equal(x, y) for x, y in zip(a, b))
        if isinstance(a, dict) and isinstance(b, dict):
            if len(a) != len(b):
                return False
            for k, v in a.items():
                if k not in b:
                    return False
                if not (v is b[k] or self.equal(v, b[k])):
                    return False
            return True
        if isinstance(a, AObj) and isinstance(b, AObj):
            m = self.repo.find_method(a.cls, "__eq__")
            if m is not None:
                return bool(self.call_func(m, [a, b], {}))
            return a is b
        if isinstance(a, (AObj, ClassVal, EnumVal, Tok)) or isinstance(b, (AObj, ClassVal, EnumVal, Tok)):
            if isinstance(a, ClassVal) and isinstance(b, ClassVal):
                return a.cls == b.cls
            if isinstance(a, EnumVal) and isinstance(b, EnumVal):
                return a == b
            if isinstance(a, AObj) and not isinstance(b, AObj):
                m = self.repo.find_method(a.cls, "__eq__")
                if m is not None:
                    return bool(self.call_func(m, [a, b], {}))
            return False
        return a == b

    def ev_Subscript(self, e: ast.Subscript, env: Env) -> Any:
        base = self.eval(e.value, env)
        if isinstance(e.slice, ast.Slice):
            lo = self.eval(e.slice.lower, env) if e.slice.lower is not None else None
            hi = self.eval(e.slice.upper, env) if e.slice.upper is not None else None
            st = self.eval(e.slice.step, env) if e.slice.step is not None else None
            if not isinstance(base, (list, str, tuple)):
                raise Unsupported("slice of non-sequence")
            return base[lo:hi:st]
        idx = self.eval(e.slice, env)
        if isinstance(base, (ClassVal, _External)):
            return base  # Generic[...] subscription
        try:
            return base[idx]
        except MGraphError as ex:
            raise self._lib_error(ex)
        except IndexError:
            raise PyExc("IndexError", "list index out of range")
        except KeyError:
            raise PyExc("KeyError", str(idx))
        except TypeError:
            raise Unsupported(f"subscript of {type(base).__name__}")

    def ev_ListComp(self, e: ast.ListComp, env: Env) -> Any:
        return self._comp(e.elt, e.generators, env)

    def ev_GeneratorExp(self, e: ast.GeneratorExp, env: Env) -> Any:
        # lazy, as in the language: elements after the one a consumer stops at are never evaluated
        sub = Env(env.mod, dict(env.locals), env.func)
        first_iter = self.iterate(self.eval(e.generators[0].iter, env))

        def gen(i: int = 0) -> Any:
            g = e.generators[i]
            items = first_iter if i == 0 else self.iterate(self.eval(g.iter, sub))
            for item in items:
                self.assign(g.target, item, sub)
                if all(self.truth(self.eval(c, sub)) for c in g.ifs):
                    if i + 1 == len(e.generators):
                        yield self.eval(e.elt, sub)
                    else:
                        yield from gen(i + 1)
        return gen()

    def ev_SetComp(self, e: ast.SetComp, env: Env) -> Any:
        return set(self._comp(e.elt, e.generators, env))

    def _comp(self, elt: ast.AST, gens: list[ast.comprehension], env: Env) -> list[Any]:
        out: list[Any] = []
        sub = Env(env.mod, dict(env.locals), env.func)

        def rec(i: int) -> None:
            if i == len(gens):
                out.append(self.eval(elt, sub))
                return
            g = gens[i]
            for item in self.iterate(self.eval(g.iter, sub)):
                self.assign(g.target, item, sub)
                if all(self.truth(self.eval(c, sub)) for c in g.ifs):
                    rec(i + 1)
        rec(0)
        return out

    def ev_DictComp(self, e: ast.DictComp, env: Env) -> Any:
        pairs = self._comp(ast.Tuple(elts=[e.key, e.value], ctx=ast.Load()), e.generators, env)
        return {k: v for k, v in pairs}

    def ev_Starred(self, e: ast.Starred, env: Env) -> Any:
        raise Unsupported("starred")

    def ev_Lambda(self, e: ast.Lambda, env: Env) -> Any:
        params = [a.arg for a in e.args.args]
        defaults = [self.eval(d, env) for d in e.args.defaults]  # evaluated once, where the lambda is created

        def fn(*args: Any, **kwargs: Any) -> Any:
            sub = Env(env.mod, {}, env.func, env)
            dstart = len(params) - len(defaults)
            for i, p in enumerate(params):
                if i < len(args):
                    sub.locals[p] = args[i]
                elif p in kwargs:
                    sub.locals[p] = kwargs[p]
                elif i >= dstart:
                    sub.locals[p] = defaults[i - dstart]
                else:
                    raise PyExc("TypeError", f"missing argument {p} of a lambda")
            if e.args.vararg:
                sub.locals[e.args.vararg.arg] = tuple(args[len(params):])
            return self.eval(e.body, sub)
        return fn


class _External:
    def __init__(self, name: str) -> None:
        self.name = name

    def __repr__(self) -> str:
        return f"<external {self.name}>"


class _CtxAccessor:
    def __init__(self, ctx: ACtx, name: str) -> None:
        self.ctx = ctx
        self.name = name

    def __call__(self, *args: Any) -> Any:
        c = self.ctx
        if c.freq is not None:
            # shape of the generated accessor: a list (or the i-th child / None) when the element may repeat, else the child or None
            n = c.freq.get(self.name)
            if n is None:
                if self.name in ("getText",):
                    return "".join(t.text for t in _leaves(c))
                raise Unsupported(f"context accessor {c.rule}.{self.name}()")
            got = [x for x in c.children if (isinstance(x, ACtx) and x.rule == self.name) or (isinstance(x, Tok) and getattr(x, "type", None) == self.name)]
            if n >= 2:
                if args:
                    return got[args[0]] if args[0] < len(got) else None
                return got
            if args:
                return got[args[0]] if args[0] < len(got) else None
            return got[0] if got else None
        if self.name in c.subs:
            v = c.subs[self.name]
            if args and isinstance(v, list):
                return v[args[0]] if args[0] < len(v) else None
            return v
        if self.name in c.tokens:
            v = c.tokens[self.name]
            if isinstance(v, list):
                if args:
                    return v[args[0]] if args[0] < len(v) else None
                return v[0] if v else None
            if args and args[0] != 0:
                return None
            return v
        if self.name.isupper() or self.name[0].isupper():
            return None  # token accessor for a token that is not present
        return None


def _leaves(c: ACtx) -> Iterator[Any]:
    for x in c.children:
        if isinstance(x, ACtx):
            yield from _leaves(x)
        else:
            yield x


class _AIter:
    """Iterator over the values an eagerly evaluated generator yielded."""

    def __init__(self, items: list[Any]) -> None:
        self.items = list(items)
        self.i = 0

    def __iter__(self) -> "_AIter":
        return self

    def __next__(self) -> Any:
        if self.i >= len(self.items):
            raise StopIteration
        self.i += 1
        return self.items[self.i - 1]


class _BoundVisit:
    """The tree-visitor protocol of the parser runtime (visit / visitChildren / accept / default visitX): pure dispatch on the rule name."""

    def __init__(self, interp: "Interp", name: str, obj: Any) -> None:
        self.interp = interp
        self.name = name
        self.obj = obj

    def __call__(self, *args: Any) -> Any:
        I = self.interp
        if self.name == "accept":
            return I.visit_dispatch(args[0], self.obj)
        if self.name == "visit":
            return I.visit_dispatch(self.obj, args[0])
        # visitChildren and every visitX the class does not define
        return I.visit_children(self.obj, args[0])


class _BoundNative:
    def __init__(self, obj: Any, name: str) -> None:
        self.obj = obj
        self.name = name

    def __call__(self, interp: Interp, *args: Any, **kwargs: Any) -> Any:
        o = self.obj
        n = self.name
        try:
            if n == "index" and isinstance(o, list):
                for i, x in enumerate(o):
                    if interp.equal(x, args[0]):
                        return i
                raise PyExc("ValueError", "not in list")
            if n == "remove" and isinstance(o, list):
                for i, x in enumerate(o):
                    if interp.equal(x, args[0]):
                        del o[i]
                        return None
                raise PyExc("ValueError", "list.remove(x): x not in list")
            if n == "join":
                return o.join(interp.str_(x) for x in interp.iterate(args[0]))
            return getattr(o, n)(*args, **kwargs)
        except IndexError:
            raise PyExc("IndexError", "pop from empty list")
        except KeyError as ex:
            raise PyExc("KeyError", str(ex))
        except TypeError as ex:
            raise Unsupported(f"native call {n}: {ex}")


def _b_len(x: Any) -> int:
    if isinstance(x, (list, dict, set, tuple, str, _MSeq, frozenset)):
        return len(x)
    raise Unsupported("len of abstract value")


_STDLIB_CONSTS = {"igraph.OUT": 1, "igraph.IN": 2, "igraph.ALL": 3, "string.digits": "0123456789", "string.ascii_letters": "abcdefghijklmnopqrstuvwxyzABCDEFGHIJKLMNOPQRSTUVWXYZ",
                  "string.hexdigits": "0123456789abcdefABCDEF", "string.whitespace": " \t\n\r\x0b\x0c"}

def _deepcopy(v: Any, memo: dict[int, Any] | None = None) -> Any:
    """copy.deepcopy over abstract values (sharing preserved through the memo, as in the standard library)."""
    if memo is None:
        memo = {}
    if v is None or isinstance(v, (int, str, float, bool, EnumVal, ClassVal, FuncVal, Tok, ACtx, _External, frozenset)):
        return v
    if id(v) in memo:
        return memo[id(v)]
    if isinstance(v, AObj):
        o = AObj(v.cls)
        memo[id(v)] = o
        for k, x in v.attrs.items():
            o.attrs[k] = _deepcopy(x, memo)
        return o
    if isinstance(v, list):
        out: list[Any] = []
        memo[id(v)] = out
        out.extend(_deepcopy(x, memo) for x in v)
        return out
    if isinstance(v, dict):
        d: dict[Any, Any] = {}
        memo[id(v)] = d
        for k, x in v.items():
            d[_deepcopy(k, memo)] = _deepcopy(x, memo)
        return d
    if isinstance(v, tuple):
        return tuple(_deepcopy(x, memo) for x in v)
    if isinstance(v, set):
        return {_deepcopy(x, memo) for x in v}
    raise Unsupported(f"deepcopy of {type(v).__name__}")


def _shallowcopy(v: Any) -> Any:
    if isinstance(v, AObj):
        o = AObj(v.cls)
        o.attrs = dict(v.attrs)
        return o
    if isinstance(v, (list, dict, set)):
        return v.copy()
    return v


def _consume(it: Any = (), maxlen: Any = None) -> Any:
    out = list(it)
    return out if maxlen is None else out[len(out) - maxlen:] if maxlen else []


# pure standard-library callables whose semantics are fixed by the language, not by the repository
_STDLIB_FUNCS: dict[str, Any] = {"itertools.takewhile": lambda f, it: list(itertools.takewhile(f, it)), "itertools.count": itertools.count,
                                 "itertools.chain": lambda *a: list(itertools.chain(*a)), "collections.deque": _consume, "deque": _consume, "igraph.Graph": MGraph, "itertools.combinations": lambda it, r: list(itertools.combinations(it, r)),
                                 "itertools.permutations": lambda it, r=None: list(itertools.permutations(it, r)),
                                 "itertools.product": lambda *a, **k: list(itertools.product(*a, **k)),
                                 "itertools.zip_longest": lambda *a, **k: list(itertools.zip_longest(*a, **k)),
                                 "operator.iconcat": operator.iconcat, "operator.add": operator.add, "operator.concat": operator.concat, "copy.deepcopy": lambda v, memo=None: _deepcopy(v), "copy.copy": _shallowcopy,
                                 "bisect.bisect_left": __import__("bisect").bisect_left, "bisect.bisect_right": __import__("bisect").bisect_right, "bisect.bisect": __import__("bisect").bisect,
                                 "bisect.insort": __import__("bisect").insort, "bisect.insort_left": __import__("bisect").insort_left, "bisect.insort_right": __import__("bisect").insort_right,
                                 "antlr4.ParserRuleContext": lambda *a: ACtx("_empty"), "antlr4.ParserRuleContext.ParserRuleContext": lambda *a: ACtx("_empty")}

def _b_iter(x: Any) -> Any:
    if isinstance(x, _AIter):
        return x
    return _AIter(list(x))


def _b_open(*a: Any, **k: Any) -> Any:
    raise Unsupported("open() without a virtual file system")


_BUILTINS: dict[str, Any] = {
    "open": _b_open,
    "divmod": divmod,
    "round": round,
    "pow": pow,
    "chr": chr,
    "ord": ord,
    "float": float,
    "getattr": object(),
    "setattr": object(),
    "callable": callable,
    "next": next,
    "iter": _b_iter,
    "sum": sum,
    "abs": abs,
    "frozenset": lambda x=(): frozenset(x),
    "map": lambda f, *its: [f(*a) for a in zip(*its)],
    "filter": lambda f, it: [x for x in it if (f(x) if f is not None else x)],
    "repr": repr,
    "isinstance_native": isinstance,
    "len": _b_len,
    "isinstance": object(),
    "str": object(),
    "hasattr": object(),
    "type": object(),
    "id": object(),
    "int": int,
    "bool": bool,
    "list": lambda x=(): list(x),
    "dict": lambda *a, **k: dict(*a, **k),
    "set": lambda x=(): set(x),
    "tuple": lambda x=(): tuple(x),
    "enumerate": lambda x, start=0: list(enumerate(x, start)),
    "zip": lambda *a: list(zip(*a)),
    "range": lambda *a: list(range(*a)),
    "any": lambda x: any(x),
    "all": lambda x: all(x),
    "min": min,
    "max": max,
    "sorted": sorted,
    "reversed": lambda x: list(reversed(x)),
    "print": lambda *a, **k: None,
    "True": True,
    "False": False,
    "None": None,
}

_ORDER_FREE_BUILTINS = {_BUILTINS[n] for n in ("set", "sorted", "any", "all", "min", "max", "sum", "frozenset") if n in _BUILTINS}
_ITERABLE_BUILTINS = {_BUILTINS[n] for n in ("list", "tuple", "set", "sorted", "enumerate", "zip", "any", "all", "min", "max", "reversed", "sum", "iter", "frozenset")
                      if n in _BUILTINS}
