from wlib import *
for src in ["def 0 { a(); while not ($V == 1) { b(); } }", "def 0 { a(); if ($V == 1) { jump @e; } b(); §e; }", "def 0 { a(); switch ($S) { case 1: break; case 2: c(); } }"]:
    print(src); show(comp(src))
