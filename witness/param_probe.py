import itertools, sys, logging, warnings, random
warnings.filterwarnings("ignore"); logging.disable(logging.CRITICAL)
from explorerscript.ssb_converting.ssb_compiler import ExplorerScriptSsbCompiler
from explorerscript.ssb_converting.ssb_data_types import *
from explorerscript.ssb_converting.ssb_decompiler import ExplorerScriptSsbDecompiler
from explorerscript.ssb_script.ssb_converting.ssb_decompiler import SsbScriptSsbDecompiler
from explorerscript.ssb_script.ssb_converting.ssb_compiler import SsbScriptSsbCompiler
DMC = DungeonModeConstants("DMODE_CLOSED", "DMODE_OPEN", "DMODE_REQUEST", "DMODE_OPEN_AND_REQUEST")
def O(o,n,p): return SsbOperation(o, SsbOpCode(-1,n), p)
ALPH=["a"," ","\n","'",'"',",",">","é"]
rnd=random.Random(7)
def val(p):
    if isinstance(p,SsbOpParamPositionMarker): return ("m",p.name,p.x_offset,p.y_offset,p.x_relative,p.y_relative)
    if isinstance(p,SsbOpParamFixedPoint): return ("f",p.value)
    if isinstance(p,SsbOpParamConstString): return ("s",p.name)
    if isinstance(p,SsbOpParamLanguageString): return ("l",tuple(sorted(p.strings.items())))
    if isinstance(p,SsbOpParamConstant): return ("c",p.name)
    return p
bad=0;n=0
for trial in range(int(sys.argv[1])):
    name="".join(rnd.choice(ALPH) for _ in range(rnd.randint(0,4)))
    ps=[SsbOpParamPositionMarker(name, rnd.choice([0,2]), rnd.choice([0,2]), rnd.randint(-5,300), rnd.randint(-5,300)),
        SsbOpParamFixedPoint(rnd.randint(-200,200), str(rnd.randint(0,999)).rjust(rnd.randint(1,3),"0")) if rnd.random()<0.9 else SsbOpParamFixedPoint(SsbOpParamFixedPoint.NegativeZero, "5"),
        rnd.randint(-70000,70000), SsbOpParamConstString(name), SsbOpParamLanguageString({"english":name,"french":name[::-1]})]
    ops=[O(0,"f",ps),O(1,"End",[])]
    infos=[SsbRoutineInfo(SsbRoutineType.GENERIC,0)]
    for kind in ("exps","ssbs"):
        n+=1
        try:
            if kind=="exps":
                text,_=ExplorerScriptSsbDecompiler(infos,[ops],[],"$PERF",DMC).convert()
                c=ExplorerScriptSsbCompiler("$PERF"); c.compile(text,"/x.exps")
            else:
                text,_=SsbScriptSsbDecompiler(infos,[ops],[]).convert()
                c=SsbScriptSsbCompiler(); c.compile(text)
            back=c.routine_ops[0][0].params
            ok=[val(p) for p in back]==[val(p) for p in ps]
        except Exception as ex:
            ok=False; text=f"{type(ex).__name__}: {ex}"; back=[]
        if not ok:
            bad+=1
            if bad<=6: print("BAD",kind,[val(p) for p in ps]); print("  got",[val(p) for p in back]); print(text[:200])
print(n,"checked",bad,"bad")
