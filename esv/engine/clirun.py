"""The `if __name__ == "__main__":` blocks of the command-line modules, interpreted.

One `run()` is one process: a fresh interpreter (module-level state starts empty), a virtual file system with a working directory,
an argument vector.  Modelled around the repository's code: `argparse` (the standard library's own parser is used to parse the
argument vector - it is not repository code), `json`, `print`, `exit`/`sys.exit`, `os.getcwd`, `os.path.*` and `open`.
The result is what a shell would see: exit status, standard output, standard error, and the files written.
"""

from __future__ import annotations

import argparse
import ast
import json
from typing import Any

from .absint import AObj, Env, NativeObj, PyExc, Unsupported, _External
from .loader import AnalysisError, Repo, norm
from .pipeline import Pipeline


class CliExit(BaseException):
    def __init__(self, code: Any) -> None:
        super().__init__(code)
        self.code = code


class _NNamespace(NativeObj):
    def __init__(self, ns: argparse.Namespace) -> None:
        for k, v in vars(ns).items():
            setattr(self, k, v)


class _Parser(argparse.ArgumentParser):
    def error(self, message: str) -> Any:  # argparse prints usage and exits with status 2
        raise CliExit(("argparse", 2, message))

    def exit(self, status: int = 0, message: str | None = None) -> Any:
        raise CliExit(("argparse", status, message or ""))


class _NArgParser(NativeObj):
    def __init__(self, runner: "CliRunner", **kw: Any) -> None:
        self.runner = runner
        self.p = _Parser(prog="cli", description=kw.get("description"))

    def add_argument(self, *flags: Any, **kw: Any) -> None:
        for k, v in kw.items():
            if not (v is None or isinstance(v, (str, int, bool, list, tuple))):
                raise Unsupported(f"argparse option {k}={v!r}")
        self.p.add_argument(*flags, **kw)

    def parse_args(self, args: Any = None) -> _NNamespace:
        return _NNamespace(self.p.parse_args(list(self.runner.argv if args is None else args)))


class CliRunner:
    def __init__(self, repo: Repo, fold: Any, max_steps: int = 8_000_000) -> None:
        self.repo = repo
        self.fold = fold
        self.max_steps = max_steps
        self.argv: list[str] = []
        self._grammars: Any = None

    def run(self, module: str, argv: list[str], files: dict[str, str], cwd: str = "/work") -> dict[str, Any]:
        P = Pipeline.__new__(Pipeline)
        if self._grammars is None:
            Pipeline.__init__(P, self.repo, self.fold, max_steps=self.max_steps)
            self._grammars = P.grammars
        else:
            import esv.engine.g4 as g4mod  # grammars are immutable once loaded: shared between the modelled processes
            orig = g4mod.load_grammar
            g4mod.load_grammar = lambda repo, n: self._grammars[n]  # type: ignore[assignment]
            try:
                Pipeline.__init__(P, self.repo, self.fold, max_steps=self.max_steps)
            finally:
                g4mod.load_grammar = orig
        I = P.I
        P.files = {P.abs(k) if not k.startswith("/") else k: v for k, v in files.items()}
        P.cwd = cwd
        P.writable = True
        self.argv = list(argv)
        out: list[str] = []
        err: list[str] = []

        def _print(*a: Any, sep: str = " ", end: str = "\n", file: Any = None, flush: bool = False) -> None:
            text = sep.join(I.str_(x) if isinstance(x, AObj) else str(x) for x in a) + end
            if isinstance(file, _External) and file.name == "sys.stderr":
                err.append(text)
            elif file is None or (isinstance(file, _External) and file.name == "sys.stdout"):
                out.append(text)
            elif hasattr(file, "write"):
                file.write(text)
            else:
                raise Unsupported(f"print(file={file!r})")

        def _exit(code: Any = 0) -> None:
            raise CliExit(code)

        def _json_load(f: Any) -> Any:
            try:
                return json.loads(f.read())
            except json.JSONDecodeError as ex:
                raise PyExc("JSONDecodeError", str(ex))

        def _json_loads(t: Any) -> Any:
            try:
                return json.loads(t)
            except json.JSONDecodeError as ex:
                raise PyExc("JSONDecodeError", str(ex))

        def _json_dumps(o: Any, **kw: Any) -> str:
            try:
                return json.dumps(o, **{k: v for k, v in kw.items() if k in ("indent", "sort_keys", "ensure_ascii", "separators")})
            except (TypeError, ValueError) as ex:
                raise PyExc(type(ex).__name__, str(ex))

        I.builtin_overrides.update({"print": _print, "exit": _exit, "quit": _exit})
        I.natives.update({"sys.exit": _exit, "json.load": _json_load, "json.loads": _json_loads, "json.dumps": _json_dumps,
                          "argparse.ArgumentParser": lambda **kw: _NArgParser(self, **kw)})
        mod = self.repo.mod(module)
        mains = [st for st in mod.tree.body if isinstance(st, ast.If) and "__name__" in norm(st.test) and "__main__" in norm(st.test)]
        if len(mains) != 1:
            raise AnalysisError(f"{module}: no `if __name__ == '__main__':` block")
        env = Env(mod, {}, None)
        code: Any = 0
        try:
            I.steps = 0
            I.exec_block(mains[0].body, env)
        except CliExit as ex:
            code = ex.code
            if isinstance(code, tuple) and code and code[0] == "argparse":
                err.append(f"usage error: {code[2]}\n")
                code = code[1]
        except PyExc as ex:
            # an exception nobody catches: the interpreter prints a traceback and the status is 1
            err.append(f"Traceback (most recent call last):\n{ex.cls_name}: {ex.msg}\n")
            code = 1
        if code is None:
            code = 0
        elif isinstance(code, str):
            err.append(code + "\n")
            code = 1
        return {"exit": code, "stdout": "".join(out), "stderr": "".join(err), "files": dict(P.files), "interp": I, "pipe": P}
