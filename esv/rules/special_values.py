"""C04-R8: parameter values in the statements with special syntax.

C02-R1 shows from the print templates that the statement printed for an op compiles back to that op *when the printed holes come back
as they were*.  Where a hole passes through a function or a table first (operator notations, the dungeon-mode constants, the
performance variable, bit indices), that depends on the value.  This rule builds one small routine per op with special syntax and
per value of a class table for each of its parameter slots, takes it through the interpreted decompiler and compiler
(engine.pipeline) and compares the ops that come back with the ops that went in.
"""

from __future__ import annotations

from typing import Any

from ..engine.absint import AObj, PyExc, Unsupported
from ..engine.loader import AnalysisError
from ..engine.report import Check

SPECIAL = "explorerscript.ssb_converting.ssb_special_ops"
DMC = ("DMODE_CLOSED", "DMODE_OPEN", "DMODE_REQUEST", "DMODE_OPEN_AND_REQUEST")

# value classes per role; the first value is the baseline
ROLES: dict[str, list[Any]] = {
    "var": [("const", "$SCENARIO_MAIN"), ("const", "$PERF"), 3],
    "num": [5, 0, 1, -1, 300, ("const", "CONST_X")],
    "calcop": [1, 0, 2, 3, 4, 7],
    "condop": [3, 0, 1, 2, 4, 5, 6, 7, 8, 9, 10, 42],
    "bit": [3, 0, 15],
    "bool": [1, 0, 2],
    "dmode": [0, 1, 2, 3, 4, -1, ("const", "DMODE_OPEN"), ("const", "DMODE_REQUEST"), ("const", "OTHER_CONST")],
    "str": [("str", "text"), ("str", "it's \"x\"")],
}

# op -> (kind, roles of its parameters without the jump target)
OPS: dict[str, tuple[str, list[str]]] = {
    "flag_CalcBit": ("simple", ["var", "bit", "num"]),
    "flag_CalcValue": ("simple", ["var", "calcop", "num"]),
    "flag_CalcVariable": ("simple", ["var", "calcop", "var"]),
    "flag_Clear": ("simple", ["var"]),
    "flag_Initial": ("simple", ["var"]),
    "flag_Set": ("simple", ["var", "num"]),
    "flag_ResetDungeonResult": ("simple", []),
    "flag_ResetScenario": ("simple", ["var"]),
    "flag_SetAdventureLog": ("simple", ["num"]),
    "flag_SetDungeonMode": ("simple", ["num", "dmode"]),
    "flag_SetPerformance": ("simple", ["bit", "bool"]),
    "flag_SetScenario": ("simple", ["var", "bit", "bit"]),
    "Branch": ("branch", ["var", "num"]),
    "BranchBit": ("branch", ["var", "bit"]),
    "BranchDebug": ("branch", ["bool"]),
    "BranchEdit": ("branch", ["bool"]),
    "BranchVariation": ("branch", ["bool"]),
    "BranchExecuteSub": ("branch", ["num"]),
    "BranchPerformance": ("branch", ["bit", "bool"]),
    "BranchScenarioNow": ("branch", ["var", "bit", "bit"]),
    "BranchScenarioNowAfter": ("branch", ["var", "bit", "bit"]),
    "BranchScenarioNowBefore": ("branch", ["var", "bit", "bit"]),
    "BranchScenarioAfter": ("branch", ["var", "bit", "bit"]),
    "BranchScenarioBefore": ("branch", ["var", "bit", "bit"]),
    "BranchSum": ("branch", ["var", "condop", "num"]),
    "BranchValue": ("branch", ["var", "condop", "num"]),
    "BranchVariable": ("branch", ["var", "condop", "var"]),
    "Switch": ("switch", ["var"]),
    "SwitchSector": ("switch", []),
    "SwitchScenario": ("switch", ["var"]),
    "SwitchScenarioLevel": ("switch", ["var"]),
    "SwitchRandom": ("switch", ["num"]),
    "SwitchDungeonMode": ("switch", ["num"]),
    "ProcessSpecial": ("switch", ["num", "num", "num"]),
    "message_Menu": ("switch", ["num"]),
    "main_EnterAdventure": ("switch", ["num", "num"]),
    "main_EnterRescueUser": ("switch", []),
    "main_EnterTraining": ("switch", ["num", "num"]),
    "main_EnterTraining2": ("switch", ["num", "num"]),
    "message_SwitchMenu": ("menu", ["num", "num"]),
    "message_SwitchMenu2": ("menu", ["num", "num"]),
    "Case": ("case", ["num"]),
    "CaseValue": ("case", ["condop", "num"]),
    "CaseVariable": ("case", ["condop", "var"]),
    "CaseScenario": ("case-scn", ["condop", "num"]),
    "Case@dungeon_mode": ("case-dmode", ["dmode"]),
    "CaseMenu": ("case-menu", ["str"]),
    "CaseMenu2": ("case-menu", ["num"]),
    "lives": ("ctx", ["num"]),
    "object": ("ctx", ["num"]),
    "performer": ("ctx", ["num"]),
    "message_SwitchTalk": ("text", ["var"]),
    "message_SwitchMonologue": ("text", ["var"]),
    "CaseText": ("text-case", ["num", "str"]),
    "DefaultText": ("text-default", ["str"]),
}


def special_values_rule(chk: Check, ctx: Any, rule: str) -> None:
    from ..engine.pipeline import Pipeline
    repo = ctx.repo
    fold = ctx.fold
    P = Pipeline(repo, fold, max_steps=3_000_000)
    I = P.I
    anchor = repo.func("explorerscript.ssb_converting.decompiler.write_handlers.simple_ops.flag:FlagSimpleOpWriteHandler.write_content")
    # ---- the table covers what the repository declares special
    declared: set[str] = set(fold.const(f"{SPECIAL}:OPS_FLAG_ALL")) | set(fold.const(f"{SPECIAL}:OPS_BRANCH")) | set(fold.const(f"{SPECIAL}:OPS_CTX"))
    scm = fold.const(f"{SPECIAL}:OPS_SWITCH_CASE_MAP")
    stm = fold.const(f"{SPECIAL}:OPS_SWITCH_TEXT_CASE_MAP")
    for m in (scm, stm):
        declared |= set(m)
        for v in m.values():
            declared |= set(v)
    for nm in sorted(declared):
        chk.decide(rule, f"table:{nm}", True if nm in OPS else None, anchor, f"op {nm} is declared special in ssb_special_ops but this rule has no parameter layout for it", "sampled")
    jump_idx = dict(fold.const(f"{SPECIAL}:OPS_WITH_JUMP_TO_MEM_OFFSET"))

    def mk(v: Any) -> Any:
        if isinstance(v, tuple):
            if v[0] == "const":
                return P.param("SsbOpParamConstant", v[1])
            if v[0] == "str":
                return P.param("SsbOpParamConstString", v[1])
        return v

    def val(p: Any) -> Any:
        if isinstance(p, AObj):
            c = p.cls.name
            if c == "SsbOpParamConstant":
                return ("const", p.attrs.get("name"))
            if c == "SsbOpParamConstString":
                return ("str", p.attrs.get("name"))
            if c == "SsbOpParamLanguageString":
                return ("lang", tuple(sorted(p.attrs.get("strings", {}).items())))
            return (c, repr(sorted((k, v) for k, v in p.attrs.items() if k != "indent")))
        return p

    def routine(op: str, kind: str, params: list[Any]) -> list[Any]:
        """The ops of one routine around the op under test; jump targets are the offsets used here."""
        o = P.op
        ps = [mk(v) for v in params]
        name = op.split("@")[0]
        if kind == "simple":
            return [o(1, name, ps), o(2, "End", [])]
        if kind == "branch":
            return [o(1, name, ps + [4]), o(2, "hm_a", []), o(3, "End", []), o(4, "hm_b", []), o(5, "End", [])]
        if kind in ("switch", "menu"):
            case = o(2, "Case", [7, 4]) if kind == "switch" else o(2, "CaseMenu", [mk(("str", "entry")), 4])
            return [o(1, name, ps), case, o(3, "Jump", [6]), o(4, "hm_a", []), o(5, "Jump", [6]), o(6, "End", [])]
        if kind in ("case", "case-scn", "case-dmode", "case-menu"):
            head = {"case": o(1, "Switch", [mk(("const", "$SCENARIO_MAIN"))]), "case-scn": o(1, "SwitchScenario", [mk(("const", "$SCENARIO_MAIN"))]),
                    "case-dmode": o(1, "SwitchDungeonMode", [3]), "case-menu": o(1, "message_SwitchMenu", [1, 2])}[kind]
            return [head, o(2, name, ps + [4]), o(3, "Jump", [6]), o(4, "hm_a", []), o(5, "Jump", [6]), o(6, "End", [])]
        if kind == "ctx":
            return [o(1, name, ps), o(2, "hm_a", [5]), o(3, "End", [])]
        if kind == "text":
            return [o(1, name, ps), o(2, "CaseText", [1, mk(("str", "one"))]), o(3, "DefaultText", [mk(("str", "other"))]), o(4, "End", [])]
        if kind == "text-case":
            return [o(1, "message_SwitchTalk", [mk(("const", "$SCENARIO_MAIN"))]), o(2, name, ps), o(3, "End", [])]
        if kind == "text-default":
            return [o(1, "message_SwitchTalk", [mk(("const", "$SCENARIO_MAIN"))]), o(2, "CaseText", [1, mk(("str", "one"))]), o(3, name, ps), o(4, "End", [])]
        raise AnalysisError(f"kind {kind}")

    def sem(ops: list[Any]) -> list[tuple[str, tuple[Any, ...]]]:
        out = []
        for op in ops:
            nm = op.attrs["op_code"].attrs["name"]
            if nm == "Jump":
                continue
            ps = list(op.attrs["params"])
            if nm in jump_idx and len(ps) > jump_idx[nm]:
                ps.pop(jump_idx[nm])
            out.append((nm, tuple(val(p) for p in ps)))
        return sorted(out, key=repr)

    def same(a: list[tuple[str, tuple[Any, ...]]], b: list[tuple[str, tuple[Any, ...]]], dmode_ops: set[str]) -> bool:
        if a == b:
            return True
        # a dungeon-mode number 0..3 may come back as the constant that stands for it
        def norm_d(x: list[tuple[str, tuple[Any, ...]]]) -> list[tuple[str, tuple[Any, ...]]]:
            out = []
            for nm, ps in x:
                if nm in dmode_ops and ps and isinstance(ps[-1], int) and not isinstance(ps[-1], bool) and 0 <= ps[-1] <= 3:
                    ps = ps[:-1] + (("const", DMC[ps[-1]]),)
                out.append((nm, ps))
            return sorted(out, key=repr)
        return norm_d(a) == norm_d(b)

    n = 0
    info = [P.info("GENERIC")]
    for op, (kind, roles) in OPS.items():
        variants: list[tuple[str, list[Any]]] = [("baseline", [ROLES[r][0] for r in roles])]
        for i, r in enumerate(roles):
            for v in ROLES[r][1:]:
                ps = [ROLES[x][0] for x in roles]
                ps[i] = v
                variants.append((f"slot {i} ({r}) = {v!r}", ps))
        for label, params in variants:
            key = f"special:{op}:{label}"
            n += 1
            try:
                ops_in = routine(op, kind, params)
                text, _sm = P.decompile_exps(info, [ops_in], [None])
                c2 = P.compile_exps(text)
                ops_out = c2.attrs["routine_ops"]
                a = sem(ops_in)
                b = sem([x for r in ops_out for x in r])
                dm = {"flag_SetDungeonMode"} | ({"Case"} if kind == "case-dmode" else set())
                shown = f"{op.split('@')[0]}({', '.join(repr(p) for p in params)})"
                if same(a, b, dm):
                    chk.hold(rule, key, anchor, "comes back with the same operations and parameters" + (" (fallback text)" if text.startswith("//?:") else ""))
                else:
                    diff_in = [x for x in a if x not in b]
                    diff_out = [x for x in b if x not in a]
                    stmt = next((ln.strip() for ln in text.split("\n") if ln.strip() and not ln.strip().startswith(("def ", "}", "//", "hm_", "end;", "@", "§"))), "")
                    chk.violation(rule, key, anchor,
                                  f"{shown} is printed as `{stmt[:80]}`; compiling the text gives {diff_out[:2]} instead of {diff_in[:2]}",
                                  facts={"text": text[:600]})
            except PyExc as e:
                chk.violation(rule, key, anchor, f"{op} with {params!r}: decompiling and compiling back fails with {e.cls_name}: {e.msg}")
            except (Unsupported, AnalysisError) as e:
                chk.unknown(rule, key, anchor, f"{op} with {params!r}: abstract interpretation left the modelled subset: {e}")
    chk.floor(rule, "special-syntax ops x parameter values taken through decompiler and compiler", n, 250)


def ssbs_values_rule(chk: Check, ctx: Any, rule: str) -> None:
    """C04-R9: parameter values through the SsbScript decompiler and compiler (the spelling of the fallback text), two values of a kind per op."""
    from ..engine.pipeline import Pipeline
    from .c04 import STRING_VALUES, MARK_NAMES
    repo = ctx.repo
    P = Pipeline(repo, ctx.fold, max_steps=3_000_000)
    anchor = repo.func("explorerscript.ssb_script.ssb_converting.ssb_decompiler:SsbScriptSsbDecompiler.convert")
    pa = P.param

    def val(p: Any) -> Any:
        if isinstance(p, AObj):
            return (p.cls.name, repr(sorted((k, v if not isinstance(v, dict) else sorted(v.items())) for k, v in p.attrs.items() if k != "indent")))
        return p
    cases: list[tuple[str, list[Any]]] = []
    strs = STRING_VALUES
    for i, v in enumerate(strs):
        w = strs[(i + 7) % len(strs)]
        cases.append((f"strings {v!r} + {w!r}", [pa("SsbOpParamConstString", v), pa("SsbOpParamConstString", w)]))
    for i, v in enumerate(strs[:24]):
        w = strs[(i + 5) % 24]
        cases.append((f"language strings {v!r} / {w!r}", [pa("SsbOpParamLanguageString", {"english": v, "german": "zwei\nZeilen"}), 3,
                                                          pa("SsbOpParamLanguageString", {"english": w}), pa("SsbOpParamLanguageString", {"french": v, "english": "e"})]))
    for nm in MARK_NAMES:
        cases.append((f"marks {nm!r}", [pa("SsbOpParamPositionMarker", nm, 2, 0, -1, 5), pa("SsbOpParamPositionMarker", nm + "2", 0, 2, 7, -3)]))
    cases.append(("numbers", [0, -1, 65535, pa("SsbOpParamFixedPoint", 1, "50"), pa("SsbOpParamFixedPoint", -3, "0"), pa("SsbOpParamConstant", "CONST_X"), pa("SsbOpParamConstant", "$VAR")]))
    n = 0
    for label, params in cases:
        key = f"ssbs:{label}"
        n += 1
        try:
            ops = [P.op(0, "hm_op", params), P.op(1, "End", [])]
            text, _sm = P.decompile_ssbs([P.info("GENERIC")], [ops], [None])
            c2 = P.compile_ssbs(text)
            back = c2.attrs["routine_ops"][0][0].attrs["params"]
            a, b = [val(p) for p in params], [val(p) for p in back]
            chk.decide(rule, key, a == b, anchor,
                       f"{label}: the SsbScript text is `{[ln for ln in text.split(chr(10)) if 'hm_op' in ln][:1]}`; compiling it gives {[x for x, y in zip(b, a) if x != y][:2]} instead of "
                       f"{[y for x, y in zip(b, a) if x != y][:2]}" if len(a) == len(b) else f"{label}: {len(a)} parameters come back as {len(b)}", "same values")
        except PyExc as e:
            chk.violation(rule, key, anchor, f"{label}: SsbScript decompile/compile fails with {e.cls_name}: {e.msg}")
        except (Unsupported, AnalysisError) as e:
            chk.unknown(rule, key, anchor, f"{label}: abstract interpretation left the modelled subset: {e}")
    chk.floor(rule, "ops with two parameter values of a kind through the SsbScript decompiler and compiler", n, 60)
