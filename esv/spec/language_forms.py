"""The language's form table: which op (opcode, parameters in order) a piece of syntax denotes.

Written from docs/language_spec.rst ("EoS Compiler" admonitions, operator tables) and the parameter layout of the script
engine's special opcodes — not from the compiler.  Works on parse trees of engine.g4.
"""

from __future__ import annotations

from typing import Any

from ..engine.g4 import Node, Token

COND_OPS = {"OP_FALSE": 0, "OP_TRUE": 1, "OP_EQ": 2, "CLOSE_SHARP": 3, "OPEN_SHARP": 4, "OP_GE": 5, "OP_LE": 6, "OP_NEQ": 7, "OP_AND": 8, "OP_XOR": 9, "OP_BICH": 10}
COND_NOTATION = {0: "FALSE", 1: "TRUE", 2: "==", 3: ">", 4: "<", 5: ">=", 6: "<=", 7: "!=", 8: "&", 9: "^", 10: "&<<"}
CALC_OPS = {"ASSIGN": 0, "OP_MINUS": 1, "OP_PLUS": 2, "OP_MULTIPLY": 3, "OP_DIVIDE": 4}
CALC_NOTATION = {0: "=", 1: "-=", 2: "+=", 3: "*=", 4: "/="}
SCN_BRANCH = {2: "BranchScenarioNow", 5: "BranchScenarioNowAfter", 6: "BranchScenarioNowBefore", 3: "BranchScenarioAfter", 4: "BranchScenarioBefore"}
CTX_OPS = {"actor": "lives", "object": "object", "performer": "performer"}


class Rejected(Exception):
    pass


def tok_text(t: Token | None) -> str | None:
    return t.text if t is not None else None


def il(node: Node) -> Token:
    """The single token of an integer_like."""
    t = node.first_token()
    assert t is not None
    return t


def cond_code(node: Node) -> int:
    t = node.first_token()
    assert t is not None
    if t.type not in COND_OPS:
        raise Rejected(f"unknown conditional operator {t.type}")
    return COND_OPS[t.type]


def calc_code(node: Node) -> int:
    t = node.first_token()
    assert t is not None
    if t.type not in CALC_OPS:
        raise Rejected(f"unknown assignment operator {t.type}")
    return CALC_OPS[t.type]


def operation(node: Node) -> list[tuple[str, list[Any]]]:
    name = node.tok("IDENTIFIER").text  # type: ignore[union-attr]
    args: list[Any] = []
    al = node.sub("arglist")
    if al is not None:
        for pa in al.subs("pos_argument"):
            args.append(arg_value(pa))
    ops: list[tuple[str, list[Any]]] = []
    ic = node.sub("inline_ctx")
    if ic is not None:
        ch = ic.sub("ctx_header")
        word = ch.tok("IDENTIFIER").text  # type: ignore[union-attr]
        if word not in CTX_OPS:
            raise Rejected(f"context {word}")
        ops.append((CTX_OPS[word], [il(ch.sub("integer_like"))]))  # type: ignore[arg-type]
    ops.append((name, args))
    return ops


def arg_value(pa: Node) -> Any:
    c = pa.children[0]
    if isinstance(c, Node) and c.rule == "integer_like":
        return il(c)
    if isinstance(c, Node) and c.rule == "string":
        ls = c.sub("lang_string")
        if ls is not None:
            return ("lang", [(a.tok("IDENTIFIER").text, a.sub("string_value").first_token()) for a in ls.subs("lang_string_argument")])  # type: ignore[union-attr]
        return c.first_token()
    if isinstance(c, Node) and c.rule == "position_marker":
        args = c.subs("position_marker_arg")
        return ("pos", c.tok("STRING_LITERAL"), args[0].first_token(), args[1].first_token())
    if isinstance(c, Node):
        return c.first_token()
    return c


def if_header(node: Node, perf: str, branch_ops: set[str]) -> tuple[str, list[Any]]:
    c = node.children[0]
    assert isinstance(c, Node)
    if c.rule == "if_h_negatable":
        pol = 0 if c.tok("NOT") is not None else 1
        for t, op in (("DEBUG", "BranchDebug"), ("EDIT", "BranchEdit"), ("VARIATION", "BranchVariation")):
            if c.tok(t) is not None:
                return op, [pol]
        raise Rejected("negatable header")
    if c.rule == "if_h_op":
        ils = c.subs("integer_like")
        code = cond_code(c.sub("conditional_operator"))  # type: ignore[arg-type]
        vo = c.sub("value_of")
        if vo is not None:
            return "BranchVariable", [il(ils[0]), code, il(vo.sub("integer_like"))]  # type: ignore[arg-type]
        if code == 2:
            return "Branch", [il(ils[0]), il(ils[1])]
        return "BranchValue", [il(ils[0]), code, il(ils[1])]
    if c.rule == "if_h_bit":
        var = il(c.sub("integer_like"))  # type: ignore[arg-type]
        idx = c.tok("INTEGER")
        neg = c.tok("NOT") is not None
        if var.text == perf:
            return "BranchPerformance", [idx, 0 if neg else 1]
        if neg:
            raise Rejected("`not` on a bit test of an ordinary variable")
        return "BranchBit", [var, idx]
    if c.rule == "if_h_scn":
        var = il(c.sub("scn_var").sub("integer_like"))  # type: ignore[union-attr,arg-type]
        code = cond_code(c.sub("conditional_operator"))  # type: ignore[arg-type]
        if code not in SCN_BRANCH:
            raise Rejected("scenario comparison operator")
        return SCN_BRANCH[code], [var, c.tok("INTEGER", 0), c.tok("INTEGER", 1)]
    if c.rule == "operation":
        ops = operation(c)
        if len(ops) != 1 or ops[0][0] not in branch_ops:
            raise Rejected("operation is not a branch op")
        return ops[0]
    raise Rejected(c.rule)


def switch_header(node: Node) -> tuple[str, list[Any]]:
    c = node.children[0]
    assert isinstance(c, Node)
    if c.rule == "integer_like":
        return "Switch", [il(c)]
    if c.rule == "operation":
        ops = operation(c)
        if len(ops) != 1:
            raise Rejected("switch header operation with context")
        return ops[0]
    if c.rule == "switch_h_scn":
        idx = c.tok("INTEGER").text  # type: ignore[union-attr]
        var = il(c.sub("scn_var").sub("integer_like"))  # type: ignore[union-attr,arg-type]
        if int(idx, 0) == 0:
            return "SwitchScenario", [var]
        if int(idx, 0) == 1:
            return "SwitchScenarioLevel", [var]
        raise Rejected("scn index")
    if c.rule == "switch_h_random":
        return "SwitchRandom", [il(c.sub("integer_like"))]  # type: ignore[arg-type]
    if c.rule == "switch_h_dungeon_mode":
        return "SwitchDungeonMode", [il(c.sub("integer_like"))]  # type: ignore[arg-type]
    if c.rule == "switch_h_sector":
        return "SwitchSector", []
    raise Rejected(c.rule)


def case_header(node: Node, switch_op: str) -> tuple[str, list[Any]]:
    c = node.children[0]
    assert isinstance(c, Node)
    if c.rule == "integer_like":
        return "Case", [il(c)]
    if c.rule == "case_h_menu":
        return "CaseMenu", [c.sub("string").first_token()]  # type: ignore[union-attr]
    if c.rule == "case_h_menu2":
        return "CaseMenu2", [il(c.sub("integer_like"))]  # type: ignore[arg-type]
    if c.rule == "case_h_op":
        code = cond_code(c.sub("conditional_operator"))  # type: ignore[arg-type]
        vo = c.sub("value_of")
        if vo is not None:
            return "CaseVariable", [code, il(vo.sub("integer_like"))]  # type: ignore[arg-type]
        name = "CaseScenario" if switch_op == "SwitchScenario" else "CaseValue"
        return name, [code, il(c.sub("integer_like"))]  # type: ignore[arg-type]
    raise Rejected(c.rule)


def assignment(node: Node, perf: str) -> tuple[str, list[Any]]:
    c = node.children[0]
    assert isinstance(c, Node)
    r = c.rule
    if r == "assignment_regular":
        ils = c.subs("integer_like")
        vo = c.sub("value_of")
        idx = c.tok("INTEGER")
        code = calc_code(c.sub("assign_operator"))  # type: ignore[arg-type]
        if idx is not None:
            if vo is not None:
                raise Rejected("value() with index assignment")
            if il(ils[0]).text == perf:
                return "flag_SetPerformance", [idx, il(ils[1])]
            return "flag_CalcBit", [il(ils[0]), idx, il(ils[1])]
        if vo is not None:
            return "flag_CalcVariable", [il(ils[0]), code, il(vo.sub("integer_like"))]  # type: ignore[arg-type]
        if code == 0:
            return "flag_Set", [il(ils[0]), il(ils[1])]
        return "flag_CalcValue", [il(ils[0]), code, il(ils[1])]
    if r == "assignment_clear":
        return "flag_Clear", [il(c.sub("integer_like"))]  # type: ignore[arg-type]
    if r == "assignment_initial":
        return "flag_Initial", [il(c.sub("integer_like"))]  # type: ignore[arg-type]
    if r == "assignment_reset":
        if c.tok("DUNGEON_RESULT") is not None:
            return "flag_ResetDungeonResult", []
        return "flag_ResetScenario", [il(c.sub("scn_var").sub("integer_like"))]  # type: ignore[union-attr,arg-type]
    if r == "assignment_adv_log":
        return "flag_SetAdventureLog", [il(c.sub("integer_like"))]  # type: ignore[arg-type]
    if r == "assignment_dungeon_mode":
        ils = c.subs("integer_like")
        return "flag_SetDungeonMode", [il(ils[0]), il(ils[1])]
    if r == "assignment_scn":
        return "flag_SetScenario", [il(c.sub("integer_like")), c.tok("INTEGER", 0), c.tok("INTEGER", 1)]  # type: ignore[arg-type]
    raise Rejected(r)


def simple_stmt(node: Node, perf: str) -> list[tuple[str, list[Any]]]:
    """ops denoted by a simple_stmt that is an operation, control statement or assignment."""
    c = node.children[0]
    assert isinstance(c, Node)
    if c.rule == "operation":
        return operation(c)
    if c.rule == "assignment":
        return [assignment(c, perf)]
    if c.rule == "cntrl_stmt":
        for t, op in (("RETURN", "Return"), ("END", "End"), ("HOLD", "Hold")):
            if c.tok(t) is not None:
                return [(op, [])]
        raise Rejected("loop/case control statement")
    if c.rule == "jump":
        return [("Jump", [("label", c.tok("IDENTIFIER").text)])]  # type: ignore[union-attr]
    if c.rule == "call":
        return [("Call", [("label", c.tok("IDENTIFIER").text)])]  # type: ignore[union-attr]
    raise Rejected(c.rule)


def multiline_value(text: str) -> str:
    """Value of a multi-line string literal per the specification's indentation rules."""
    body = text[3:-3]
    lines = body.split("\n")
    if len(lines) == 1:
        return lines[0]
    first, middle, last = lines[0], lines[1:-1], lines[-1]
    dedent_set = list(middle)
    last_blank = last.strip(" ") == ""
    if not last_blank:
        dedent_set.append(last)
    ind = min((len(ln) - len(ln.lstrip(" ")) for ln in dedent_set), default=0)
    out = [first] + [ln[ind:] if len(ln) - len(ln.lstrip(" ")) >= ind else ln.lstrip(" ") for ln in dedent_set]
    if last_blank:
        out.append("")
    if out and out[0] == "":
        out = out[1:]
    if out and out[-1] == "":
        out = out[:-1]
    return "\n".join(out)


def position_arg(text: str) -> tuple[int, int]:
    """(tile, offset) of a position mark coordinate: `.5` puts the mark between two tiles (offset 2)."""
    if "." not in text:
        return int(text, 0), 0
    whole, _, fr = text.partition(".")
    fr = fr.rstrip("0")
    if fr == "":
        return int(whole or "0"), 0
    if fr == "5":
        return int(whole or "0"), 2
    raise Rejected("position fraction other than .5")
