"""Differential triage: the interpreted pipeline (engine.pipeline) against the real code on the skeleton family.
Run: PYTHONPATH=/repo /venv/bin/python witness/pipeline_diff.py [stride] [offset]   (never used by a check)"""
import sys, time
sys.path.insert(0, "/verif"); sys.path.insert(0, "/verif/witness")
from wlib import comp, decomp
from esv.engine.context import Ctx
from esv.engine.loader import Repo
from esv.engine.pipeline import Pipeline
from esv.engine.absint import PyExc, Unsupported, AObj
from esv.engine.sta import show
from esv.spec.skeletons import all_skeletons, gen_random, gen_extra
import os
if os.environ.get("FAMILY") == "random":
    all_skeletons = lambda t: gen_random(True)
elif os.environ.get("FAMILY") == "extra":
    all_skeletons = lambda t: gen_extra(True)
stride = int(sys.argv[1]) if len(sys.argv) > 1 else 20
offset = int(sys.argv[2]) if len(sys.argv) > 2 else 0
repo = Repo(); ctx = Ctx(repo, "quick")
P = Pipeline(repo, ctx.fold)
I = P.I
def ops_real(c):
    return [[(op.op_code.name, [str(p) for p in op.params]) for op in r] for r in c.routine_ops]
def ops_abs(c):
    return [[(op.attrs["op_code"].attrs["name"], [I.str_strict(p) for p in op.attrs["params"]]) for op in r] for r in c.attrs["routine_ops"]]
n = bad = unsup = 0
t0 = time.time()
for idx, (fam, prog) in enumerate(all_skeletons(False)):
    if idx % stride != offset:
        continue
    text = " ".join(f"def {i} {{ {show(r)} }}" for i, r in enumerate(prog))
    n += 1
    try:
        rc = comp(text.replace("$PERF", "$P")); r_err = None
    except Exception as e:
        rc, r_err = None, type(e).__name__
    try:
        ac = P.compile_exps(text, perf="$P"); a_err = None
    except PyExc as e:
        ac, a_err = None, e.cls_name
    except Unsupported as e:
        unsup += 1; print("UNSUPPORTED compile", fam, str(e)[:100], "|", text[:100]); continue
    if (r_err is None) != (a_err is None) or (r_err and r_err != a_err):
        bad += 1; print("COMPILE-ERR-DIFF", fam, r_err, a_err, "|", text[:140]); continue
    if r_err:
        continue
    if ops_real(rc) != ops_abs(ac):
        bad += 1; print("COMPILE-DIFF", fam, "|", text[:140]); continue
    import signal
    class _TO(BaseException): pass
    def _h(*a): raise _TO()
    signal.signal(signal.SIGALRM, _h); signal.alarm(20)
    try:
        rt, _ = decomp(rc); rd_err = None
    except _TO:
        signal.alarm(0); print("REAL-TIMEOUT(20s)", fam, "|", text[:160]); continue
    except Exception as e:
        rt, rd_err = None, type(e).__name__
    signal.alarm(0)
    try:
        at, _ = P.decompile_exps(ac.attrs["routine_infos"], ac.attrs["routine_ops"], ac.attrs["named_coroutines"], perf="$P"); ad_err = None
    except PyExc as e:
        at, ad_err = None, e.cls_name
    except Unsupported as e:
        unsup += 1; print("UNSUPPORTED decompile", fam, str(e)[:120], "|", text[:100]); continue
    if rd_err != ad_err or rt != at:
        bad += 1
        print("DECOMPILE-DIFF", fam, rd_err, ad_err, "|", text[:200])
        if rt and at:
            import difflib
            print("\n".join(list(difflib.unified_diff(rt.splitlines(), at.splitlines(), "real", "interpreted", lineterm=""))[:14]))
print(f"programs {n} mismatches {bad} unsupported {unsup} in {time.time()-t0:.0f}s")
