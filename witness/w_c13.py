from wlib import *
progs = {
 "ifelse": "def 0 { a(); if ($V == 1) { b(); } else { c(); } e(); end; }",
 "if": "def 0 { a(); if ($V == 1) { b(); } e(); end; }",
 "switch": "def 0 { a(); switch ($V) { case 1: b(); break; case 2: c(); break; default: d(); break; } e(); end; }",
 "grouped": "def 0 { switch ($V) { case 1: case 2: c(); break; default: d(); break; } e(); end; }",
 "while": "def 0 { while ($V < 3) { a(); } end; }",
 "elseif": "def 0 { if ($V == 1 || debug) { b(); } elseif (not edit) { c(); } else { d(); } e(); end; }",
 "forever": "def 0 { forever { a(); if (debug) { break_loop; } b(); } end; }",
}
import sys
for k, src in progs.items():
    if len(sys.argv) > 1 and k not in sys.argv[1:]: continue
    print("=====", k)
    try:
        c = comp(src)
        txt, sm = decomp(c)
        print(txt)
    except Exception as e:
        import traceback; traceback.print_exc()
