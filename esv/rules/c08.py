"""C08 — compile-time source map: every emitted op maps to where it was written."""

from __future__ import annotations

import ast
from typing import Any

from ..engine import astq
from ..engine.cfg import build_cfg, stmt_of
from ..engine.emit import emission_sites, in_compiler
from ..engine.loader import AnalysisError, Func, dotted, norm, walk_no_nested
from ..engine.report import Check, fkey
from .c18 import position_expr_kind, check_mark_construction

ABS = "explorerscript.ssb_converting.compiler.compile_handlers.abstract"
UTILS = "explorerscript.ssb_converting.compiler.utils"
MACRO = "explorerscript.macro"
COMPILER = "explorerscript.ssb_converting.ssb_compiler"
LISTENER = "explorerscript.ssb_script.ssb_converting.compiler.compiler_listener"
CH = "explorerscript.ssb_converting.compiler.compile_handlers"


def _linear(e: ast.AST, env: dict[str, tuple[int, int]]) -> tuple[int, int] | None:
    """Value of e as a*n + b where n = number of non-label blueprint ops (symbolic)."""
    if isinstance(e, ast.Constant) and isinstance(e.value, int):
        return (0, e.value)
    t = norm(e)
    if t in env:
        return env[t]
    if isinstance(e, ast.BinOp) and isinstance(e.op, (ast.Add, ast.Sub)):
        l, r = _linear(e.left, env), _linear(e.right, env)
        if l is None or r is None:
            return None
        s = 1 if isinstance(e.op, ast.Add) else -1
        return (l[0] + s * r[0], l[1] + s * r[1])
    return None


def run(chk: Check, ctx: Any) -> None:
    repo = ctx.repo
    fold = ctx.fold
    chk.explanation = (
        "Decides for all programs: (R1) every op construction in the compiler is followed by a source-map registration under the same "
        "number (or reuses the number of a registered op), and break/continue/break_loop jumps are re-registered at their own statement; "
        "(R2) every line/column handed to the source map builder is <own ctx>.start.line - 1 / <own ctx>.start.column (stop.* for span ends); "
        "(R3) the macro return address is counter + (number of non-label blueprint ops) + 1 for top-level and nested expansions alike, is "
        "pushed before the first op number is drawn, each non-label blueprint element draws exactly one number and labels none, pushes and pops "
        "are paired; (R4) imported macros carry a path relative to the compiled file (original_base_file is handed down, paths of transitively "
        "imported macros are not overwritten, relayed entries/marks with file None get the relaying macro's file); each macro has its own "
        "source map builder; (R5) position marks are built from the argument they describe. Not decided: which anchor token is right for "
        "synthetic ops beyond 'the handler's own context'."
        " (R6/R7, interpreter-based) compile() is evaluated on laid-out sample programs and on a three-level multi-file macro project; entries are compared wit"
        "h positions taken from the grammar's own parse trees."
    )
    chk.rule("C08-R7", "compile() interpreted on a multi-file macro project: every op of an expansion has a macro entry naming the defining file (relative to the compiled file, null = same), the macro and the position of its statement there; exactly the first op of an expansion carries the call position; the return address lies after the expansion and not after the next op; files named = files that contributed ops; recorded marks = emitted marks")
    chk.rule("C08-R1", "each SsbOperation construction is registered under its number (add_opcode / add_macro_opcode / _register_operation), or reuses a registered offset")
    chk.rule("C08-R2", "positions passed to the source map are <ctx>.start.line - 1 and <ctx>.start.column of the handler's own context (stop.* for end positions)")
    chk.rule("C08-R3", "return address = op counter + #(non-label blueprint ops) + 1 (own and nested pushes), pushed before numbers are drawn; one number per non-label element; push/pop paired")
    chk.rule("C08-R4", "macro file paths are relative to the originally compiled file and belong to the defining file; None entries are corrected by the relaying macro; one builder per macro")
    chk.rule("C08-R6", "direct ops: whole compiler interpreted on sample programs in four layouts; every emitted op has an entry at the line and column where its "
                       "statement, condition, switch or case header begins (positions from the grammar's own parse tree)")
    chk.rule("C08-R5", "ArgList builds the position mark from the same argument object it returns")

    # ------------------------------------------------------------------ R1
    gen = repo.func(f"{ABS}:AbstractCompileHandler._generate_operation")
    reg = repo.func(f"{ABS}:AbstractCompileHandler._register_operation")
    ret = astq.single_return_expr(gen.node)
    ok = isinstance(ret, ast.Call) and dotted(ret.func) == "self._register_operation" and ret.args and isinstance(ret.args[0], ast.Call) \
        and dotted(ret.args[0].func) == "SsbOperation" and norm(ret.args[0].args[0]).endswith("counter_ops()")
    chk.decide("C08-R1", "_generate_operation", ok, gen,
               "_generate_operation does not register the op it creates (it must return _register_operation(SsbOperation(counter_ops(), ...)))",
               "creates with counter_ops() and registers")
    adds = [c for c in walk_no_nested(reg.node) if isinstance(c, ast.Call) and isinstance(c.func, ast.Attribute) and c.func.attr == "add_opcode"]
    if len(adds) != 1:
        chk.decide("C08-R1", "_register_operation", False if not adds else None, reg, "_register_operation does not call add_opcode exactly once", "")
    else:
        a = adds[0]
        chk.decide("C08-R1", "_register_operation", norm(a.args[0]).endswith("counter_ops.count"), reg,
                   f"_register_operation registers under {norm(a.args[0])}; the op just created has number counter_ops.count", "registered under counter_ops.count", node=a)
        _positions(chk, reg, a, {"self.ctx"}, line_i=1, col_i=2)
        rr = astq.single_return_expr(reg.node)
        chk.decide("C08-R1", "_register_operation:returns-op", rr is not None and norm(rr) == astq.params_of(reg.node)[0], reg,
                   "_register_operation does not return the op it was given", "returns the op")
    # raw constructions
    sites = [e for e in emission_sites(repo, fold) if e.kind == "raw" and not e.func.mod.name.startswith(LISTENER) and e.func != gen]
    chk.floor("C08-R1", "raw SsbOperation constructions (besides _generate_operation)", len(sites), 4)
    for e in sites:
        off = astq.inline_locals(e.func.node, e.offset_expr) if e.offset_expr is not None else None
        key = fkey(e.func, e.call)
        regs = [c for c in walk_no_nested(e.func.node) if isinstance(c, ast.Call) and isinstance(c.func, ast.Attribute)
                and c.func.attr in ("add_opcode", "add_macro_opcode")]
        txt = norm(off) if off is not None else ""
        if txt.endswith(".offset"):
            chk.hold("C08-R1", key, e.func, f"reuses the registered number {txt}", node=e.call)
            continue
        same = [c for c in regs if c.args and norm(astq.inline_locals(e.func.node, c.args[0])) == txt or
                (c.args and isinstance(e.offset_expr, ast.Name) and isinstance(c.args[0], ast.Name) and c.args[0].id == e.offset_expr.id)]
        if same:
            chk.hold("C08-R1", key, e.func, f"registered under the same number ({norm(same[0].args[0])})", node=e.call)
            if same[0].func.attr == "add_opcode":  # type: ignore[union-attr]
                _positions(chk, e.func, same[0], {"self.ctx"}, line_i=1, col_i=2)
        elif regs:
            chk.violation("C08-R1", key, e.func, f"the op is numbered {txt} but the source map entry is stored under {norm(regs[0].args[0])}", node=e.call)
        else:
            chk.violation("C08-R1", key, e.func, f"an op numbered {txt} is created without a source map entry", node=e.call)
    # control statements re-register jumps built by the loop/case handler at their own position
    cs = repo.func(f"{CH}.statements.control_statement:ControlStatementCompileHandler.collect")
    n_cs = 0
    for c in walk_no_nested(cs.node):
        if isinstance(c, ast.Call) and isinstance(c.func, ast.Attribute) and c.func.attr in ("continue_loop", "break_loop", "break_case") \
                and "compiler_ctx" in norm(c.func.value):
            n_cs += 1
            wrapped = any(isinstance(w, ast.Call) and dotted(w.func) == "self._register_operation" and any(x is c for a in w.args for x in ast.walk(a))
                          for w in walk_no_nested(cs.node))
            chk.decide("C08-R1", fkey(cs, c), wrapped, cs,
                       f"the jump built by {c.func.attr}() was registered by the enclosing loop/case handler at *its* position; without re-registering it here "
                       "the source map puts the statement on the loop/case header", "re-registered at the statement", node=c)
    chk.floor("C08-R1", "loop/case jumps in ControlStatementCompileHandler", n_cs, 3)

    # ------------------------------------------------------------------ R2 remaining position sites
    n_pos = 0
    for f in repo.all_funcs():
        if not in_compiler(f) or f.mod.name.startswith(LISTENER):
            continue
        for c in walk_no_nested(f.node):
            if isinstance(c, ast.Call) and isinstance(c.func, ast.Attribute) and c.func.attr == "next_macro_opcode_called_in" and f.mod.name != MACRO:
                n_pos += 1
                _positions(chk, f, c, {"self.ctx"}, line_i=1, col_i=2)
    bf = repo.func(f"{UTILS}:SsbLabelJumpBlueprint.build_for")
    for c in walk_no_nested(bf.node):
        if isinstance(c, ast.Call) and isinstance(c.func, ast.Attribute) and c.func.attr == "add_opcode":
            n_pos += 1
    # listener (SsbScript) sites
    lf = repo.func(f"{LISTENER}:SsbScriptCompilerListener.exitOperation")
    for c in walk_no_nested(lf.node):
        if isinstance(c, ast.Call) and isinstance(c.func, ast.Attribute) and c.func.attr == "add_opcode":
            n_pos += 1
            _positions(chk, lf, c, {astq.params_of(lf.node)[0]}, line_i=1, col_i=2)
            ops_built = [x for x in walk_no_nested(lf.node) if isinstance(x, ast.Call) and dotted(x.func) == "SsbOperation"]
            chk.decide("C08-R1", fkey(lf, c), bool(ops_built) and norm(ops_built[0].args[0]) == norm(c.args[0]), lf,
                       "the SsbScript op is registered under a different number than it was created with", "registered under its number", node=c)
    chk.floor("C08-R2", "position sites outside the op constructors", n_pos, 3)

    # ------------------------------------------------------------------ R3
    _return_address(chk, ctx)

    # ------------------------------------------------------------------ R4
    _files(chk, ctx)
    from .positions import direct_positions_rule
    direct_positions_rule(chk, ctx, "C08-R6")

    # ------------------------------------------------------------------ R5
    al = repo.func(f"{CH}.operations.arg_list:ArgListCompileHandler.collect")
    calls = [c for c in walk_no_nested(al.node) if isinstance(c, ast.Call) and dotted(c.func) == "SourceMapPositionMark"]
    if len(calls) != 1:
        chk.unknown("C08-R5", "arglist:mark", al, "SourceMapPositionMark(...) not built exactly once")
    else:
        check_mark_construction(chk, ctx, "C08-R2", "C08-R5", al, calls[0], {"self.ctx"}, True)
        # the mark's fields come from the variable that is appended to the returned list
        app = [c for c in walk_no_nested(al.node) if isinstance(c, ast.Call) and isinstance(c.func, ast.Attribute) and c.func.attr == "append"
               and isinstance(c.args[0], ast.Name)]
        src_vars = {n.value.id for a in calls[0].args for n in ast.walk(a) if isinstance(n, ast.Attribute) and isinstance(n.value, ast.Name)
                    and n.attr in ("name", "x_offset", "y_offset", "x_relative", "y_relative")}
        ok = bool(app) and src_vars == {app[0].args[0].id}  # type: ignore[union-attr]
        chk.decide("C08-R5", "arglist:same-arg", ok, al, f"the mark is built from {sorted(src_vars)} but the returned parameter is {norm(app[0].args[0]) if app else '?'}",
                   "mark built from the returned argument")
    from .macros import macro_map_rule
    macro_map_rule(chk, ctx, "C08-R7")



def _positions(chk: Check, f: Func, call: ast.Call, own: set[str], line_i: int, col_i: int) -> None:
    for idx, want in ((line_i, "start.line-1"), (col_i, "start.column")):
        if idx >= len(call.args):
            chk.unknown("C08-R2", fkey(f, call, f"arg{idx}"), f, "position argument missing", node=call)
            continue
        e = astq.inline_locals(f.node, call.args[idx])
        k = position_expr_kind(e)
        key = fkey(f, None, f"{call.func.attr}:{want}")  # type: ignore[union-attr]
        if k is None:
            chk.unknown("C08-R2", key, f, f"position argument {norm(e)} is not a token position expression", node=call)
            continue
        base, kind = k
        if base not in own:
            chk.violation("C08-R2", key, f, f"position is taken from {base}, not from the handler's own context ({sorted(own)})", node=call)
        elif kind != want:
            chk.violation("C08-R2", key, f, f"position is <ctx>.{kind}, must be <ctx>.{want} (ANTLR lines are 1-based, columns 0-based; entries are zero-based "
                                          "and point at the first token)", node=call)
        else:
            chk.hold("C08-R2", key, f, f"<{base}>.{kind}", node=call)


def _return_address(chk: Check, ctx: Any) -> None:
    repo = ctx.repo
    build = repo.func(f"{MACRO}:ExplorerScriptMacro.build")
    fn = build.node
    ps = astq.params_of(fn)
    cnt, smb = ps[0], ps[3]
    # Counter.next_id
    nid = repo.func(f"{UTILS}:Counter.next_id")
    nr = astq.single_return_expr(nid.node)
    next_id_rel = 1 if nr is not None and norm(nr) == "self.count + 1" else None
    # n: len([o for o in self.blueprints if not isinstance(o, SsbLabel)])
    env: dict[str, tuple[int, int]] = {f"{cnt}.count": (0, 0)}
    if next_id_rel is not None:
        env[f"{cnt}.next_id"] = (0, next_id_rel)
    lenvar = None
    # the other spelling: the count is taken once in __init__ from the blueprint list (which nothing replaces or changes afterwards)
    count_attr = None
    mcls = repo.cls(f"{MACRO}.ExplorerScriptMacro")
    init = mcls.methods.get("__init__")
    if init is not None:
        for n in walk_no_nested(init):
            if isinstance(n, ast.Assign) and len(n.targets) == 1 and astq.self_attr(n.targets[0]) and isinstance(n.value, ast.Call) \
                    and dotted(n.value.func) == "len" and n.value.args and isinstance(n.value.args[0], (ast.ListComp, ast.GeneratorExp)):
                g = n.value.args[0].generators[0]
                if len(g.ifs) == 1 and norm(g.ifs[0]) == f"not isinstance({norm(g.target)}, SsbLabel)" and norm(g.iter) in ("blueprints", "self.blueprints") \
                        and norm(n.value.args[0].elt) == norm(g.target):
                    count_attr = astq.self_attr(n.targets[0])
        if count_attr is not None:
            stable = True
            for mname, m in mcls.methods.items():
                for n in walk_no_nested(m):
                    tg = n.targets if isinstance(n, ast.Assign) else [n.target] if isinstance(n, (ast.AugAssign, ast.AnnAssign)) else []
                    for t in tg:
                        if astq.self_attr(t) in (count_attr, "blueprints") and mname != "__init__":
                            stable = False
                    if isinstance(n, ast.Call) and isinstance(n.func, ast.Attribute) and astq.self_attr(n.func.value) == "blueprints" \
                            and n.func.attr in ("append", "extend", "insert", "pop", "remove", "clear", "sort", "reverse"):
                        stable = False
            if stable:
                env[f"self.{count_attr}"] = (1, 0)
            else:
                count_attr = None
    for n in walk_no_nested(fn):
        if isinstance(n, ast.Assign) and isinstance(n.targets[0], ast.Name):
            if count_attr is not None and f"self.{count_attr}" in norm(n.value):
                v0 = _linear(n.value, env)
                if v0 is not None:
                    lenvar = n.targets[0].id
                    env[lenvar] = v0
                    continue
            for c in ast.walk(n.value):
                if isinstance(c, ast.Call) and dotted(c.func) == "len" and c.args and isinstance(c.args[0], (ast.ListComp, ast.GeneratorExp)):
                    comp = c.args[0]
                    g = comp.generators[0]
                    cond_ok = len(g.ifs) == 1 and norm(g.ifs[0]) in (f"not isinstance({norm(g.target)}, SsbLabel)",)
                    src_ok = norm(g.iter) == "self.blueprints"
                    if not (cond_ok and src_ok):
                        chk.violation("C08-R3", "build:count-real-ops", build,
                                      f"the number of real ops is computed as `{norm(c)}`; it must count the blueprint elements that are not SsbLabel "
                                      "(labels draw no op number)", node=n)
                        return
                    env2 = dict(env)
                    env2[norm(c)] = (1, 0)
                    v = _linear(n.value, env2)
                    if v is not None:
                        lenvar = n.targets[0].id
                        env[lenvar] = v
    if lenvar is None:
        chk.unknown("C08-R3", "build:count-real-ops", build, "count of non-label blueprint ops not found")
        return
    chk.hold("C08-R3", "build:count-real-ops", build, f"{lenvar} = {env[lenvar][0]}*n + {env[lenvar][1]} (n = non-label blueprint elements)")
    pushes = [c for c in walk_no_nested(fn) if isinstance(c, ast.Call) and isinstance(c.func, ast.Attribute) and c.func.attr == "macro_context__push"]
    pops = [c for c in walk_no_nested(fn) if isinstance(c, ast.Call) and isinstance(c.func, ast.Attribute) and c.func.attr == "macro_context__pop"]
    loop = next((n for n in fn.body if isinstance(n, ast.For) and norm(n.iter) == "self.blueprints"), None)
    if loop is None or len(pushes) != 2:
        chk.unknown("C08-R3", "build:shape", build, "loop over self.blueprints / two macro_context__push calls not found")
        return
    own = [p for p in pushes if not any(x is p for x in ast.walk(loop))]
    nested = [p for p in pushes if any(x is p for x in ast.walk(loop))]
    if len(own) != 1 or len(nested) != 1:
        chk.unknown("C08-R3", "build:shape", build, "own/nested push not identified")
        return
    v_own = _linear(astq.inline_locals(fn, own[0].args[0], keep=(lenvar,)), env)
    chk.decide("C08-R3", "build:own-return-address", (v_own == (1, 1)) if v_own is not None else None, build,
               f"the pushed return address is counter + {v_own[0] if v_own else '?'}*n + {v_own[1] if v_own else '?'}; the first op after the expansion has "
               "number counter + n + 1", "return address = counter + n + 1", node=own[0])
    # what is stored as length_of_macro in the start label
    starts = [c for c in walk_no_nested(fn) if isinstance(c, ast.Call) and dotted(c.func) == "MacroStartSsbLabel"]
    lcls = repo.cls(f"{MACRO}.MacroStartSsbLabel")
    linit = repo.find_method(lcls, "__init__")
    length_val = None
    if starts and linit is not None:
        b = astq.bind_call_args(starts[0], astq.params_of(linit.node))
        if "length_of_macro" in b:
            length_val = _linear(astq.inline_locals(fn, b["length_of_macro"], keep=(lenvar,)), env)
    if length_val is None:
        chk.unknown("C08-R3", "build:nested-return-address", build, "length_of_macro stored in the start label not traced")
    else:
        env["blueprint_op.length_of_macro"] = length_val
        v_n = _linear(nested[0].args[0], env)
        chk.decide("C08-R3", "build:nested-return-address", (v_n == (1, 1)) if v_n is not None else None, build,
                   f"a nested expansion pushes counter + {v_n[0] if v_n else '?'}*n + {v_n[1] if v_n else '?'} (length_of_macro holds {length_val[0]}*n + {length_val[1]}); "
                   "the first op after the nested expansion is counter + n + 1", "nested return address = counter + n + 1", node=nested[0])
    # copies of start labels relay the length unchanged
    cp = repo.func(f"{MACRO}:ExplorerScriptMacro._copy_blueprint_label")
    for c in walk_no_nested(cp.node):
        if isinstance(c, ast.Call) and dotted(c.func) == "MacroStartSsbLabel" and linit is not None:
            b = astq.bind_call_args(c, astq.params_of(linit.node))
            chk.decide("C08-R3", "copy-label:length", norm(b.get("length_of_macro", ast.Constant(None))).endswith(".length_of_macro"), cp,
                       "the copied start label does not keep length_of_macro", "length relayed", node=c)
            chk.decide("C08-R3", "copy-label:mapping", norm(b.get("parameter_mapping", ast.Constant(None))).endswith(".parameter_mapping"), cp,
                       "the copied start label does not keep parameter_mapping", "mapping relayed", node=c)
    # every blueprint label reaches the output through _copy_blueprint_label (which keeps the start/end label type that drives the nested push/pop)
    raw = [c for c in ast.walk(loop) if isinstance(c, ast.Call) and (dotted(c.func) or "") in ("SsbLabel", "MacroStartSsbLabel", "MacroEndSsbLabel")
           and any("blueprint_op" in norm(a) for a in list(c.args) + [k.value for k in c.keywords])]
    chk.decide("C08-R3", "build:labels-copied-with-type", not raw, build,
               f"`{norm(raw[0])[:70] if raw else ''}` re-creates a blueprint label as a plain label: the start/end label of a nested expansion loses its type, the outer "
               "expansion no longer pushes/pops the nested return address and ops after the nested call carry the wrong return address",
               "blueprint labels are copied by _copy_blueprint_label only", node=raw[0] if raw else None)
    # push before any number is drawn
    cfg = build_cfg(fn)
    dom = cfg.dominators()
    pst = stmt_of(cfg, own[0])
    draws = [c for c in walk_no_nested(fn) if isinstance(c, ast.Call) and (norm(c.func) == cnt or (
        isinstance(c.func, ast.Attribute) and c.func.attr == "_build_op"))]
    ok = pst is not None and all((d := stmt_of(cfg, c)) is not None and cfg.dominates(pst, d, dom) and d is not pst for c in draws)
    chk.decide("C08-R3", "build:push-before-numbers", ok if draws else None, build, "an op number is drawn before the return address is pushed", "push dominates every number draw")
    # one _build_op per non-label element, none for labels
    chain = next((n for n in loop.body if isinstance(n, ast.If) and "isinstance(blueprint_op, SsbLabel)" == norm(n.test)), None)
    if chain is None:
        chk.unknown("C08-R3", "build:one-number-per-op", build, "label / non-label dispatch chain not found")
    else:
        branches: list[tuple[str, list[ast.stmt]]] = []
        cur: ast.stmt | None = chain
        while isinstance(cur, ast.If):
            branches.append((norm(cur.test), cur.body))
            if len(cur.orelse) == 1 and isinstance(cur.orelse[0], ast.If):
                cur = cur.orelse[0]
            else:
                branches.append(("else", cur.orelse))
                cur = None
        bad = []
        for test, body in branches:
            k = sum(1 for st in body for c in ast.walk(st) if isinstance(c, ast.Call) and isinstance(c.func, ast.Attribute) and c.func.attr == "_build_op")
            want = 0 if test == "isinstance(blueprint_op, SsbLabel)" else 1
            if k != want:
                bad.append(f"branch `{test}` draws {k} op number(s), expected {want}")
        chk.decide("C08-R3", "build:one-number-per-op", not bad, build, "; ".join(bad), "labels draw none, every other element exactly one")
    bo = repo.func(f"{MACRO}:ExplorerScriptMacro._build_op")
    nd = [c for c in walk_no_nested(bo.node) if isinstance(c, ast.Call) and norm(c.func) == astq.params_of(bo.node)[0]]
    chk.decide("C08-R3", "_build_op:one-number", len(nd) == 1, bo, f"_build_op draws {len(nd)} numbers from the op counter", "one number per built op")
    # pops: own pop after the loop on every path; nested push/pop under Start/End label tests
    own_pops = [p for p in pops if not any(x is p for x in ast.walk(loop))]
    nested_pops = [p for p in pops if any(x is p for x in ast.walk(loop))]
    ok_pop = len(own_pops) == 1 and own_pops[0].lineno > loop.end_lineno  # type: ignore[operator]
    chk.decide("C08-R3", "build:own-pop", ok_pop, build, "the expansion's return address is not popped exactly once after the blueprint loop", "popped after the loop")
    ok_n = False
    if len(nested_pops) == 1:
        for n in ast.walk(loop):
            if isinstance(n, ast.If) and "MacroStartSsbLabel" in norm(n.test) and any(x is nested[0] for x in ast.walk(ast.Module(body=n.body, type_ignores=[]))):
                if len(n.orelse) == 1 and isinstance(n.orelse[0], ast.If) and "MacroEndSsbLabel" in norm(n.orelse[0].test) and any(
                        x is nested_pops[0] for x in ast.walk(n.orelse[0])):
                    ok_n = True
    chk.decide("C08-R3", "build:nested-push-pop", ok_n, build, "nested expansions are not pushed at their start label and popped at their end label", "push at start label, pop at end label")


def _files(chk: Check, ctx: Any) -> None:
    repo = ctx.repo
    comp = repo.func(f"{COMPILER}:ExplorerScriptSsbCompiler.compile")
    fn = comp.node
    # original_base_file defaults to file_name and is handed to sub-compilers
    sub = [c for c in walk_no_nested(fn) if isinstance(c, ast.Call) and isinstance(c.func, ast.Attribute) and c.func.attr == "compile"
           and any(k.arg == "macros_only" for k in c.keywords)]
    if len(sub) != 1:
        chk.unknown("C08-R4", "compile:sub-compile", comp, "recursive compile of the sub-file not found")
    else:
        kw = {k.arg: k.value for k in sub[0].keywords}
        init = repo.func(f"{COMPILER}:ExplorerScriptSsbCompiler.compile")
        b = astq.bind_call_args(sub[0], astq.params_of(init.node))
        ob = b.get("original_base_file")
        chk.decide("C08-R4", "compile:original-base-handed-down", ob is not None and norm(ob) == "original_base_file", comp,
                   "the sub-compiler is not given original_base_file: macros of files imported by an imported file get paths relative to the "
                   "intermediate file instead of the compiled file", "original_base_file handed down", node=sub[0])
        dflt = any(isinstance(n, ast.If) and norm(n.test) == "original_base_file is None" and any(
            isinstance(s, ast.Assign) and norm(s.targets[0]) == "original_base_file" and norm(s.value) == "file_name" for s in n.body)
            for n in walk_no_nested(fn))
        chk.decide("C08-R4", "compile:original-base-default", dflt, comp, "original_base_file does not default to file_name", "defaults to file_name")
    adds = [c for c in walk_no_nested(fn) if isinstance(c, ast.Call) and dotted(c.func) == "self._macros_add_filenames"]
    if len(adds) != 2:
        chk.unknown("C08-R4", "compile:add-filenames", comp, "_macros_add_filenames is not called twice")
    else:
        imp = [a for a in adds if "subfile_compiler.macros" in norm(a.args[0])]
        ownm = [a for a in adds if a not in imp]
        if imp:
            chk.decide("C08-R4", "compile:imported-macros-paths", norm(imp[0].args[1]) == "original_base_file" and norm(imp[0].args[2]) == "subfile_path", comp,
                       f"imported macros get paths from ({norm(imp[0].args[1])}, {norm(imp[0].args[2])}); expected (original_base_file, subfile_path)",
                       "imported macros: relative to the compiled file", node=imp[0])
        if ownm:
            chk.decide("C08-R4", "compile:own-macros-paths", norm(ownm[0].args[1]) == "None" and norm(ownm[0].args[2]) == "file_name", comp,
                       f"own macros get ({norm(ownm[0].args[1])}, {norm(ownm[0].args[2])}); expected (None, file_name): entries of the compiled file must have file null",
                       "own macros: file null", node=ownm[0])
    af = repo.func(f"{COMPILER}:ExplorerScriptSsbCompiler._macros_add_filenames")
    rel = [n for n in walk_no_nested(af.node) if isinstance(n, ast.Assign) and any(isinstance(t, ast.Attribute) and t.attr == "included__relative_path" for t in n.targets)]
    if len(rel) != 1:
        chk.unknown("C08-R4", "add-filenames:relpath", af, "assignment of included__relative_path not found exactly once")
    else:
        v = rel[0].value
        ps = astq.params_of(af.node)
        ok = isinstance(v, ast.Call) and dotted(v.func) == "os.path.relpath" and len(v.args) == 2 and norm(v.args[0]) == ps[2] \
            and norm(v.args[1]) == f"os.path.dirname({ps[1]})"
        chk.decide("C08-R4", "add-filenames:relpath", ok, af,
                   f"relative path is `{norm(v)}`; it must be relpath(<defining file>, dirname(<compiled file>))", "relpath(subfile, dirname(basefile))", node=rel[0])
        # must not overwrite macros that already carry a path (transitive imports)
        guarded = False
        for n in walk_no_nested(af.node):
            if isinstance(n, ast.If) and any(x is rel[0] for x in ast.walk(n)) and "included__relative_path is None" in norm(n.test):
                guarded = True
        chk.decide("C08-R4", "add-filenames:keeps-transitive", guarded, af,
                   "the relative path of every macro handed up by a sub-file is overwritten, including macros the sub-file imported itself: they are "
                   "reported as defined in the intermediate file", "only macros without a path get the sub-file's path", node=rel[0])
    # _build_op: file of relayed entries corrected; direct entries use included__relative_path
    bo = repo.func(f"{MACRO}:ExplorerScriptMacro._build_op")
    amo = [c for c in walk_no_nested(bo.node) if isinstance(c, ast.Call) and isinstance(c.func, ast.Attribute) and c.func.attr == "add_macro_opcode"]
    chk.floor("C08-R4", "add_macro_opcode sites in _build_op", len(amo), 2)
    smb_cls = repo.cls("explorerscript.source_map.SourceMapBuilder")
    amo_params = astq.params_of(smb_cls.methods["add_macro_opcode"])
    for c in amo:
        b = astq.bind_call_args(c, amo_params)
        fp = b.get("if_incl_rel_path")
        txt = norm(fp) if fp is not None else ""
        key = fkey(bo, None, f"add_macro_opcode:{norm(b.get('macro_name', ast.Constant('?')))}")
        if txt == "self.included__relative_path":
            chk.hold("C08-R4", key, bo, "direct entry: the macro's own file", node=c)
            ln = b.get("line_number")
            cl = b.get("column")
            chk.decide("C08-R4", key + ":position", ln is not None and cl is not None and norm(ln).endswith(".line") and norm(cl).endswith(".column"), bo,
                       f"direct entry position ({norm(ln) if ln is not None else None}, {norm(cl) if cl is not None else None}) is not the blueprint entry's line/column",
                       "position relayed from the blueprint's map", node=c)
        elif isinstance(fp, ast.Name):
            # local: file_path = entry.relpath_included_file; if file_path is None: file_path = self.included__relative_path
            fixes = [n for n in walk_no_nested(bo.node) if isinstance(n, ast.If) and norm(n.test) == f"{fp.id} is None" and any(
                isinstance(s, ast.Assign) and norm(s.targets[0]) == fp.id and norm(s.value) == "self.included__relative_path" for s in n.body)]
            chk.decide("C08-R4", key, bool(fixes), bo,
                       "a relayed entry whose file is None (recorded while the macro's own file was compiled) is not corrected to this macro's file",
                       "relayed None -> own file", node=c)
        else:
            chk.unknown("C08-R4", key, bo, f"file argument {txt} not recognised", node=c)
        chk.decide("C08-R1", key + ":number", norm(b.get("op_offset", ast.Constant(None))) == "new_op_idx", bo,
                   "macro op registered under a different number than the op is created with", "registered under new_op_idx", node=c)
    # call position of a nested expansion: recorded in the file of the macro that contains the call (this macro), unless already set
    nci = [c for c in walk_no_nested(bo.node) if isinstance(c, ast.Call) and isinstance(c.func, ast.Attribute) and c.func.attr == "next_macro_opcode_called_in"]
    if len(nci) != 1 or not nci[0].args:
        chk.unknown("C08-R4", "_build_op:called-in-file", bo, "next_macro_opcode_called_in(...) not found exactly once")
    else:
        a0 = nci[0].args[0]
        if isinstance(a0, ast.Name):
            vals = [norm(n.value) for n in walk_no_nested(bo.node) if isinstance(n, ast.Assign) and norm(n.targets[0]) == a0.id]
        else:
            vals = [norm(a0)]
        own = [v for v in vals if v == "self.included__relative_path"]
        relayed = [v for v in vals if v.endswith(".called_in[0]")]
        other = [v for v in vals if v not in own and v not in relayed]
        if other:
            chk.violation("C08-R4", "_build_op:called-in-file", bo,
                          f"the file of a nested call position is taken from `{other[0]}`: the call is written in this macro's file (self.included__relative_path), "
                          "not in the file of the macro being called", node=nci[0])
        else:
            chk.decide("C08-R4", "_build_op:called-in-file", bool(own), bo, "the call position of a nested expansion never names this macro's file",
                       "call position: this macro's file unless an outer relay already set it", node=nci[0])
    # marks: direct under own file; relayed None corrected
    build = repo.func(f"{MACRO}:ExplorerScriptMacro.build")
    amp = [c for c in walk_no_nested(build.node) if isinstance(c, ast.Call) and isinstance(c.func, ast.Attribute) and c.func.attr == "add_macro_position_mark"]
    chk.floor("C08-R4", "add_macro_position_mark sites in build", len(amp), 2)
    for c in amp:
        a0 = c.args[0] if c.args else None
        key = fkey(build, c)
        if a0 is None or isinstance(a0, ast.Starred):
            chk.violation("C08-R4", key, build, "marks of nested macros are relayed unchanged: entries recorded with file None while their own file was "
                                                "compiled claim to be in the compiled file", node=c)
        elif norm(a0) == "self.included__relative_path":
            chk.hold("C08-R4", key, build, "direct mark: own file", node=c)
        elif isinstance(a0, ast.Name):
            fixes = [n for n in walk_no_nested(build.node) if isinstance(n, ast.If) and norm(n.test) == f"{a0.id} is None" and any(
                isinstance(s, ast.Assign) and norm(s.targets[0]) == a0.id and norm(s.value) == "self.included__relative_path" for s in n.body)]
            chk.decide("C08-R4", key, bool(fixes), build, "a relayed mark with file None is not corrected to this macro's file", "relayed None -> own file", node=c)
        else:
            chk.unknown("C08-R4", key, build, f"file argument {norm(a0)} not recognised", node=c)
    # one builder per macro
    mv = repo.func("explorerscript.ssb_converting.compiler.compiler_visitor.macro_visitor:MacroVisitor.visitMacrodef_children")
    fresh = [n for n in walk_no_nested(mv.node) if isinstance(n, ast.Assign) and isinstance(n.value, ast.Call) and dotted(n.value.func) == "SourceMapBuilder"]
    linked = any(isinstance(n, ast.Assign) and norm(n.targets[0]) == "self.compiler_ctx.source_map_builder" for n in walk_no_nested(mv.node))
    visit = [c for c in walk_no_nested(mv.node) if isinstance(c, ast.Call) and dotted(c.func) == "self.visitChildren"]
    ok = bool(fresh) and linked and bool(visit) and fresh[0].lineno < visit[0].lineno
    chk.decide("C08-R4", "macro-visitor:builder-per-macro", ok, mv,
               "all macros of a file share one SourceMapBuilder (and SourceMap.build() shares its tables): every macro relays the position marks of all "
               "others as its own", "fresh builder per macro, installed in the compiler context before the body is visited")
    # call position registered by the macro call handler before build
    mc = repo.func(f"{CH}.operations.macro_call:MacroCallCompileHandler.collect")
    ci = [c for c in walk_no_nested(mc.node) if isinstance(c, ast.Call) and isinstance(c.func, ast.Attribute) and c.func.attr == "next_macro_opcode_called_in"]
    bl = [c for c in walk_no_nested(mc.node) if isinstance(c, ast.Call) and isinstance(c.func, ast.Attribute) and c.func.attr == "build"]
    ok = len(ci) == 1 and len(bl) == 1 and ci[0].lineno < bl[0].lineno and norm(ci[0].args[0]) == "None"
    chk.decide("C08-R4", "macro-call:called-in", ok, mc, "the call position is not announced (with file None = this file) before the macro is built", "called_in announced before build")
