# Triage tool (uses the real code; no check does). Run with PYTHONPATH=/repo:/verif/witness
"""Discovery tool with the REAL code: random structured ExplorerScript programs -> compile -> decompile -> compile; behaviours compared."""
import random, sys, json, collections, signal
from oplevel_probe import behaviour, TO, DMC, FLOW_ENDING, OPS_WITH_JUMP_TO_MEM_OFFSET
def behaviour_ctx(routine_ops, depth=12):
    by_offset, order = {}, []
    for rtn in routine_ops:
        for op in rtn:
            by_offset[op.offset] = op; order.append(op.offset)
    following = dict(zip(order, order[1:]))
    result = []
    for rtn in routine_ops:
        paths = set()
        stack = [(rtn[0].offset, (), 0)] if len(rtn) > 0 else []
        while stack:
            off, trace, silent = stack.pop()
            if len(trace) >= depth or silent > 50:
                paths.add(trace + ("...",)); continue
            op = by_offset[off]; name = op.op_code.name; params = list(op.params)
            if name == "Jump":
                stack.append((params[0], trace, silent+1))
            elif name in OPS_WITH_JUMP_TO_MEM_OFFSET:
                target = params.pop(OPS_WITH_JUMP_TO_MEM_OFFSET[name])
                event = (name, tuple(str(p) for p in params))
                stack.append((target, trace + (event + ("taken",),),0))
                stack.append((following[off], trace + (event + ("not taken",),),0))
            else:
                event = (name, tuple(str(p) for p in params))
                prev = order[order.index(off) - 1] if order.index(off) > 0 else None
                in_ctx = prev is not None and by_offset[prev].op_code.name in ("lives", "object", "performer") and any(prev == o.offset for o in rtn)
                if name in FLOW_ENDING and not in_ctx: paths.add(trace + (event,))
                elif off not in following: paths.add(trace + (event, "<off the end>"))
                else: stack.append((following[off], trace + (event,),0))
        result.append(paths)
    return result

behaviour = behaviour_ctx

import logging, warnings
warnings.filterwarnings("ignore"); logging.disable(logging.CRITICAL)
from explorerscript.ssb_converting.ssb_compiler import ExplorerScriptSsbCompiler
from explorerscript.ssb_converting.ssb_decompiler import ExplorerScriptSsbDecompiler

class G:
    def __init__(self, rnd):
        self.r=rnd; self.n=0; self.labels=[]; self.v=0
    def op(self):
        self.n+=1; return f"op{self.n}();"
    def cond(self):
        self.v+=1
        c=f"$V{self.v} == {self.r.randint(1,3)}"
        if self.r.random()<0.2:
            self.v+=1; c+=f" || $V{self.v} == 1"
        return c
    def block(self, depth, in_loop, in_case, maxn=3):
        out=[]
        for _ in range(self.r.randint(0,maxn)):
            out.append(self.stmt(depth,in_loop,in_case))
        return " ".join(out)
    def stmt(self, depth, in_loop, in_case):
        r=self.r.random()
        if depth<=0 or r<0.35: 
            k=self.r.random()
            if k>0.88:
                kind=self.r.choice(["actor","object","performer"]); inner=self.r.choice([self.op(),"end;","hold;","return;","$X = 1;"])
                return f"with ({kind} 2) {{ {inner} }}"
            if in_loop and k<0.12: return "continue;"
            if in_loop and k<0.24: return "break_loop;"
            if k<0.30 and self.labels and self.r.random()<0.5: return f"jump @{self.r.choice(self.labels)};"
            if k<0.34: return self.r.choice(["return;","end;","hold;"])
            return self.op()
        if r<0.60:
            neg="not " if self.r.random()<0.25 else ""
            s=f"if {neg}({self.cond()}) {{ {self.block(depth-1,in_loop,in_case)} }}"
            while self.r.random()<0.3:
                s+=f" elseif ({self.cond()}) {{ {self.block(depth-1,in_loop,in_case)} }}"
            if self.r.random()<0.5: s+=f" else {{ {self.block(depth-1,in_loop,in_case)} }}"
            return s
        if r<0.75:
            self.v+=1
            cases=[]
            for i in range(self.r.randint(1,3)):
                body=self.block(depth-1,in_loop,True,2)
                brk=" break;" if self.r.random()<0.7 else ""
                cases.append(f"case {i+1}: {body}{brk}")
            if self.r.random()<0.5: cases.append(f"default: {self.block(depth-1,in_loop,True,2)}")
            return f"switch ($S{self.v}) {{ {' '.join(cases)} }}"
        if r<0.85: return f"forever {{ {self.block(depth-1,True,False)} }}"
        if r<0.93:
            neg="not " if self.r.random()<0.3 else ""
            self.v+=1
            return f"while {neg}($W{self.v} == 1) {{ {self.block(depth-1,True,False)} }}"
        self.v+=1
        return f"for ($I{self.v} = 0; $I{self.v} < 3; $I{self.v} += 1;) {{ {self.block(depth-1,True,False)} }}"
    def routine(self, rid):
        self.labels=[]
        parts=[]
        for i in range(self.r.randint(1,4)):
            if self.r.random()<0.25:
                l=f"l{rid}_{i}"; self.labels.append(l); parts.append(f"§{l};")
            parts.append(self.stmt(3,False,False))
        return f"def {rid} {{ {' '.join(parts)} end; }}"

def alarm(*a): raise TO()
signal.signal(signal.SIGALRM, alarm)
def run(seed):
    rnd=random.Random(seed); g=G(rnd)
    src="\n".join(g.routine(i) for i in range(rnd.randint(1,2)))
    try:
        c=ExplorerScriptSsbCompiler("$PERF"); c.compile(src,"/x.exps")
    except Exception as ex:
        return 'not-compiled', src, None
    if sum(len(r) for r in c.routine_ops)>60: return 'too-big', src, None
    tgt={op.offset: op.params[-1] for r in c.routine_ops for op in r if op.op_code.name=='Jump'}
    for st in tgt:
        seen=set(); x=st
        while x in tgt and x not in seen:
            seen.add(x); x=tgt[x]
        if x in seen: return 'jump-only-cycle', src, None
    exp=behaviour(c.routine_ops, depth=10)
    signal.alarm(30)
    try:
        text,_=ExplorerScriptSsbDecompiler(c.routine_infos,c.routine_ops,[],"$PERF",DMC).convert()
    except TO: return 'timeout', src, None
    except Exception as ex: return 'raise '+type(ex).__name__, src, None
    finally: signal.alarm(0)
    try:
        c2=ExplorerScriptSsbCompiler("$PERF"); c2.compile(text,"/x.exps")
    except Exception as ex:
        return 'reject '+str(ex)[:60], src, text
    if behaviour(c2.routine_ops, depth=10)!=exp: return 'behaviour', src, text
    return ('fallback' if text.startswith('//?:') else 'ok'), src, text

if __name__=='__main__':
    a,b=int(sys.argv[1]),int(sys.argv[2])
    c=collections.Counter(); bad=[]
    for seed in range(a,b):
        r,src,text=run(seed)
        c[r.split(' ')[0]]+=1
        if r.split(' ')[0] in ('behaviour','reject','raise','timeout'): bad.append((seed,r,src,text))
    print(a,b,dict(c))
    json.dump(bad, open(f'/tmp/probe2/rbad_{a}.json','w'))
