"""C17 — the Pygments highlighting lexer is total and loses no text.

Decided as a proof over the token table of ``ExplorerScriptLexer`` (the table is read from the
class body, never imported).  Trusted base: the matching loop of pygments'
``RegexLexer.get_tokens_unprocessed``:

    for rexmatch, action, new_state in statetokens:
        m = rexmatch(text, pos)
        if m:
            if action is not None:
                if type(action) is _TokenType: yield pos, action, m.group()
                else: yield from action(self, m)
            pos = m.end(); <apply new_state>; break
    else:
        if text[pos] == "\\n": statestack = ["root"]; yield pos, Whitespace, "\\n"; pos += 1; continue
        yield pos, Error, text[pos]; pos += 1

Obligations per rule: (a) the regex is not nullable (else ``pos`` does not advance: no termination),
(b) the action is a plain token type (then exactly ``m.group()`` is emitted: no text lost or duplicated),
(c) pushes name existing states.  Per enterable state: (d) the union of the "certain" first-character
sets covers every character that can stand at a token start in that state for a source the compiler
accepts (then the ``Error`` branch is unreachable on accepted sources).
"""

from __future__ import annotations

import ast
import re
from typing import Any

from ..engine import rx
from ..engine.loader import AnalysisError, dotted, norm, Func
from ..engine.report import Check, Loc
from ..engine.consts import NotConst

LEXER_MOD = "explorerscript.pygments.expslexer"
LEXER_CLS = "ExplorerScriptLexer"


def _flags(chk: Check, mod: Any, cls: Any) -> int:
    e = cls.class_assigns.get("flags")
    if e is None:
        return re.MULTILINE  # pygments default
    val = 0
    for n in ast.walk(e):
        if isinstance(n, ast.Attribute):
            d = dotted(n)
            if d and d.startswith("re."):
                f = getattr(re, d[3:], None)
                if not isinstance(f, int):
                    raise AnalysisError(f"unknown regex flag {d}")
                val |= int(f)
    for n in ast.walk(e):
        if not isinstance(n, (ast.Attribute, ast.Name, ast.BinOp, ast.BitOr, ast.Load)):
            raise AnalysisError(f"flags expression not understood: {norm(e)}")
    return val


def _grammar_alphabet(ctx: Any) -> rx.CharSet:
    """Characters that can begin a token or a skipped stretch of an accepted ExplorerScript source."""
    g = ctx.grammar_exps
    cs = rx.CharSet()
    for lit in g.implicit:
        cs = cs.union(rx.CharSet.of(lit[0]))
    for name in g.lexer_rules:
        if name == "UNKNOWN_CHAR":
            continue  # never part of an accepted program (no parser rule references it)
        for alt in g.alt_regexes(name):
            cs = cs.union(rx.first_set(rx.parse(alt), 0))
    return cs


def run(chk: Check, ctx: Any) -> None:
    repo = ctx.repo
    chk.level = "proof"
    chk.explanation = (
        "Proof over the token table of the Pygments lexer: every rule regex is non-nullable (termination: each "
        "iteration of the RegexLexer loop consumes >= 1 character), every action is a plain token type (the engine "
        "then yields exactly m.group(), so the concatenation of token texts is the lexed text), and in every "
        "enterable state the certain-first-character sets of the rules cover all characters that can stand at that "
        "point of a source the grammar accepts (Error branch unreachable). Decided for all inputs from the table; "
        "not decided: Pygments' own input normalisation in Lexer.get_tokens (newline handling, stripnl)."
    )
    chk.trusted_base = [
        "pygments.lexer.RegexLexer.get_tokens_unprocessed main loop (quoted in the rule module docstring)",
        "re._parser parse trees of CPython 3.12",
        "equivalence of pygments.lexer.words() with the alternation of its escaped words",
    ]
    chk.assumptions = [
        "Lexer.get_tokens normalises newlines and appends one trailing newline before lexing; the clauses are about "
        "the text handed to get_tokens_unprocessed",
    ]
    chk.rule("C17-R1", "no rule regex of the token table is nullable (a nullable rule that does not leave the state loops forever)")
    chk.rule("C17-R2", "in every enterable state the rules whose match is certain from the first character cover the whole "
                       "alphabet that can occur there in an accepted source (no Error token); '\\n' is covered by the engine")
    chk.rule("C17-R3", "every action is a plain token type, so each match emits exactly its own text")
    chk.rule("C17-R4", "every state named by include()/push exists; '#pop' only pops states that were pushed")
    chk.rule("C17-R5", "no rule regex has a loop that matches one text in two ways before a part that can fail (a backtracking "
                       "matcher then needs exponential time: the lexer does not end in practice)")
    chk.rule("C17-R6", "the token table, run by a model of the RegexLexer loop (and through the class's own driver override, if "
                       "it has one) on sample texts: the token texts concatenate to the input, the loop ends, and sources the "
                       "grammar accepts get no Error token")

    mod = repo.mod(LEXER_MOD)
    if LEXER_CLS not in mod.classes:
        raise AnalysisError(f"anchor class {LEXER_CLS} not found")
    cls = mod.classes[LEXER_CLS]
    fake = Func(mod, cls, cls.node)  # type: ignore[arg-type]
    tokens_expr = cls.class_assigns.get("tokens")
    if not isinstance(tokens_expr, ast.Dict):
        raise AnalysisError("ExplorerScriptLexer.tokens is not a dict display")
    flags = _flags(chk, mod, cls)

    # ---- read the table ---------------------------------------------------------------
    states: dict[str, list[Any]] = {}
    for k, v in zip(tokens_expr.keys, tokens_expr.values):
        name = ctx.fold.try_expr(mod, k)
        if not isinstance(name, str) or not isinstance(v, (ast.List, ast.Tuple)):
            raise AnalysisError(f"tokens: state entry not understood: {norm(k) if k else '**'}")
        states[name] = list(v.elts)

    def expand(state: str, stack: tuple[str, ...] = ()) -> list[tuple[str, ast.AST]]:
        if state in stack:
            raise AnalysisError(f"include cycle through state {state}")
        out: list[tuple[str, ast.AST]] = []
        for el in states[state]:
            if isinstance(el, ast.Call) and dotted(el.func) == "include":
                inc = ctx.fold.try_expr(mod, el.args[0]) if el.args else None
                if inc not in states:
                    chk.violation("C17-R4", f"include:{state}->{inc}", fake, f"state {state!r} includes unknown state {inc!r}", node=el)
                    continue
                chk.hold("C17-R4", f"include:{state}->{inc}", fake, "included state exists", node=el)
                out.extend(expand(inc, stack + (state,)))
            else:
                out.append((state, el))
        return out

    def regex_of(e: ast.AST) -> str:
        if isinstance(e, ast.Call) and dotted(e.func) == "words":
            try:
                ws = ctx.fold.expr(mod, e.args[0])
            except NotConst as ex:
                raise AnalysisError(f"words() argument cannot be folded: {ex}")
            kw = {k.arg: ctx.fold.try_expr(mod, k.value) for k in e.keywords}
            if len(e.args) > 1:
                kw.setdefault("prefix", ctx.fold.try_expr(mod, e.args[1]))
            if len(e.args) > 2:
                kw.setdefault("suffix", ctx.fold.try_expr(mod, e.args[2]))
            return rx.literal_words_pattern(ws, kw.get("prefix") or "", kw.get("suffix") or "")
        v = ctx.fold.try_expr(mod, e)
        if not isinstance(v, str):
            raise AnalysisError(f"rule regex cannot be folded: {norm(e)}")
        return v

    # which states are enterable, and by what
    enterable = {"root"}
    pushes: dict[str, set[str]] = {}
    rules_by_state: dict[str, list[dict[str, Any]]] = {}
    n_rules = 0
    for st in states:
        rules_by_state[st] = []
        for origin, el in expand(st):
            if not isinstance(el, ast.Tuple) or len(el.elts) < 2:
                chk.unknown("C17-R3", f"rule:{st}:{norm(el)}", fake, "token rule is not a (regex, action[, state]) tuple", node=el)
                continue
            pat = regex_of(el.elts[0])
            act = el.elts[1]
            new_state = ctx.fold.try_expr(mod, el.elts[2]) if len(el.elts) > 2 else None
            rules_by_state[st].append({"state": st, "origin": origin, "pattern": pat, "action": act, "new": new_state, "node": el})
            n_rules += 1
    for st, rs in rules_by_state.items():
        for r in rs:
            ns = r["new"]
            targets = [ns] if isinstance(ns, str) else list(ns) if isinstance(ns, (tuple, list)) else []
            for t in targets:
                if t in ("#pop", "#push") or (isinstance(t, str) and t.startswith("#pop:")):
                    continue
                if t not in states:
                    chk.violation("C17-R4", f"push:{st}:{r['pattern']}", fake, f"rule pushes unknown state {t!r}", node=r["node"])
                else:
                    pushes.setdefault(t, set()).add(st)
    changed = True
    while changed:
        changed = False
        for t, srcs in pushes.items():
            if t not in enterable and srcs & enterable:
                enterable.add(t)
                changed = True

    chk.floor("C17-R1", "token rules (after include expansion)", n_rules, 20)
    chk.floor("C17-R2", "states", len(states), 5)

    alphabet_root = _grammar_alphabet(ctx)
    newline = rx.CharSet.of("\n")

    for st, rs in rules_by_state.items():
        cover = rx.CharSet()
        for r in rs:
            key = f"{st}:{r['pattern']}"
            try:
                tree = rx.parse(r["pattern"], flags)
            except re.error as ex:
                chk.violation("C17-R1", key, fake, f"rule regex does not compile: {ex}", node=r["node"])
                continue
            # R1
            if rx.nullable(tree):
                leaves = r["new"] is not None
                chk.violation("C17-R1", key, fake,
                              f"regex {r['pattern']!r} in state {st!r} can match the empty string"
                              + (" (state change does not guarantee progress)" if leaves else "; the lexer loop does not advance"),
                              node=r["node"])
            else:
                chk.hold("C17-R1", key, fake, "non-nullable", node=r["node"])
            # R5
            try:
                amb = rx.exponential_ambiguity(tree, flags)
            except (OverflowError, RecursionError) as ex:
                chk.unknown("C17-R5", key, fake, f"ambiguity analysis gave up: {ex}", node=r["node"])
            else:
                if amb:
                    chk.violation("C17-R5", key, fake, f"regex {r['pattern']!r} in state {st!r}: {amb}", node=r["node"])
                else:
                    chk.hold("C17-R5", key, fake, "no exponentially ambiguous loop", node=r["node"])
            # R3
            act = r["action"]
            d = dotted(act)
            res = repo.resolve(mod, d) if d else None
            plain = bool(d) and res is not None and res[0] == "external" and str(res[1]).startswith("pygments.token.")
            if plain and str(res[1]).split(".")[2:3] == ["Error"] and st in enterable:  # type: ignore[index]
                # an explicit Error action: reachable on an accepted source unless earlier rules are certain to match first
                need_e = alphabet_root if st == "root" else rx.CharSet.all()
                hit = rx.first_set(tree, flags).intersect(need_e).minus(cover)
                if not hit.is_empty():
                    chk.violation("C17-R2", f"error-action:{key}", fake,
                                  f"rule {r['pattern']!r} in state {st!r} emits an Error token on characters {hit.describe()} that can "
                                  "stand there in an accepted source", node=r["node"])
            if plain:
                chk.hold("C17-R3", key, fake, f"plain token type {d}", node=r["node"])
            elif isinstance(act, ast.Call) and dotted(act.func) == "bygroups" and not act.keywords:
                # bygroups yields match.group(i) for each argument: text survives iff the whole pattern is the
                # concatenation of exactly these top-level capturing groups and no action is None
                import re._constants as RC  # type: ignore[import-not-found]
                outside = []
                groups = []
                for op, av in list(tree):
                    if op is RC.SUBPATTERN and av[0] is not None:
                        groups.append(av[0])
                    elif op in (RC.AT, RC.ASSERT, RC.ASSERT_NOT):
                        continue
                    else:
                        outside.append(op)
                none_actions = [i for i, a in enumerate(act.args) if isinstance(a, ast.Constant) and a.value is None]
                plain_args = all((dd := dotted(a)) and (rr := repo.resolve(mod, dd)) is not None and rr[0] == "external"
                                 and str(rr[1]).startswith("pygments.token.") for i, a in enumerate(act.args) if i not in none_actions)
                if outside:
                    chk.violation("C17-R3", key, fake,
                                  f"bygroups() emits only the text of the groups, but {r['pattern']!r} also matches text outside its "
                                  "top-level groups: that text is consumed and never emitted", node=r["node"])
                elif none_actions:
                    chk.violation("C17-R3", key, fake, f"bygroups() has action None for group(s) {none_actions}: their text is dropped",
                                  node=r["node"])
                elif groups != list(range(1, len(act.args) + 1)):
                    chk.violation("C17-R3", key, fake,
                                  f"bygroups() has {len(act.args)} actions for top-level groups {groups}: some matched text is not emitted",
                                  node=r["node"])
                elif plain_args:
                    chk.hold("C17-R3", key, fake, "bygroups over a pattern that is exactly its groups", node=r["node"])
                else:
                    chk.unknown("C17-R3", key, fake, f"bygroups arguments not recognised: {norm(act)}", node=r["node"])
            elif isinstance(act, ast.Call) and dotted(act.func) in ("using", "default", "this"):
                chk.unknown("C17-R3", key, fake, f"callback action {norm(act)}: emitted text not established", node=r["node"])
            elif (dcb := dotted(act)) and (rcb := repo.resolve(mod, dcb)) is not None and rcb[0] == "func":
                chk.hold("C17-R3", key, fake, f"callback action {dcb}(): what it emits for a match is decided by C17-R6, which interprets it on the sample texts",
                         node=r["node"])
            else:
                chk.unknown("C17-R3", key, fake, f"action {norm(act)} is not a recognised pygments token type", node=r["node"])
            # R4 (#pop in a state that is never pushed)
            ns = r["new"]
            if ns == "#pop" and st not in pushes and st in enterable and st != "root":
                chk.unknown("C17-R4", f"pop:{key}", fake, "#pop in a state that is entered by no push", node=r["node"])
            cover = cover.union(rx.guaranteed_first(tree, flags))
        if st not in enterable:
            continue
        need = alphabet_root if st == "root" else rx.CharSet.all()
        missing = need.minus(cover).minus(newline)
        if missing.is_empty():
            chk.hold("C17-R2", f"state:{st}", fake, f"certain-first sets cover the alphabet of state {st!r}",
                     facts={"rules": len(rs), "covered": cover.describe()})
        else:
            chk.violation("C17-R2", f"state:{st}", fake,
                          f"state {st!r}: no rule is certain to match on characters {missing.describe()} "
                          "that can occur there in an accepted source; the engine yields an Error token",
                          facts={"missing": missing.describe(12)})
    if any(f.rule == "C17-R5" and f.verdict == "VIOLATION" for f in chk.findings):
        # matching such a pattern on the samples would take this check as long as it takes the lexer
        chk.hold("C17-R6", "not-run", fake, "samples not lexed: a pattern with an exponentially ambiguous loop is reported by C17-R5")
    else:
        _sample_rule(chk, ctx, mod, cls, fake, rules_by_state, flags)
    chk.extra["lexer_states"] = {s: len(r) for s, r in rules_by_state.items()}
    chk.extra["enterable_states"] = sorted(enterable)
    chk.extra["flags"] = flags


DRIVER_METHODS = {"get_tokens", "_preprocess_lexer_input", "add_filter", "__init__", "__call__", "process_tokendef", "get_tokendefs"}


def _sample_rule(chk: Check, ctx: Any, mod: Any, cls: Any, fake: Any, rules_by_state: dict[str, list[dict[str, Any]]], flags: int) -> None:
    from . import lexrun
    from ..engine.absint import AObj, Interp, PyExc, Unsupported
    rule = "C17-R6"
    repo = ctx.repo
    # ---- the table in executable form
    table: dict[str, list[dict[str, Any]]] = {}
    callbacks: list[str] = []
    for st, rs in rules_by_state.items():
        table[st] = []
        for r in rs:
            act = r["action"]
            d = dotted(act)
            emit: list[tuple[int, Any]] | None = None
            callback: Any = None
            if d:
                res = repo.resolve(mod, d)
                tt = lexrun.token_type(str(res[1])) if res is not None and res[0] == "external" else None
                if tt is not None:
                    emit = [(0, tt)]
                elif res is not None and res[0] == "func":
                    callback = res[1]  # a function of the repository used as rule action: interpreted for every match
                    emit = []
                    callbacks.append(d)
            elif isinstance(act, ast.Call) and dotted(act.func) == "bygroups" and not act.keywords:
                emit = []
                for i, a in enumerate(act.args):
                    if isinstance(a, ast.Constant) and a.value is None:
                        continue
                    da = dotted(a)
                    ra = repo.resolve(mod, da) if da else None
                    tt = lexrun.token_type(str(ra[1])) if ra is not None and ra[0] == "external" else None
                    if tt is None:
                        emit = None
                        break
                    emit.append((i + 1, tt))
            if emit is None:
                chk.unknown(rule, f"table:{st}:{r['pattern']}", fake, f"action {norm(act)} is not modelled", node=r["node"])
                return
            try:
                crx = re.compile(r["pattern"], flags)
            except re.error:
                return  # reported by R1
            table[st].append({"rx": crx, "emit": emit, "new": r["new"], "pattern": r["pattern"], "callback": callback})
    # ---- the class's own driver
    override = None
    for name, fn in cls.methods.items():
        if name == "get_tokens_unprocessed":
            override = Func(mod, cls, fn)
        elif name in DRIVER_METHODS:
            chk.unknown(rule, f"driver:{name}", fake, f"the lexer class overrides {name}(), a part of the pygments driver this rule does not model", node=fn)
            return
    interp = None
    if override is not None or callbacks:
        interp = Interp(repo, ctx.fold, max_steps=3_000_000)
        for nm, path in lexrun.STANDARD.items():
            interp.native_consts["pygments.token." + nm] = lexrun.TokType.get(path)
    me = AObj(cls)

    def call_cb(fn: Any, m: Any) -> list[tuple[int, Any, str]]:
        """`yield from action(self, m)` of the driver loop: the callback of the repository is interpreted on the match object"""
        assert interp is not None
        out = interp.call_func(fn, [me, m] if True else [], {})
        res = []
        for t in interp.iterate(out):
            if not (isinstance(t, tuple) and len(t) == 3 and isinstance(t[0], int) and isinstance(t[2], str)):
                raise Unsupported(f"the callback {fn.qual} yields something other than (index, token type, text)")
            res.append(t)
        return res

    def run_on(text: str) -> list[tuple[int, Any, str]]:
        if override is None:
            if interp is not None:
                interp.steps = 0
            return lexrun.lex(table, flags, text, call_cb=call_cb)
        assert interp is not None
        interp.steps = 0
        interp.natives["super.get_tokens_unprocessed"] = lambda selfv, t, stack=("root",): lexrun.lex(table, flags, t, tuple(stack), call_cb=call_cb)
        out = interp.call_func(override, [me, text], {})
        toks = list(interp.iterate(out))
        res = []
        for t in toks:
            if not (isinstance(t, tuple) and len(t) == 3 and isinstance(t[2], str)):
                raise Unsupported("the driver override yields something other than (index, token type, text)")
            res.append(t)
        return res

    g = ctx.grammar_exps
    n = 0
    for kind, samples in (("accepted", lexrun.ACCEPTED_SOURCES), ("any", lexrun.ANY_TEXTS)):
        for title, text in samples:
            key = f"{kind}:{title}"
            if kind == "accepted":
                try:
                    ok = g.parse_text("start", text) is not None
                except AnalysisError:
                    ok = False
                if not ok:
                    raise AnalysisError(f"C17-R6 sample {title!r} is not accepted by the grammar any more")
            # pygments normalises line ends before lexing
            t2 = text.replace("\r\n", "\n").replace("\r", "\n")
            try:
                toks = run_on(t2)
            except lexrun.LexLoop as ex:
                chk.violation(rule, key, fake, f"on the sample {title!r} the lexer does not end: {ex}", facts={"text": t2[:200]})
                continue
            except PyExc as ex:
                chk.violation(rule, key, fake, f"on the sample {title!r} the lexer raises {ex.cls_name}: {ex}", facts={"text": t2[:200]})
                continue
            except Unsupported as ex:
                chk.unknown(rule, key, fake, f"not evaluated: {ex}")
                continue
            n += 1
            lost = lexrun.preservation(toks, t2)
            errs = [(p, v) for p, tt, v in toks if isinstance(tt, lexrun.TokType) and tt in lexrun.TokType.get(("Error",))]
            if lost:
                chk.violation(rule, key, fake, f"on the sample {title!r} {lost}", facts={"text": t2[:200]})
            elif kind == "accepted" and errs:
                chk.violation(rule, key, fake, f"the accepted source {title!r} gets Error token(s), first at position {errs[0][0]} for {errs[0][1]!r}",
                              facts={"text": t2[:200]})
            else:
                chk.hold(rule, key, fake, f"{len(toks)} tokens, texts concatenate to the input" + (", no Error token" if kind == "accepted" else ""))
    chk.floor(rule, "sample texts lexed", n, 30)
    chk.extra["driver_override"] = override is not None
    chk.extra["callback_actions"] = sorted(set(callbacks))
