"""Hand-written variants for the checker self-test (see runner.py).  Each edit is (relative path, old text, new text)."""

from __future__ import annotations

import re
from pathlib import Path
from typing import Any

CH = "explorerscript/ssb_converting/compiler/compile_handlers"
DEC = "explorerscript/ssb_converting/decompiler"

MUTANTS: list[dict[str, Any]] = []
TWINS: list[dict[str, Any]] = []


def _shift_lines(root: Path) -> str | None:
    """Every module gets two comment lines after its licence header: all line numbers move."""
    for p in (root / "explorerscript").rglob("*.py"):
        if "antlr" in p.parts:
            continue
        s = p.read_text(encoding="utf-8")
        if "from __future__ import annotations\n" in s:
            s = s.replace("from __future__ import annotations\n", "from __future__ import annotations\n\n# moved\n# lines\n", 1)
        else:
            s = "# moved\n# lines\n" + s
        p.write_text(s, encoding="utf-8")
    return None


def _messages(root: Path) -> str | None:
    """Reword user-facing error messages (no behaviour a property mentions)."""
    n = 0
    for p in (root / "explorerscript").rglob("*.py"):
        if "antlr" in p.parts:
            continue
        s = p.read_text(encoding="utf-8")
        s2 = re.sub(r'_\("([A-Z][^"{}]*)\."\)', lambda m: f'_("{m.group(1)}!")', s)
        if s2 != s:
            n += 1
            p.write_text(s2, encoding="utf-8")
    return None if n else "no message found"


TWINS += [
    {"id": "twin-line-shift", "what": "two comment lines added to every module (all line numbers move)", "transform": _shift_lines},
    {"id": "twin-messages", "what": "error message texts reworded", "transform": _messages},
]


# --------------------------------------------------------------------------- more twins: refactorings that keep behaviour


def _docstrings(root: Path) -> str | None:
    """A docstring is added to every method that has none (statement numbering inside functions moves)."""
    import ast as _ast
    n = 0
    for p in (root / "explorerscript").rglob("*.py"):
        if "antlr" in p.parts:
            continue
        src = p.read_text(encoding="utf-8")
        try:
            tree = _ast.parse(src)
        except SyntaxError:
            continue
        lines = src.split("\n")
        ins = []
        for node in _ast.walk(tree):
            if isinstance(node, _ast.FunctionDef) and node.body and not (isinstance(node.body[0], _ast.Expr) and isinstance(getattr(node.body[0], "value", None), _ast.Constant)):
                first = node.body[0]
                if first.lineno == node.lineno:
                    continue  # one-line def
                ins.append((first.lineno - 1, " " * first.col_offset + '"""Documented."""'))
        for ln, text in sorted(ins, reverse=True):
            lines.insert(ln, text)
            n += 1
        p.write_text("\n".join(lines), encoding="utf-8")
    return None if n else "nothing to document"


TWINS += [
    {"id": "twin-docstrings", "what": "a docstring added to every function without one", "transform": _docstrings},
    {"id": "twin-strip-last-label-locals", "what": "local variables of strip_last_label renamed, loop index via range",
     "edits": [("explorerscript/ssb_converting/compiler/utils.py", "                indices_to_remove = set()\n                label = routine[-1]",
                "                indices_to_remove = set()\n                end_label = routine[-1]"),
               ("explorerscript/ssb_converting/compiler/utils.py", "if isinstance(op, SsbLabelJump) and op.label == label and op.root.op_code.name == OP_JUMP:",
                "if isinstance(op, SsbLabelJump) and op.label == end_label and op.root.op_code.name == OP_JUMP:")]},
    {"id": "twin-process-parameters-comprehension", "what": "_process_parameters written as a list comprehension",
     "edits": [("explorerscript/macro.py",
                "        new_params = []\n        for p in original_params:\n            if isinstance(p, SsbOpParamConstant):\n                p_as_str = str(p)\n"
                "                if p_as_str in macro_params:\n                    new_params.append(macro_params[p_as_str])\n                else:\n"
                "                    new_params.append(p)\n            else:\n                new_params.append(p)\n        return new_params",
                "        return [\n            macro_params[str(p)] if isinstance(p, SsbOpParamConstant) and str(p) in macro_params else p for p in original_params\n        ]")]},
    {"id": "twin-finalizer-else-branch", "what": "LabelFinalizer: `if not removed:` turned into `if removed: pass / else:`",
     "edits": [("explorerscript/ssb_converting/compiler/label_finalizer.py",
                "                    if not op_was_removed:\n                        new_r.append(op)\n                        for label in labels_waiting:\n"
                "                            label.offset = op.offset\n                            self.label_offsets[label.id] = label.offset\n"
                "                        labels_waiting = []",
                "                    if op_was_removed:\n                        pass\n                    else:\n                        new_r.append(op)\n"
                "                        for label in labels_waiting:\n                            label.offset = op.offset\n"
                "                            self.label_offsets[label.id] = label.offset\n                        labels_waiting = []")]},
    {"id": "twin-exps-int-isinstance-first", "what": "exps_int restructured (same conversions, same errors)",
     "edits": [("explorerscript/util.py",
                "    try:\n        if isinstance(to_convert, str):\n            return int(to_convert, 0)\n        return int(to_convert)\n    except TypeError as e:",
                "    try:\n        if not isinstance(to_convert, str):\n            return int(to_convert)\n        return int(to_convert, 0)\n    except TypeError as e:")]},
    {"id": "twin-jump-statement-helper", "what": "write_label_jump: the three identical branches that print the jump folded into one condition",
     "edits": [("explorerscript/ssb_converting/ssb_decompiler.py",
                "        elif isinstance(previous_op.get_marker(), ForeverContinue) or isinstance(\n            previous_op.get_marker(), ForeverBreak\n        ):\n"
                "            # Loop continue/break\n            # Do nothing\n            pass\n        else:",
                "        elif isinstance(previous_op.get_marker(), (ForeverContinue, ForeverBreak)):\n            # Loop continue/break\n            # Do nothing\n            pass\n        else:")]},
    {"id": "twin-source-map-eq-order", "what": "SourceMapping.__eq__ compares column before line",
     "edits": [("explorerscript/source_map.py", "return self.line == other.line and self.column == other.column", "return self.column == other.column and self.line == other.line")]},
]


TWINS += [
    {"id": "twin-writer-concatenation", "what": "two statement writers build their text by concatenation / a local instead of an f-string",
     "edits": [("explorerscript/ssb_converting/decompiler/write_handlers/simple_ops/flag.py", 'self.decompiler.write_stmnt(f"clear {op.params[0]};")',
                'self.decompiler.write_stmnt("clear " + str(op.params[0]) + ";")'),
               ("explorerscript/ssb_converting/decompiler/write_handlers/simple_ops/flag.py", 'self.decompiler.write_stmnt(f"init {op.params[0]};")',
                'stmnt = f"init {op.params[0]};"\n            self.decompiler.write_stmnt(stmnt)')]},
    {"id": "twin-assignment-handler-local", "what": "AssignmentRegularCompileHandler keeps the operator code in a local",
     "edits": [("explorerscript/ssb_converting/compiler/compile_handlers/assignments/assignment_regular.py",
                "        # CalcValue / CalcVariable / Set\n        if self.value_is_a_variable:\n            return [\n"
                "                self._generate_operation(OPS_FLAG__CALC_VARIABLE, [self.var_target, self.operator.value, self.value])",
                "        # CalcValue / CalcVariable / Set\n        operator_code = self.operator.value\n        if self.value_is_a_variable:\n            return [\n"
                "                self._generate_operation(OPS_FLAG__CALC_VARIABLE, [self.var_target, operator_code, self.value])")]},
    {"id": "twin-recursion-check-copy", "what": "the recursion chain is built with a copy and append instead of list concatenation",
     "edits": [("explorerscript/ssb_converting/ssb_compiler.py", "                recursion_check=self.recursion_check + [file_name],",
                "                recursion_check=[*self.recursion_check, file_name],")]},
    {"id": "twin-labels-referenced-set", "what": "the decompiler collects referenced labels in a set-like list without duplicates",
     "edits": [("explorerscript/ssb_converting/ssb_decompiler.py",
                "            labels_not_written = [x for x in self.labels_referenced if x not in self.labels_already_printed]",
                "            labels_not_written = sorted(set(self.labels_referenced) - set(self.labels_already_printed))")]},
]


def _cli_main_functions(root: Path) -> str | None:
    """The body of `if __name__ == "__main__":` of both command-line modules becomes a function main() that the block calls."""
    n = 0
    for rel in ("explorerscript/cli/compile.py", "explorerscript/cli/decompile.py"):
        p = root / rel
        src = p.read_text(encoding="utf-8")
        head = 'if __name__ == "__main__":'
        if head not in src:
            continue
        i = src.index(head)
        p.write_text(src[:i] + "def main() -> None:" + src[i + len(head):] + '\n\nif __name__ == "__main__":\n    main()\n', encoding="utf-8")
        n += 1
    return None if n == 2 else "main blocks not found"


TWINS += [
    {"id": "twin-cli-main-functions", "what": "the __main__ blocks of both command-line modules moved into functions main()", "transform": _cli_main_functions},
    {"id": "twin-lexer-spelling", "what": "the highlighting lexer: a pattern written without a raw string, regex flags in the other order",
     "edits": [("explorerscript/pygments/expslexer.py", '(r"/\\*.*?\\*/", Comment.Multiline),', '("/\\\\*.*?\\\\*/", Comment.Multiline),'),
               ("explorerscript/pygments/expslexer.py", "flags = re.MULTILINE | re.DOTALL", "flags = re.DOTALL | re.MULTILINE")]},
    {"id": "twin-return-addr-none-test", "what": "`x is not None` written as `not (x is None)` in rewrite_offsets",
     "edits": [("explorerscript/source_map.py", "            if m.return_addr is not None:\n", "            if not (m.return_addr is None):\n")]},
    {"id": "twin-dmode-dict", "what": "the dungeon mode constants are looked up in a dict instead of an if chain",
     "edits": [("explorerscript/ssb_converting/ssb_data_types.py",
                "        if isinstance(idx, int):\n            if idx == 0:\n                return self.close_constant\n            if idx == 1:\n                return self.open_constant\n"
                "            if idx == 2:\n                return self.request_constant\n            if idx == 3:\n                return self.open_and_request_constant\n",
                "        names = {0: self.close_constant, 1: self.open_constant, 2: self.request_constant, 3: self.open_and_request_constant}\n"
                "        if isinstance(idx, int) and idx in names:\n            return names[idx]\n")]},
    {"id": "twin-negatable-local", "what": "_if_header_negatable reads the parameter into a local and uses elif / string concatenation",
     "edits": [("explorerscript/ssb_converting/decompiler/write_handlers/label_jumps/if_start.py",
                "        if op.params[param_idx] == 1:\n            return positive_form\n        if op.params[param_idx] == 0:\n            return f\"not {positive_form}\"\n        return self._if_header_as_operation(op)\n",
                "        value = op.params[param_idx]\n        if value == 1:\n            return positive_form\n        elif value == 0:\n            return \"not \" + positive_form\n        else:\n            return self._if_header_as_operation(op)\n")]},
    {"id": "twin-enlarge-extend", "what": "RoutineVisitor._enlarge_routine_info extends the three tables by the same count instead of appending in a loop",
     "edits": [("explorerscript/ssb_converting/compiler/compiler_visitor/routine_visitor.py",
                "            for i in range(0, needed):\n                self.routine_infos.append(None)  # type: ignore\n                self.routine_ops.append([])\n"
                "                self.named_coroutines.append([])  # type: ignore\n",
                "            self.routine_infos.extend([None] * needed)  # type: ignore\n            self.routine_ops.extend([] for _ in range(needed))\n"
                "            self.named_coroutines.extend([] for _ in range(needed))  # type: ignore\n")]},
    {"id": "twin-lexer-callback-action", "what": "the line-comment rule of the lexer emits the comment and its line break as two tokens through a callback action",
     "edits": [("explorerscript/pygments/expslexer.py",
                "KEYWORDS = (\n",
                "def _line_comment(lexer, match):\n    text = match.group(0)\n    yield match.start(), Comment.Single, text[:-1]\n"
                "    yield match.end() - 1, Text, text[-1:]\n\n\nKEYWORDS = (\n"),
               ("explorerscript/pygments/expslexer.py", "            (r\"//.*?\\n\", Comment.Single),\n", "            (r\"//.*?\\n\", _line_comment),\n")]},
    {"id": "twin-macro-op-count-in-init", "what": "ExplorerScriptMacro counts its non-label blueprints once in __init__ instead of on every build()",
     "edits": [("explorerscript/macro.py", "        self.blueprints = blueprints\n",
                "        self.blueprints = blueprints\n        self.real_op_count = len([o for o in blueprints if not isinstance(o, SsbLabel)])\n"),
               ("explorerscript/macro.py", "        len_real_ops_in_blueprints = len([o for o in self.blueprints if not isinstance(o, SsbLabel)]) + 1\n",
                "        len_real_ops_in_blueprints = self.real_op_count + 1\n")]},
    {"id": "twin-memoised-pure-helper", "what": "exps_int (a pure function of its text) is memoised with functools.lru_cache(maxsize=None)",
     "edits": [("explorerscript/util.py", "def exps_int(", "@functools.lru_cache(maxsize=None)\ndef exps_int("),
               ("explorerscript/util.py", "from __future__ import annotations\n", "from __future__ import annotations\n\nimport functools\n")]},
    {"id": "twin-call-exit-selection", "what": "CallWriteHandler selects the edge after the call with a loop instead of a comprehension",
     "edits": [("explorerscript/ssb_converting/decompiler/write_handlers/label_jumps/call.py",
                "        if len(exits_after_call) > 0:\n            return exits_after_call[0].target_vertex\n",
                "        for e_after in exits_after_call:\n            return e_after.target_vertex\n")]},
]


# --------------------------------------------------------------------------- hand-written mutants (behaviour-breaking; tests stay green)

MUTANTS += [
    {"id": "mut-branchvalue-param-order", "props": ["C01"], "rule": "C01-R1", "what": "BranchValue parameters emitted as [var, value, operator]",
     "edits": [(f"{CH}/blocks/ifs/header/operator.py",
                "            self.compiler_ctx, self.ctx, OP_BRANCH_VALUE, [self.var_target, self.operator.value, self.value]",
                "            self.compiler_ctx, self.ctx, OP_BRANCH_VALUE, [self.var_target, self.value, self.operator.value]")]},
    {"id": "mut-scn-levels-swapped", "props": ["C01"], "rule": "C01-R1", "what": "scn if header reads the two INTEGERs in the wrong order",
     "edits": [(f"{CH}/blocks/ifs/header/scn.py", "scn_value = exps_int(str(self.ctx.INTEGER(0)))\n        level_value = exps_int(str(self.ctx.INTEGER(1)))",
                "scn_value = exps_int(str(self.ctx.INTEGER(1)))\n        level_value = exps_int(str(self.ctx.INTEGER(0)))")]},
    {"id": "mut-exps-int-base10", "props": ["C16", "C01"], "what": "integers converted with base 10",
     "edits": [("explorerscript/util.py", "            return int(to_convert, 0)", "            return int(to_convert, 10)")]},
    {"id": "mut-half-tile-offset", "props": ["C18", "C04", "C01"], "what": "a .5 coordinate gets offset 4 instead of 2",
     "edits": [("explorerscript/common_syntax.py", "            offset = 2", "            offset = 4")]},
    {"id": "mut-multiline-last-line-first", "props": ["C04", "C01"], "what": "multi-line literal: a non-blank last line is put in front of the other lines",
     "edits": [("explorerscript/ssb_converting/compiler/utils.py", "        lines.append(last_line)", "        lines.insert(0, last_line)")]},
    {"id": "mut-label-finalizer-offset-of-removed", "props": ["C03", "C01"], "what": "labels waiting for an op get the offset of a removed jump",
     "edits": [("explorerscript/ssb_converting/compiler/label_finalizer.py",
                "                    if not op_was_removed:\n                        new_r.append(op)\n                        for label in labels_waiting:",
                "                    if not op_was_removed:\n                        new_r.append(op)\n                    if True:\n                        for label in labels_waiting:")]},
    {"id": "mut-decompiler-else-header", "props": ["C02"], "rule": "C02-R7", "what": "the if writer prints the else arm as `elseif (debug)`",
     "edits": [("explorerscript/ssb_converting/decompiler/write_handlers/label_jumps/if_start.py", 'self.decompiler.write_stmnt(" else", False)',
                'self.decompiler.write_stmnt(" elseif (debug)", False)')]},
    {"id": "mut-ssbs-label-after-op", "props": ["C07", "C06"], "rule": "C07-R6", "what": "SsbScript decompiler prints a label after the op it belongs to",
     "edits": [("explorerscript/ssb_converting/decompiler/label_jump_to_resolver.py",
                "                if next_item.offset in self.labels:\n                    yield self.labels[next_item.offset]\n                yield next_item",
                "                yield next_item\n                if next_item.offset in self.labels:\n                    yield self.labels[next_item.offset]")]},
    {"id": "mut-macro-return-address-plus-two", "props": ["C08"], "what": "macro return address counts one op too many",
     "edits": [("explorerscript/macro.py", "if not isinstance(o, SsbLabel)]) + 1", "if not isinstance(o, SsbLabel)]) + 2")]},
    {"id": "mut-source-map-line-one-based", "props": ["C08", "C09"], "what": "ops are registered with the 1-based line",
     "edits": [(f"{CH}/abstract.py", "self.ctx.start.line - 1", "self.ctx.start.line")]},
]
