from wlib import *
print("--- polarity"); show(comp("def 0 { @x; a(); if not (debug) { jump @x; } b(); }"))
print("--- case fallthrough"); show(comp("def 0 { switch($V) { case 1: a(); case 2: break; case 3: b(); } c(); }"))
print("--- strip_last_label"); show(comp("def 0 { jump @a; @b; x(); end; @a; jump @z; y(); jump @b; @z; }"))
