from wlib import *
from explorerscript.ssb_converting.ssb_data_types import *
def op(off, name, params): return SsbOperation(off, SsbOpCode(-1, name), params)
V = SsbOpParamConstant("$V")
ops = [[op(0, "BranchValue", [V, 2, 5, 3]), op(1, "flag_CalcValue", [V, 0, 7]), op(2, "a", []), op(3, "End", [])]]
infos = [SsbRoutineInfo(SsbRoutineType.GENERIC, 0)]
d = ExplorerScriptSsbDecompiler(infos, ops, [], "$P", DungeonModeConstants("DC","DO","DR","DOR"))
txt, sm = d.convert(); print(txt)
show(comp(txt))
