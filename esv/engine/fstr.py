"""Print templates: f-strings (and + concatenations) as literal text with holes."""

from __future__ import annotations

import ast
from dataclasses import dataclass
from typing import Any, Callable

from .loader import norm


@dataclass
class Hole:
    expr: ast.expr
    text: str  # normalised source of the hole expression

    def __repr__(self) -> str:
        return "{" + self.text + "}"


Template = list  # list[str | Hole]


def template_of(e: ast.AST, resolve: Callable[[ast.Name], ast.expr | None] | None = None, _depth: int = 0) -> Template | None:
    """Template of a string-valued expression: Constant, JoinedStr, a + b, str(x), or a local with a single definition."""
    if isinstance(e, ast.Constant) and isinstance(e.value, str):
        return [e.value]
    if isinstance(e, ast.JoinedStr):
        out: Template = []
        for p in e.values:
            if isinstance(p, ast.Constant):
                out.append(str(p.value))
            elif isinstance(p, ast.FormattedValue):
                sub = template_of(p.value, resolve, _depth + 1) if isinstance(p.value, (ast.JoinedStr, ast.IfExp)) else None
                if isinstance(p.value, ast.Name) and resolve is not None and _depth < 4:
                    d = resolve(p.value)
                    if isinstance(d, ast.IfExp):
                        out.append(Hole(d, norm(d)))
                        continue
                    if d is not None:
                        sub = template_of(d, resolve, _depth + 1)
                if sub is not None and not isinstance(p.value, ast.IfExp):
                    out.extend(sub)
                else:
                    out.append(Hole(p.value, norm(p.value)))
        return _merge(out)
    if isinstance(e, ast.BinOp) and isinstance(e.op, ast.Add):
        l = template_of(e.left, resolve, _depth + 1)
        r = template_of(e.right, resolve, _depth + 1)
        if l is None or r is None:
            return None
        return _merge(l + r)
    if isinstance(e, ast.Call) and isinstance(e.func, ast.Name) and e.func.id == "str" and len(e.args) == 1:
        return [Hole(e.args[0], norm(e.args[0]))]
    if isinstance(e, ast.Name) and resolve is not None and _depth < 4:
        d = resolve(e)
        if d is not None:
            return template_of(d, resolve, _depth + 1)
    if isinstance(e, (ast.Name, ast.Attribute, ast.Subscript, ast.Call)):
        return [Hole(e, norm(e))]  # type: ignore[arg-type]
    return None


def _merge(parts: Template) -> Template:
    out: Template = []
    for p in parts:
        if isinstance(p, str) and out and isinstance(out[-1], str):
            out[-1] += p
        else:
            out.append(p)
    return out


def render(t: Template, fill: Callable[[Hole, int], str]) -> str:
    out = []
    i = 0
    for p in t:
        if isinstance(p, str):
            out.append(p)
        else:
            out.append(fill(p, i))
            i += 1
    return "".join(out)


def holes(t: Template) -> list[Hole]:
    return [p for p in t if isinstance(p, Hole)]
