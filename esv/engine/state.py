"""Inventory of state that outlives a call: module-level and class-level mutable bindings and who writes them."""

from __future__ import annotations

import ast
from dataclasses import dataclass, field
from typing import Any, Iterator

from .loader import Repo, Mod, Cls, Func, dotted, walk_no_nested, norm
from . import astq

MUTATORS = {"append", "extend", "insert", "pop", "remove", "clear", "update", "setdefault", "add", "discard", "popitem", "sort", "reverse",
            "appendleft", "popleft", "__setitem__", "__delitem__"}
PROCESS_GLOBAL_CALLS = {"sys.setrecursionlimit", "sys.setswitchinterval", "os.chdir", "os.putenv", "locale.setlocale", "random.seed",
                        "warnings.simplefilter", "warnings.filterwarnings", "logging.basicConfig", "logging.disable", "sys.settrace",
                        "threading.setprofile", "gc.disable", "gc.enable", "gc.set_threshold", "signal.signal", "os.umask"}


def is_mutable_value(e: ast.AST | None) -> bool:
    if e is None:
        return False
    if isinstance(e, (ast.List, ast.Dict, ast.Set, ast.ListComp, ast.DictComp, ast.SetComp)):
        return True
    if isinstance(e, ast.GeneratorExp):
        return True  # an iterator: consuming it is a state change
    if isinstance(e, ast.Call):
        d = dotted(e.func) or ""
        last = d.split(".")[-1]
        if d.startswith("itertools.") or last in ("iter", "count", "cycle", "map", "filter", "zip", "enumerate", "reversed", "open"):
            return True  # iterators and files are consumed by use
        if last in ("list", "dict", "set", "defaultdict", "OrderedDict", "deque", "Counter", "Lock", "RLock", "bytearray"):
            return True
        if last and last[0].isupper() and last not in ("TypeVar", "NewType", "Union", "Optional", "Enum", "NamedTuple", "Literal"):
            # instance of some class: mutable unless proven otherwise
            return last not in ("Path", "PurePath", "PurePosixPath", "Decimal", "Fraction", "frozenset", "Pattern")
    return False


@dataclass
class Cell:
    kind: str  # 'module' | 'class'
    owner: str  # module name or class qual
    name: str
    mod: Mod
    node: ast.AST
    value: ast.AST | None
    import_time_writes: list[tuple[Func | Mod, ast.AST]] = field(default_factory=list)
    runtime_writes: list[tuple[Func, ast.AST]] = field(default_factory=list)
    runtime_reads: list[tuple[Func, ast.AST]] = field(default_factory=list)
    shadowed_in_init: bool = False

    @property
    def ident(self) -> str:
        return f"{self.owner}.{self.name}"


def _is_typing_alias(mod: Mod, name: str, value: ast.AST) -> bool:
    t = norm(value)
    return "TypeVar(" in t or "TypeAlias" in t or t.startswith("Union[") or t.startswith("Callable[") or "getLogger" in t


def module_cells(repo: Repo) -> list[Cell]:
    out = []
    for m in repo.modules.values():
        body = [st for st in m.tree.body if not (isinstance(st, ast.If) and "__name__" in norm(st.test))]  # script entry points are not library state
        for st in Repo._toplevel(body):
            tgt = None
            val = None
            if isinstance(st, ast.Assign) and len(st.targets) == 1 and isinstance(st.targets[0], ast.Name):
                tgt, val = st.targets[0].id, st.value
            elif isinstance(st, ast.AnnAssign) and isinstance(st.target, ast.Name) and st.value is not None:
                tgt, val = st.target.id, st.value
                if "TypeAlias" in norm(st.annotation):
                    continue
            if tgt is None or val is None:
                continue
            if _is_typing_alias(m, tgt, val):
                continue
            if is_mutable_value(val):
                out.append(Cell("module", m.name, tgt, m, st, val))
    return out


def class_cells(repo: Repo) -> list[Cell]:
    out = []
    for c in repo.all_classes():
        for st in c.node.body:
            tgt = None
            val = None
            if isinstance(st, ast.Assign) and len(st.targets) == 1 and isinstance(st.targets[0], ast.Name):
                tgt, val = st.targets[0].id, st.value
            elif isinstance(st, ast.AnnAssign) and isinstance(st.target, ast.Name) and st.value is not None:
                tgt, val = st.target.id, st.value
            if tgt is None or not is_mutable_value(val):
                continue
            # enum members and nested marker instances are constants
            if any((dotted(b) or "").split(".")[-1] in ("Enum", "IntEnum") for b in c.base_exprs):
                continue
            cell = Cell("class", c.qual, tgt, c.mod, st, val)
            # shadowed per instance?
            for k in [c] + repo.subclasses(c, strict=True):
                init = k.methods.get("__init__")
                if init is not None and any(a == tgt for a, _v, _s in astq.self_assigns(init)):
                    cell.shadowed_in_init = True
            out.append(cell)
    return out


def _mutation_of(n: ast.AST, pred: Any, cell_of: Any = None) -> ast.AST | None:
    """If statement/expression n mutates an object selected by pred(expr) -> return the site."""
    if isinstance(n, ast.Call) and isinstance(n.func, ast.Attribute) and n.func.attr in MUTATORS and pred(n.func.value):
        return n
    if isinstance(n, ast.Call) and isinstance(n.func, ast.Name) and n.func.id == "next" and n.args and pred(n.args[0]):
        return n  # advancing a shared iterator
    if isinstance(n, (ast.For, ast.comprehension)) and cell_of is not None and pred(n.iter) and _is_iterator_cell(cell_of(n.iter)):
        return n.iter  # iterating a shared iterator consumes it
    if isinstance(n, (ast.Assign, ast.AugAssign, ast.AnnAssign)):
        tgts = n.targets if isinstance(n, ast.Assign) else [n.target]
        for t in tgts:
            for x in ([t] if not isinstance(t, (ast.Tuple, ast.List)) else t.elts):
                if isinstance(x, ast.Subscript) and pred(_root_sub(x)):
                    return n
    if isinstance(n, ast.Delete):
        for t in n.targets:
            if isinstance(t, ast.Subscript) and pred(_root_sub(t)):
                return n
    return None


def _is_iterator_cell(c: Any) -> bool:
    v = getattr(c, "value", None)
    if isinstance(v, ast.GeneratorExp):
        return True
    if isinstance(v, ast.Call):
        d = dotted(v.func) or ""
        return d.startswith("itertools.") or d.split(".")[-1] in ("iter", "count", "cycle", "map", "filter", "zip", "enumerate", "reversed", "open")
    return False


def _root_sub(e: ast.AST) -> ast.AST:
    while isinstance(e, ast.Subscript):
        e = e.value
    return e


def fill_writes(repo: Repo, cells: list[Cell]) -> None:
    mod_cells = {(c.owner, c.name): c for c in cells if c.kind == "module"}
    cls_cells = {(c.owner, c.name): c for c in cells if c.kind == "class"}
    by_cls_attr: dict[str, list[Cell]] = {}
    for c in cells:
        if c.kind == "class":
            by_cls_attr.setdefault(c.name, []).append(c)

    for f in repo.all_funcs():
        globals_declared = {nm for n in walk_no_nested(f.node) if isinstance(n, ast.Global) for nm in n.names}

        def mod_pred(e: ast.AST, f: Func = f) -> Cell | None:
            d = dotted(e)
            if d is None:
                return None
            r = repo.resolve(f.mod, d)
            if r and r[0] == "const":
                m2, n2 = r[1]  # type: ignore[misc]
                return mod_cells.get((m2.name, n2))
            return None

        local_names = set(astq.params_of(f.node, skip_self=False))
        for n in walk_no_nested(f.node):
            if isinstance(n, (ast.Assign, ast.AnnAssign, ast.AugAssign, ast.For, ast.comprehension)):
                for t in ast.walk(n.target if not isinstance(n, ast.Assign) else ast.Tuple(elts=n.targets, ctx=ast.Store())):
                    if isinstance(t, ast.Name) and isinstance(t.ctx, ast.Store) and t.id not in globals_declared:
                        local_names.add(t.id)
        # class cells: self.attr / Cls.attr / cls.attr
        aliases: dict[str, Cell] = {}

        def cls_pred(e: ast.AST, f: Func = f, aliases: dict[str, Cell] = aliases) -> Cell | None:
            if isinstance(e, ast.Name) and e.id in aliases:
                return aliases[e.id]
            if isinstance(e, ast.Attribute) and isinstance(e.value, ast.Name):
                if e.value.id in ("self", "cls") and f.cls is not None:
                    for k in repo.mro(f.cls):
                        if (k.qual, e.attr) in cls_cells:
                            return cls_cells[(k.qual, e.attr)]
                else:
                    r = repo.resolve(f.mod, e.value.id)
                    if r and r[0] == "class" and (r[1].qual, e.attr) in cls_cells:  # type: ignore[union-attr]
                        return cls_cells[(r[1].qual, e.attr)]  # type: ignore[union-attr]
            elif isinstance(e, ast.Attribute) and isinstance(e.value, ast.Attribute):
                # self.decompiler.<attr>
                cands = by_cls_attr.get(e.attr, [])
                if len(cands) == 1:
                    return cands[0]
            return None
        # local aliases of class-level cells: `table = cls._table` followed by `table[k] = v` writes the shared cell
        for n in walk_no_nested(f.node):
            if isinstance(n, ast.Assign) and len(n.targets) == 1 and isinstance(n.targets[0], ast.Name) and isinstance(n.value, ast.Attribute):
                c0 = cls_pred(n.value)
                if c0 is not None:
                    aliases[n.targets[0].id] = c0
        for n in walk_no_nested(f.node):
            # module cells
            site = _mutation_of(n, lambda e: isinstance(e, (ast.Name, ast.Attribute)) and not (isinstance(e, ast.Name) and e.id in local_names)
                                and mod_pred(e) is not None, mod_pred)
            if site is not None:
                tgt_e = n.func.value if isinstance(n, ast.Call) else None  # type: ignore[union-attr]
                for e in ast.walk(n):
                    c = mod_pred(e) if isinstance(e, (ast.Name, ast.Attribute)) and not (isinstance(e, ast.Name) and e.id in local_names) else None
                    if c is not None:
                        c.runtime_writes.append((f, n))
                        break
            if isinstance(n, (ast.Assign, ast.AugAssign)):
                tg = n.targets if isinstance(n, ast.Assign) else [n.target]
                for t in tg:
                    if isinstance(t, ast.Name) and t.id in globals_declared and (f.mod.name, t.id) in mod_cells:
                        mod_cells[(f.mod.name, t.id)].runtime_writes.append((f, n))
            # reads of module cells (calls on them, subscripts)
            if isinstance(n, (ast.Name, ast.Attribute)) and isinstance(getattr(n, "ctx", None), ast.Load) \
                    and not (isinstance(n, ast.Name) and n.id in local_names):
                c = mod_pred(n)
                if c is not None:
                    c.runtime_reads.append((f, n))
            site = _mutation_of(n, lambda e: cls_pred(e) is not None, cls_pred)
            if site is not None:
                for e in ast.walk(n):
                    c = cls_pred(e) if isinstance(e, (ast.Attribute, ast.Name)) else None
                    if c is not None:
                        c.runtime_writes.append((f, n))
                        break
    # import-time writes: module-level statements and class bodies
    for m in repo.modules.values():
        for st in Repo._toplevel(m.tree.body):
            for n in ast.walk(st) if not isinstance(st, (ast.FunctionDef, ast.ClassDef)) else []:
                site = _mutation_of(n, lambda e: isinstance(e, ast.Name) and (m.name, e.id) in mod_cells)
                if site is not None:
                    for e in ast.walk(n):
                        if isinstance(e, ast.Name) and (m.name, e.id) in mod_cells:
                            mod_cells[(m.name, e.id)].import_time_writes.append((m, n))
                            break


def process_global_calls(repo: Repo) -> Iterator[tuple[Func | Mod, ast.Call, bool]]:
    """(where, call, at_runtime) for calls that change interpreter-wide settings."""
    for m in repo.modules.values():
        for st in Repo._toplevel(m.tree.body):
            if isinstance(st, (ast.FunctionDef, ast.ClassDef)):
                continue
            for n in ast.walk(st):
                if isinstance(n, ast.Call) and dotted(n.func) in PROCESS_GLOBAL_CALLS:
                    yield m, n, False
    for f in repo.all_funcs():
        for n in walk_no_nested(f.node):
            if isinstance(n, ast.Call) and dotted(n.func) in PROCESS_GLOBAL_CALLS:
                yield f, n, True
