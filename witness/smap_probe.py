import random, json
from explorerscript.source_map import SourceMap, SourceMapping, MacroSourceMapping, SourceMapPositionMark
def rnd_map(r):
    offs=r.sample(range(0,12), r.randint(0,8))
    direct={o: SourceMapping(r.randint(0,30), r.randint(0,40)) for o in offs[:len(offs)//2]}
    macros={}
    for o in offs[len(offs)//2:]:
        macros[o]=MacroSourceMapping(r.choice([None,"a/b.exps"]), "m%d"%o, r.randint(0,30), r.randint(0,9), r.choice([None,(None,1,2),("x.exps",3,4)]),
                                     r.choice([None]+list(range(0,14))), {"$a": r.choice([1,"s"])})
    marks=[SourceMapPositionMark(1,2,1,20,"n",0,2,3,4) for _ in range(r.randint(0,2))]
    mm=[(r.choice([None,"f.exps"]),"m",SourceMapPositionMark(5,6,5,30,"q'",2,0,-1,7)) for _ in range(r.randint(0,2))]
    return SourceMap(direct,marks,macros,mm)
def dump(m): return json.loads(m.serialize())
bad=0
for seed in range(20000):
    r=random.Random(seed)
    m=rnd_map(r)
    t=m.serialize()
    m2=SourceMap.deserialize(t)
    if not (m2==m and m2.serialize()==t and dump(m2)==dump(m)):
        bad+=1; print('ROUNDTRIP',seed); 
    # rewrite
    keys=sorted(set(m._mappings)|set(m._mappings_macros)|{e.return_addr for e in m._mappings_macros.values() if e.return_addr is not None})
    universe=sorted(set(keys)|set(r.sample(range(0,14), r.randint(0,4))))
    kept=[k for k in universe if r.random()<0.75]
    news=r.sample(range(0,40), len(kept))
    items=list(zip(kept,news)); r.shuffle(items)
    mp=dict(items)
    before_d=dict(m._mappings); before_m={k:(v, v.return_addr) for k,v in m._mappings_macros.items()}
    m.rewrite_offsets(dict(mp))
    want_d={mp[k] for k in before_d if k in mp}; want_m={mp[k] for k in before_m if k in mp}
    problems=[]
    if set(m._mappings)!=want_d or set(m._mappings_macros)!=want_m: problems.append('keys')
    for k,(e,ret) in before_m.items():
        if k not in mp or ret is None: continue
        surv=[o for o in sorted(mp) if o>=ret]
        if surv and e.return_addr!=mp[surv[0]]: problems.append(f'ret {ret} -> {e.return_addr}, want {mp[surv[0]]}')
    if problems:
        bad+=1
        if bad<6: print('REWRITE',seed,problems[:2],mp)
print('bad',bad)
