"""C03 — compiled output is a closed, uniquely addressed op list."""

from __future__ import annotations

import ast
from typing import Any

from ..engine import astq
from ..engine.cfg import build_cfg, stmt_of
from ..engine.emit import emission_sites
from ..engine.loader import AnalysisError, Func, dotted, norm, walk_no_nested
from ..engine.report import Check, fkey

REMOVER = "explorerscript.ssb_converting.compiler.label_jump_to_remover:OpsLabelJumpToRemover.__init__"
FINALIZER = "explorerscript.ssb_converting.compiler.label_finalizer:LabelFinalizer.__init__"
LISTENER = "explorerscript.ssb_script.ssb_converting.compiler.compiler_listener"
SPECIAL = "explorerscript.ssb_converting.ssb_special_ops"
UTILS = "explorerscript.ssb_converting.compiler.utils"


def _isinstance_guards(fn: ast.FunctionDef, node: ast.AST, var: str) -> tuple[set[str], set[str]]:
    """Classes for which isinstance(var, C) is known true / false at ``node`` (syntactic if/elif nesting)."""
    pos: set[str] = set()
    neg: set[str] = set()

    def visit(body: list[ast.stmt], p: set[str], n: set[str]) -> bool:
        for st in body:
            if any(x is node for x in ast.walk(st)) and not isinstance(st, (ast.If, ast.For, ast.While, ast.With, ast.Try)):
                pos.update(p)
                neg.update(n)
                return True
            if isinstance(st, ast.If):
                t = st.test
                cname = None
                if isinstance(t, ast.Call) and dotted(t.func) == "isinstance" and len(t.args) == 2 and norm(t.args[0]) == var:
                    cname = dotted(t.args[1])
                if visit(st.body, p | ({cname} if cname else set()), n):
                    return True
                if visit(st.orelse, p, n | ({cname} if cname else set())):
                    return True
            elif isinstance(st, (ast.For, ast.While, ast.With)):
                if visit(st.body, p, n):
                    return True
            elif isinstance(st, ast.Try):
                if visit(st.body, p, n):
                    return True
        return False

    visit(fn.body, set(), set())
    return pos, neg


def _appends(fn: ast.FunctionDef, listname: str) -> list[ast.Call]:
    return [c for c in walk_no_nested(fn) if isinstance(c, ast.Call) and isinstance(c.func, ast.Attribute)
            and c.func.attr in ("append", "insert", "extend") and norm(c.func.value) == listname]


def remover_missing_label_rule(chk: Check, ctx: Any, rule: str) -> None:
    """A label jump is rejected exactly when its label id is not a key of label_offsets (offset 0 is a valid offset)."""
    rem = ctx.repo.func(REMOVER)
    fn = rem.node
    table = astq.params_of(fn)[1]
    raises = [n for n in walk_no_nested(fn) if isinstance(n, ast.Raise) and isinstance(n.exc, ast.Call) and dotted(n.exc.func) == "SsbCompilerError"]
    verdict: bool | None = None
    why = "a jump whose label id is not in label_offsets is not rejected with SsbCompilerError"
    for r in raises:
        for n in walk_no_nested(fn):
            if isinstance(n, ast.If) and any(x is r for st in n.body for x in ast.walk(st)):
                t = astq.inline_locals(fn, n.test)
                if isinstance(t, ast.Compare) and isinstance(t.ops[0], ast.NotIn) and norm(t.comparators[0]) in (table, f"{table}.keys()"):
                    verdict = True
                elif isinstance(t, ast.Compare) and isinstance(t.ops[0], ast.Is) and f"{table}.get(" in norm(t.left) \
                        and isinstance(t.comparators[0], ast.Constant) and t.comparators[0].value is None:
                    verdict = True
                elif isinstance(t, ast.UnaryOp) and isinstance(t.op, ast.Not) and f"{table}.get(" in norm(t.operand) or (
                        isinstance(t, ast.UnaryOp) and isinstance(t.op, ast.Not) and f"{table}[" in norm(t.operand)):
                    verdict = False
                    why = (f"`if {norm(n.test)}` tests the truth value of the looked-up offset: offset 0 (the first op of an SsbScript file) counts as "
                           "missing, so a jump to the very first op is rejected with 'label does not exist'")
    chk.decide(rule, "remover:missing-label-raises", verdict if raises else False, rem, why, "missing label id (key test) -> SsbCompilerError")


def run(chk: Check, ctx: Any) -> None:
    repo = ctx.repo
    fold = ctx.fold
    chk.explanation = (
        "Decides the structural half of every clause of C03 for all programs: only real ops are appended to the routine lists that become "
        "routine_ops and one list is stored per routine (R1); the jump target is appended last, once, from the label-offset table, and the "
        "parameter count at every jump/branch/case emission site equals the decompiler's index table (R2); every op offset comes from the "
        "monotone counter, a pre-allocated blueprint number, or the op it replaces one-for-one (R3); label offsets are recorded only for ops "
        "that stay in the output, in both compilers, and a missing label is rejected (R4); the three routine tables grow together (R5). "
        "Not decided: meaning of raw user-written jump opcodes."
    )
    chk.rule("C03-R6", "compile() interpreted on the program families, macro projects, routine-kind samples and SsbScript: offsets unique across routines, every jump-carrying op has exactly its table's parameter count with the target last and naming an op of the result, no label or label-jump object remains, the three tables have one length")
    chk.rule("C03-R1", "OpsLabelJumpToRemover appends only real ops (root of a label jump; neither label nor label jump) and stores one op list per input routine on every path")
    chk.rule("C03-R2", "the jump target is appended (last) exactly once from label_offsets[label id]; #params at each jump-carrying emission site = OPS_WITH_JUMP_TO_MEM_OFFSET index; the table covers all branch/case ops, Jump and Call")
    chk.rule("C03-R3", "every SsbOperation offset in compiler code is drawn from the op counter, a blueprint's pre-allocated number, or the offset of the op it replaces; Counter only increases")
    chk.rule("C03-R4", "label offsets are stored only where the op that carries them is appended to the output (LabelFinalizer: under 'not removed'; SsbScript listener: in exitOperation after the append); unknown label ids raise SsbCompilerError")
    chk.rule("C03-R5", "routine_infos, routine_ops and named_coroutines are enlarged in the same loop body; every *_def stores under the same routine id")

    # ------------------------------------------------------------------ R1
    rem = repo.func(REMOVER)
    fn = rem.node
    outer = next((n for n in fn.body if isinstance(n, ast.For)), None)
    if outer is None:
        raise AnalysisError("OpsLabelJumpToRemover.__init__: loop over routines not found")
    # per-routine list: the local appended to self.routines
    per_rt = [c for c in walk_no_nested(outer) if isinstance(c, ast.Call) and isinstance(c.func, ast.Attribute) and c.func.attr == "append"
              and astq.self_attr(c.func.value) == "routines"]
    if len(per_rt) != 1 or not isinstance(per_rt[0].args[0], ast.Name):
        chk.unknown("C03-R1", "remover:per-routine-list", rem, "self.routines.append(<list>) not found exactly once in the routine loop")
        return
    lst = per_rt[0].args[0].id
    cfg = build_cfg(fn)
    app_stmt = stmt_of(cfg, per_rt[0])
    # every iteration of the outer loop must pass the append: no path head -> head avoiding it
    skip = any(cfg.path_avoiding(s, outer, lambda n: n is app_stmt) for s in cfg.succ.get(outer, []) if s is not app_stmt
               and cfg.label.get((id(outer), id(s)), True) is True) if app_stmt is not None else None
    chk.decide("C03-R1", "remover:one-list-per-routine", (not skip) if skip is not None else None, rem,
               "an iteration of the routine loop can finish without storing the routine's op list (e.g. `continue` for an empty routine): "
               "routine_ops gets shorter than routine_infos and later routines move to the wrong id", "one list per routine on every path",
               node=per_rt[0])
    inner = next((n for n in ast.walk(outer) if isinstance(n, ast.For) and n is not outer), None)
    if inner is None or not isinstance(inner.target, ast.Name):
        chk.unknown("C03-R1", "remover:op-loop", rem, "loop over the ops of a routine not found")
        return
    opv = inner.target.id
    apps = _appends(fn, lst)
    chk.floor("C03-R1", "appends to the output list in the remover", len(apps), 2)
    jump_app = None
    for a in apps:
        val = astq.inline_locals(fn, a.args[-1])
        pos, neg = _isinstance_guards(fn, a, opv)
        key = fkey(rem, a)
        if a.func.attr != "append":  # type: ignore[union-attr]
            chk.violation("C03-R1", key, rem, f"`{norm(a)}` does not keep the op order of the routine", node=a)
            continue
        if norm(val) == f"{opv}.root" or (isinstance(val, ast.Attribute) and val.attr == "root"):
            ok = "SsbLabelJump" in pos
            jump_app = a
            chk.decide("C03-R1", key, ok, rem, "a `.root` is appended on a path where the op is not known to be an SsbLabelJump", "root of a label jump", node=a)
        elif norm(val) == opv:
            ok = {"SsbLabelJump", "SsbLabel"} <= neg
            chk.decide("C03-R1", key, ok, rem,
                       f"`{norm(a)}` can append a compiler-internal pseudo op: not excluded on this path: {sorted({'SsbLabelJump', 'SsbLabel'} - neg)}",
                       "neither label nor label jump", node=a)
        else:
            chk.unknown("C03-R1", key, rem, f"appended value {norm(val)} not classified", node=a)
    # ------------------------------------------------------------------ R2 (target appended last)
    muts = [c for c in walk_no_nested(fn) if isinstance(c, ast.Call) and isinstance(c.func, ast.Attribute)
            and c.func.attr in ("append", "insert", "extend") and norm(c.func.value).endswith(".params")]
    if len(muts) != 1:
        chk.decide("C03-R2", "remover:target-append", False if not muts else None, rem,
                   "no jump target is added to the parameters of a label jump's op" if not muts else "parameters are modified more than once",
                   "", node=fn)
    else:
        m = muts[0]
        val = astq.inline_locals(fn, m.args[-1]) if m.args else None
        ok_app = m.func.attr == "append"  # type: ignore[union-attr]
        ok_val = isinstance(val, ast.Subscript) and norm(val.value) == astq.params_of(fn)[1] and norm(val.slice).endswith("label.id")
        if not ok_app:
            chk.violation("C03-R2", "remover:target-append", rem, f"`{norm(m)}`: the jump target is not appended as the last parameter", node=m)
        else:
            chk.decide("C03-R2", "remover:target-append", True if ok_val else None, rem,
                       f"appended value {norm(val) if val is not None else None} is not label_offsets[<label id>]", "target = label_offsets[label.id], appended last", node=m)
        # the appended-to op is the one that is output
        recv = astq.inline_locals(fn, m.func.value.value)  # type: ignore[union-attr]
        chk.decide("C03-R2", "remover:target-on-root", norm(recv).endswith(".root"), rem,
                   f"the target is appended to {norm(recv)}, not to the root op that is output", "target stored on the emitted op", node=m)
    remover_missing_label_rule(chk, ctx, "C03-R4")

    # table coverage and index agreement
    table = fold.const(f"{SPECIAL}:OPS_WITH_JUMP_TO_MEM_OFFSET")
    branch = fold.const(f"{SPECIAL}:OPS_BRANCH")
    cases = set()
    for k, v in fold.const(f"{SPECIAL}:OPS_SWITCH_CASE_MAP").items():
        cases |= set(v)
    need = set(branch) | cases | {fold.const(f"{SPECIAL}:OP_JUMP"), fold.const(f"{SPECIAL}:OP_CALL")}
    missing = sorted(need - set(table))
    chk.decide("C03-R2", "table:coverage", not missing, repo.mod(SPECIAL),
               f"OPS_WITH_JUMP_TO_MEM_OFFSET lacks jump-carrying ops {missing}: the decompiler would not treat their last parameter as a target",
               f"{len(need)} jump-carrying ops covered")
    sites = emission_sites(repo, fold)
    n_jump_sites = 0
    for e in sites:
        if e.name is None or e.name not in table:
            continue
        key = fkey(e.func, e.call)
        if e.kind == "op":
            # a jump-carrying opcode emitted as a plain op gets no target
            chk.violation("C03-R2", key, e.func, f"{e.name} is emitted as a plain operation: no jump target will be appended", node=e.call)
            continue
        if e.kind == "raw":
            continue
        n_jump_sites += 1
        pe = astq.inline_locals(e.func.node, e.params_expr) if e.params_expr is not None else None
        if not isinstance(pe, (ast.List, ast.Tuple)):
            chk.unknown("C03-R2", key, e.func, f"parameter list of {e.name} is not a list display: {norm(pe) if pe is not None else None}", node=e.call)
            continue
        chk.decide("C03-R2", key, len(pe.elts) == table[e.name], e.func,
                   f"{e.name} is emitted with {len(pe.elts)} own parameters, so the appended target sits at index {len(pe.elts)}; "
                   f"OPS_WITH_JUMP_TO_MEM_OFFSET says index {table[e.name]} (the decompiler reads the wrong parameter as jump target)",
                   f"{e.name}: {len(pe.elts)} params, target index {table[e.name]}", node=e.call)
    chk.floor("C03-R2", "jump-carrying emission sites", n_jump_sites, 25)

    # ------------------------------------------------------------------ R3 offsets
    n_ops = 0
    for e in sites:
        if e.kind != "raw" or e.offset_expr is None:
            continue
        if e.func.mod.name.startswith(LISTENER):
            continue
        n_ops += 1
        off = astq.inline_locals(e.func.node, e.offset_expr)
        txt = norm(off)
        key = fkey(e.func, e.call)
        ok: bool | None = None
        why = ""
        if txt.endswith("counter_ops()") or txt.endswith("op_idx_counter()") or txt.endswith("counter()"):
            ok, why = True, "fresh number from the op counter"
        elif txt.endswith(".offset") and not txt.startswith("self."):
            ok, why = True, "offset of the op it replaces"
        elif isinstance(off, ast.Name):
            # local: number = self.number; if number is None: number = counter()
            defs = [n.value for n in walk_no_nested(e.func.node) if isinstance(n, ast.Assign)
                    and any(isinstance(t, ast.Name) and t.id == off.id for t in n.targets)]
            good = all(norm(d).endswith("counter_ops()") or norm(d) == "self.number" or norm(d).endswith("op_idx_counter()") for d in defs)
            ok, why = (True, "blueprint number or fresh counter value") if defs and good else (None, "")
        elif isinstance(off, ast.Constant):
            ok, why = False, ""
        chk.decide("C03-R3", key, ok, e.func,
                   f"op offset {txt} is not drawn from the op counter, a blueprint number or the replaced op: offsets may collide", why, node=e.call)
    chk.floor("C03-R3", "SsbOperation constructions in compiler code", n_ops, 4)
    counter = repo.cls(f"{UTILS}.Counter")
    for mname in ("__call__", "allocate"):
        m = counter.methods.get(mname)
        if m is None:
            chk.unknown("C03-R3", f"Counter.{mname}", counter.mod, "method missing")
            continue
        f = Func(counter.mod, counter, m)
        writes = [n for n in walk_no_nested(m) if isinstance(n, (ast.AugAssign, ast.Assign)) and any(
            astq.self_attr(t) == "count" for t in ([n.target] if isinstance(n, ast.AugAssign) else n.targets))]
        good = len(writes) == 1 and isinstance(writes[0], ast.AugAssign) and isinstance(writes[0].op, ast.Add)
        if good and mname == "__call__":
            good = isinstance(writes[0].value, ast.Constant) and writes[0].value.value == 1  # type: ignore[union-attr]
            ret = astq.single_return_expr(m)
            good = good and ret is not None and norm(ret) == "self.count" and writes[0].lineno < astq.returns_of(m)[0].lineno
        if good and mname == "allocate":
            # first = count + 1 computed BEFORE the increase, increase by the requested amount
            ps = astq.params_of(m)
            good = bool(ps) and norm(writes[0].value) == ps[0]  # type: ignore[union-attr]
            ret = astq.single_return_expr(m)
            rtxt = norm(astq.inline_locals(m, ret)) if ret is not None else ""
            firsts = [n for n in walk_no_nested(m) if isinstance(n, ast.Assign) and norm(n.value) == "self.count + 1"]
            good = good and ((rtxt == "self.count + 1" and bool(firsts) and firsts[0].lineno < writes[0].lineno))
        chk.decide("C03-R3", f"Counter.{mname}", good, f,
                   f"Counter.{mname} does not hand out strictly increasing, unused numbers (count must only grow; "
                   f"{'returns the incremented count' if mname == '__call__' else 'returns count+1 taken before growing by the amount'})",
                   "monotone")
    # one op counter per RoutineVisitor, shared with macro expansion
    rv = repo.func("explorerscript.ssb_converting.compiler.compiler_visitor.routine_visitor:RoutineVisitor.__init__")
    ctors = [c for c in walk_no_nested(rv.node) if isinstance(c, ast.Call) and dotted(c.func) == "CompilerCtx"]
    if len(ctors) == 1 and ctors[0].args and isinstance(ctors[0].args[0], ast.Call) and dotted(ctors[0].args[0].func) == "Counter":
        chk.hold("C03-R3", "RoutineVisitor:one-op-counter", rv, "one Counter() for ops per compilation")
    else:
        chk.unknown("C03-R3", "RoutineVisitor:one-op-counter", rv, "CompilerCtx(Counter(), ...) not found exactly once")
    mc = repo.func("explorerscript.ssb_converting.compiler.compile_handlers.operations.macro_call:MacroCallCompileHandler.collect")
    bcalls = [c for c in walk_no_nested(mc.node) if isinstance(c, ast.Call) and isinstance(c.func, ast.Attribute) and c.func.attr == "build"]
    if len(bcalls) == 1 and bcalls[0].args:
        a0 = norm(bcalls[0].args[0])
        chk.decide("C03-R3", "macro_call:shared-counter", a0 == "self.compiler_ctx.counter_ops", mc,
                   f"macro expansion numbers its ops with {a0} instead of the routine's op counter: offsets collide with the caller's ops",
                   "expansion uses the shared op counter", node=bcalls[0])
    else:
        chk.unknown("C03-R3", "macro_call:shared-counter", mc, "macro.build(...) call not found")

    # every op built by a macro expansion owns its parameter list (the jump target is appended to it later)
    pp = repo.func("explorerscript.macro:ExplorerScriptMacro._process_parameters")
    pparams = set(astq.params_of(pp.node))
    rets = [n for n in walk_no_nested(pp.node) if isinstance(n, ast.Return) and n.value is not None]
    aliased = [r for r in rets if isinstance(r.value, ast.Name) and r.value.id in pparams]
    fresh = [r for r in rets if isinstance(r.value, (ast.List, ast.ListComp)) or (isinstance(r.value, ast.Call) and dotted(r.value.func) in ("list", "copy.copy")) or (
        isinstance(r.value, ast.Name) and any(isinstance(a, (ast.Assign, ast.AnnAssign)) and norm(a.targets[0] if isinstance(a, ast.Assign) else a.target) == r.value.id
                                              and isinstance(a.value, (ast.List, ast.ListComp)) for a in walk_no_nested(pp.node)))]
    if aliased:
        chk.violation("C03-R2", "macro:_process_parameters:fresh-list", pp,
                      f"`{norm(aliased[0])}` hands the blueprint's own parameter list to the built op: all expansions of the macro share one list per op, and the "
                      "jump target that OpsLabelJumpToRemover appends is added once per expansion (Jump [6, 12, 17] ...)", node=aliased[0])
    else:
        chk.decide("C03-R2", "macro:_process_parameters:fresh-list", (len(fresh) == len(rets) and bool(rets)) or None, pp,
                   "returned parameter list not recognised as a new list", "a new list per built op")

    # ------------------------------------------------------------------ R4 finalizer / listener
    fin = repo.func(FINALIZER)
    ffn = fin.node
    stores = [n for n in walk_no_nested(ffn) if isinstance(n, ast.Assign) and any(
        isinstance(t, ast.Subscript) and astq.self_attr(t.value) == "label_offsets" for t in n.targets)]
    offs = [n for n in walk_no_nested(ffn) if isinstance(n, ast.Assign) and any(
        isinstance(t, ast.Attribute) and t.attr == "offset" for t in n.targets)]
    kept = [c for c in walk_no_nested(ffn) if isinstance(c, ast.Call) and isinstance(c.func, ast.Attribute) and c.func.attr == "append"
            and isinstance(c.func.value, ast.Name)]
    # the append of a non-label op: the one guarded by the removal flag
    # the branch taken when the op is kept: `if not <flag>: ...` or the else-branch of `if <flag>: ... else: ...`
    class _Kept:
        def __init__(self, body: list[ast.stmt]) -> None:
            self.body = body
    flag_ifs: list[Any] = [n for n in walk_no_nested(ffn) if isinstance(n, ast.If) and isinstance(n.test, ast.UnaryOp) and isinstance(n.test.op, ast.Not)
                           and isinstance(n.test.operand, ast.Name)]
    flag_ifs += [_Kept(n.orelse) for n in walk_no_nested(ffn) if isinstance(n, ast.If) and isinstance(n.test, ast.Name) and n.orelse
                 and any(isinstance(c, ast.Call) and isinstance(c.func, ast.Attribute) and c.func.attr == "append" for st in n.orelse for c in ast.walk(st))]
    # ops that were handed to the output are never taken out again (labels may already carry their offset)
    out_lists = {norm(c.func.value) for c in kept}
    taken_out = [n for n in walk_no_nested(ffn) if (isinstance(n, ast.Delete) and any(isinstance(t, ast.Subscript) and norm(t.value) in out_lists for t in n.targets))
                 or (isinstance(n, ast.Call) and isinstance(n.func, ast.Attribute) and n.func.attr in ("pop", "remove", "clear") and norm(n.func.value) in out_lists)]
    chk.decide("C03-R4", "finalizer:kept-ops-stay", not taken_out, fin,
               f"`{norm(taken_out[0])[:60] if taken_out else ''}` removes an op that was already appended to the output: labels that were waiting for that op already "
               "carry its offset, so jumps to them name an offset that no longer exists in the result", "appended ops are never removed", node=taken_out[0] if taken_out else None)
    if len(stores) != 1 or len(flag_ifs) != 1:
        chk.unknown("C03-R4", "finalizer:shape", fin, "label_offsets store / `if not <removed flag>` not found exactly once")
    else:
        fi = flag_ifs[0]
        in_branch = any(x is stores[0] for st in fi.body for x in ast.walk(st))
        op_append = [c for c in kept if any(x is c for st in fi.body for x in ast.walk(st))]
        chk.decide("C03-R4", "finalizer:offsets-only-for-kept-ops", in_branch and bool(op_append), fin,
                   "label offsets are recorded also when the op after the labels was removed as a redundant jump: the labels then point at an "
                   "offset that is not in the output (dangling jump targets)", "recorded under `if not removed`, next to the append", node=stores[0])
        # value = offset of the op appended in that branch
        if op_append:
            appended = norm(op_append[0].args[0])
            vals = {norm(astq.inline_locals(ffn, n.value)) for n in offs + stores}
            good = all(v in (f"{appended}.offset", "label.offset") for v in vals)
            chk.decide("C03-R4", "finalizer:offset-value", good, fin,
                       f"recorded label offset {sorted(vals)} is not the offset of the op that was kept ({appended}.offset)",
                       f"label offset = {appended}.offset", node=stores[0])
        # waiting labels are cleared only there
        clears = [n for n in walk_no_nested(ffn) if isinstance(n, ast.Assign) and isinstance(n.value, ast.List) and not n.value.elts
                  and isinstance(n.targets[0], ast.Name) and any(x is n for st in ast.walk(ffn) for x in [st]) ]
        wl = [c for c in clears if any(x is c for st in fi.body for x in ast.walk(st))]
        outside = [c for c in clears if c not in wl and any(isinstance(l, ast.For) and any(x is c for x in ast.walk(l)) for l in walk_no_nested(ffn))]
        chk.decide("C03-R4", "finalizer:waiting-cleared-only-when-kept", not outside, fin,
                   "the list of labels waiting for their op is cleared on a path where no op was kept: those labels never get an offset",
                   "waiting list cleared only after assignment")
    # removal condition: only plain Jumps to a label directly after
    rm = [n for n in walk_no_nested(ffn) if isinstance(n, ast.If) and "OP_JUMP" in norm(n.test)]
    ok_rm = len(rm) == 1 and "isinstance(op, SsbLabelJump)" in norm(rm[0].test) and "_labels_after" in "".join(norm(s) for s in rm[0].body)
    chk.decide("C03-R4", "finalizer:only-redundant-jumps-removed", ok_rm or None, fin,
               "ops are removed under a condition other than `label jump with opcode Jump whose label follows directly`", "only redundant Jumps are removed")

    # SsbScript listener sibling
    lm = repo.mod(LISTENER)
    lc = lm.classes.get("SsbScriptCompilerListener")
    if lc is None:
        raise AnalysisError("SsbScriptCompilerListener not found")
    n_store = 0
    for mname, m in lc.methods.items():
        f = Func(lm, lc, m)
        for n in walk_no_nested(m):
            if isinstance(n, ast.Assign) and any(isinstance(t, ast.Subscript) and astq.self_attr(t.value) == "label_offsets" for t in n.targets):
                n_store += 1
                key = fkey(f, n)
                app = [c for c in walk_no_nested(m) if isinstance(c, ast.Call) and isinstance(c.func, ast.Attribute)
                       and c.func.attr == "append" and astq.self_attr(c.func.value) == "_collected_ops"]
                real_app = [c for c in app if not (isinstance(c.args[0], ast.Name) and c.args[0].id == "label")]
                if not real_app:
                    chk.violation("C03-R4", key, f,
                                  f"{mname} records a label offset but appends no op: a label after the last op gets the number of an op that never "
                                  "comes (jump target outside the result) instead of being rejected", node=n)
                    continue
                after = all(c.lineno < n.lineno for c in real_app)
                val = norm(n.value)
                # same expression as the offset given to the op
                ops_built = [c for c in walk_no_nested(m) if isinstance(c, ast.Call) and dotted(c.func) == "SsbOperation"]
                same = bool(ops_built) and norm(ops_built[0].args[0]) == val
                chk.decide("C03-R4", key, after and same, f,
                           f"label offset {val} is not the number of the op appended before it in {mname}", "label offset = number of the op just appended", node=n)
    chk.floor("C03-R4", "label offset stores in the SsbScript listener", n_store, 1)

    # ------------------------------------------------------------------ R5 tables
    for spec in ("explorerscript.ssb_converting.compiler.compiler_visitor.routine_visitor:RoutineVisitor._enlarge_routine_info",
                 f"{LISTENER}:SsbScriptCompilerListener._enlarge_routine_info"):
        f = repo.func(spec)
        loops = [n for n in walk_no_nested(f.node) if isinstance(n, ast.For)]
        if len(loops) != 1:
            # the other spelling: one extend per table, each by the same number of fresh elements
            ext: dict[str, str | None] = {}
            for c in walk_no_nested(f.node):
                if isinstance(c, ast.Call) and isinstance(c.func, ast.Attribute) and c.func.attr == "extend" and astq.self_attr(c.func.value) and len(c.args) == 1:
                    a = c.args[0]
                    cnt: str | None = None
                    if isinstance(a, ast.BinOp) and isinstance(a.op, ast.Mult):
                        lst, k = (a.left, a.right) if isinstance(a.left, ast.List) else (a.right, a.left)
                        if isinstance(lst, ast.List) and len(lst.elts) == 1 and isinstance(lst.elts[0], ast.Constant):
                            cnt = norm(k)  # [None] * n: n references to one immutable value
                    elif isinstance(a, (ast.GeneratorExp, ast.ListComp)) and len(a.generators) == 1 and not a.generators[0].ifs:
                        it = a.generators[0].iter
                        if isinstance(it, ast.Call) and dotted(it.func) == "range" and 1 <= len(it.args) <= 2 and (len(it.args) == 1 or norm(it.args[0]) == "0"):
                            cnt = norm(it.args[-1])
                    ext[astq.self_attr(c.func.value) or "?"] = cnt
            if not ext:
                chk.unknown("C03-R5", f.qual, f, "enlarging loop not found")
                continue
            want_e = {"named_coroutines", "routine_infos", "routine_ops"}
            counts = set(ext.values())
            chk.decide("C03-R5", f.qual, set(ext) == want_e and len(counts) == 1 and None not in counts, f,
                       f"the tables are extended by different amounts: { {k: v or 'a fixed / shared-element list' for k, v in sorted(ext.items())} } "
                       f"(missing: {sorted(want_e - set(ext))})", "three tables are extended by the same number of fresh elements")
            continue
        appended = sorted({astq.self_attr(c.func.value) for c in walk_no_nested(loops[0]) if isinstance(c, ast.Call)  # type: ignore[union-attr]
                           and isinstance(c.func, ast.Attribute) and c.func.attr == "append" and astq.self_attr(c.func.value)})
        want = ["named_coroutines", "routine_infos", "routine_ops"]
        chk.decide("C03-R5", f.qual, appended == want, f,
                   f"the loop enlarges {appended} but not {sorted(set(want) - set(appended))}: the tables get different lengths", "three tables grow together")
    n_def = 0
    for cls_spec, prefix in (("explorerscript.ssb_converting.compiler.compiler_visitor.routine_visitor.RoutineVisitor", "visit"),
                             (f"{LISTENER}.SsbScriptCompilerListener", "exit")):
        c = repo.cls(cls_spec)
        for mname, m in c.methods.items():
            if not (mname.startswith(prefix) and mname.endswith("_def")):
                continue
            n_def += 1
            f = Func(c.mod, c, m)
            idx = set()
            tables = set()
            for n in walk_no_nested(m):
                if isinstance(n, ast.Subscript) and isinstance(n.ctx, ast.Store) and astq.self_attr(n.value) in (
                        "routine_infos", "routine_ops", "named_coroutines"):
                    idx.add(norm(n.slice))
                    tables.add(astq.self_attr(n.value))
            calls_enlarge = any(isinstance(x, ast.Call) and dotted(x.func) == "self._enlarge_routine_info" for x in walk_no_nested(m))
            ok = idx == {"self._active_routine_id"} and {"routine_infos", "routine_ops"} <= tables and calls_enlarge
            chk.decide("C03-R5", f.qual, ok, f,
                       f"{mname} stores tables {sorted(tables)} under indices {sorted(idx)} (enlarge called: {calls_enlarge}); all tables must be "
                       "stored under self._active_routine_id after enlarging", "stored under the active routine id")
    chk.floor("C03-R5", "routine definition handlers", n_def, 6)

    # compile(): routine_ops flows from the remover
    for spec in ("explorerscript.ssb_converting.ssb_compiler:ExplorerScriptSsbCompiler.compile",
                 "explorerscript.ssb_script.ssb_converting.ssb_compiler:SsbScriptSsbCompiler.compile"):
        f = repo.func(spec)
        for attr, val, st in astq.self_assigns(f.node):
            if attr != "routine_ops" or (isinstance(val, ast.Constant) and val.value is None):
                continue
            v = astq.inline_locals(f.node, val)
            txt = norm(v)
            ok = (isinstance(v, ast.Attribute) and v.attr == "routines" and isinstance(v.value, ast.Call)
                  and dotted(v.value.func) == "OpsLabelJumpToRemover") or (
                isinstance(v, ast.Attribute) and v.attr == "routine_ops" and not txt.startswith("self."))
            chk.decide("C03-R1", fkey(f, st), ok or None, f,
                       f"routine_ops is assigned from {txt}, not from OpsLabelJumpToRemover(...).routines", "routine_ops comes out of the remover", node=st)
    from .oplist import closed_oplist_rule
    closed_oplist_rule(chk, ctx, "C03-R6", getattr(ctx, "tier", "quick") == "thorough")

