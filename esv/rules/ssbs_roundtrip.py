"""SsbScript as a lossless spelling of routine sets (C07): SsbScriptSsbDecompiler.convert and SsbScriptSsbCompiler.compile interpreted."""

from __future__ import annotations

from typing import Any

from ..engine.absint import AObj, PyExc, Unsupported
from ..engine.loader import AnalysisError
from ..engine.report import Check

SPECIAL = "explorerscript.ssb_converting.ssb_special_ops"


def _hand_made(P: Any) -> list[tuple[str, list[Any], list[list[Any]], list[Any]]]:
    """Routine sets a binary reader can deliver that the ExplorerScript compiler never produces."""
    o, inf, pa = P.op, P.info, P.param
    sets = []
    # arbitrary opcode names, every parameter kind, unreachable ops, jumps between routines in both directions, first/last ops as targets
    sets.append(("all-parameter-kinds", [inf("GENERIC")], [[
        o(0, "weird_OpName9", [0, -5, 65535, pa("SsbOpParamConstant", "CONST_X"), pa("SsbOpParamConstString", "it's \"q\""), pa("SsbOpParamConstString", "two\nlines"),
                               pa("SsbOpParamLanguageString", {"english": "a", "german": "b\nc"}), pa("SsbOpParamPositionMarker", "m'k", 2, 0, 3, 4),
                               pa("SsbOpParamFixedPoint", 1, "50"), pa("SsbOpParamFixedPoint", -3, "0")]),
        o(1, "say", [pa("SsbOpParamLanguageString", {"english": "second", "french": "deux"}), pa("SsbOpParamLanguageString", {"english": "third"})]),
        o(2, "End", [])]], [None]))
    sets.append(("cross-routine-both-directions", [inf("GENERIC"), inf("ACTOR", 5), inf("OBJECT", -1, "OBJ_X"), inf("PERFORMER", 2)], [
        [o(0, "a", []), o(1, "Jump", [6]), o(2, "unreachable", [1]), o(3, "Return", [])],
        [o(4, "Branch", [pa("SsbOpParamConstant", "$V"), 1, 0]), o(5, "b", []), o(6, "c", []), o(7, "Jump", [4])],
        [o(8, "Call", [3]), o(9, "Jump", [9])],
        [o(10, "BranchBit", [pa("SsbOpParamConstant", "$W"), 3, 10]), o(11, "Jump", [8]), o(12, "Hold", [])]], [None, None, None, None]))
    sets.append(("alias-and-coroutines", [inf("COROUTINE"), inf("COROUTINE"), inf("COROUTINE")], [
        [o(0, "x", []), o(1, "Jump", [2])], [], [o(2, "y", []), o(3, "Jump", [0])]], ["CORO_A", "CORO_B", "CORO_C"]))
    sets.append(("jump-to-last-op-of-previous-routine", [inf("GENERIC"), inf("GENERIC")], [
        [o(0, "p", []), o(1, "End", [])], [o(2, "q", []), o(3, "Jump", [1])]], [None, None]))
    sets.append(("forward-into-last-routine", [inf("GENERIC"), inf("GENERIC"), inf("GENERIC")], [
        [o(0, "Jump", [5])], [o(1, "m", []), o(2, "End", [])], [o(3, "n", []), o(4, "n2", []), o(5, "End", [])]], [None, None, None]))
    sets.append(("switch-cases-and-text", [inf("GENERIC")], [[
        o(0, "Switch", [pa("SsbOpParamConstant", "$S")]), o(1, "Case", [1, 4]), o(2, "CaseValue", [3, 7, 5]), o(3, "Jump", [6]), o(4, "ca", []), o(5, "cb", []),
        o(6, "message_SwitchTalk", [pa("SsbOpParamConstant", "$T")]), o(7, "CaseText", [1, pa("SsbOpParamConstString", "one")]),
        o(8, "DefaultText", [pa("SsbOpParamLanguageString", {"english": "d"})]), o(9, "End", [])]], [None]))
    sets.append(("many-labels-same-target", [inf("GENERIC")], [[
        o(0, "Branch", [pa("SsbOpParamConstant", "$A"), 1, 3]), o(1, "Branch", [pa("SsbOpParamConstant", "$B"), 2, 3]), o(2, "Jump", [3]), o(3, "t", []), o(4, "Jump", [0])]], [None]))
    sets.append(("position-marks-at-the-edges", [inf("GENERIC")], [[
        o(0, "mk", [pa("SsbOpParamPositionMarker", "edge", 0, 0, -1, 5), pa("SsbOpParamPositionMarker", "edge2", 2, 2, -1, -1), pa("SsbOpParamPositionMarker", "z", 0, 2, 0, 0),
                    pa("SsbOpParamPositionMarker", "big", 2, 0, 255, -128)]), o(1, "End", [])]], [None]))
    sets.append(("coroutines-after-other-routines", [inf("GENERIC"), inf("ACTOR", 3), inf("COROUTINE"), inf("COROUTINE")], [
        [o(0, "g", []), o(1, "End", [])], [o(2, "h", []), o(3, "End", [])], [o(4, "i", []), o(5, "Return", [])], [o(6, "j", []), o(7, "Return", [])]],
        [None, None, "CORO_LATE_A", "CORO_LATE_B"]))
    sets.append(("offsets-with-gaps", [inf("GENERIC")], [[o(10, "a", []), o(20, "Branch", [pa("SsbOpParamConstant", "$V"), 1, 40]), o(30, "b", []), o(40, "End", [])]], [None]))
    return sets


def _more_hand_made(P: Any) -> list[tuple[str, list[Any], list[list[Any]], list[Any]]]:
    """Further sets for the ExplorerScript decompiler (strings with empty lines, switch-type ops used as plain operations, loops through the first op)."""
    o, inf, pa = P.op, P.info, P.param
    V = lambda n: pa("SsbOpParamConstant", n)  # noqa: E731
    sets = []
    sets.append(("strings-with-empty-lines", [inf("GENERIC")], [[
        o(0, "hm_a", [pa("SsbOpParamConstString", "\nHello!")]), o(1, "hm_b", [pa("SsbOpParamConstString", "  Title\n\nBody")]),
        o(2, "hm_c", [pa("SsbOpParamConstString", " x\n"), pa("SsbOpParamLanguageString", {"english": "\n\n", "german": "a\n\n b"})]),
        o(3, "hm_d", [pa("SsbOpParamConstString", " NOTICE\n\n everything must go"), pa("SsbOpParamConstString", "\t\tindented with tabs\n\n\t\tand a gap"),
                      pa("SsbOpParamLanguageString", {"english": "  Dear Explorer,\n\n  the guild thanks you.\n  See you soon!", "german": "Hallo\n\n  Welt"})]),
        o(4, "hm_e", [pa("SsbOpParamConstString", "   deep\n  \n   deeper\n "), pa("SsbOpParamConstString", " \n a\n b")]), o(5, "End", [])]], [None]))
    sets.append(("switch-type-ops-as-plain-operations", [inf("GENERIC")], [[
        o(0, "hm_first", []), o(1, "ProcessSpecial", [1, 2, 3]), o(2, "hm_mid", []), o(3, "message_Menu", [V("MENU_X")]), o(4, "SwitchRandom", [5]), o(5, "hm_last", []),
        o(6, "End", [])]], [None]))
    # a routine that starts with a Jump while its first op is the target of exactly one later branch (the entry is not "label 0")
    sets.append(("entry-op-is-a-branch-target", [inf("GENERIC")], [[
        o(0, "Jump", [2]), o(1, "Branch", [V("$A"), 1, 0]), o(2, "Branch", [V("$B"), 1, 1]), o(3, "End", [])]], [None]))
    sets.append(("entry-op-is-a-branch-target-2", [inf("GENERIC")], [[
        o(0, "Jump", [3]), o(1, "hm_never", []), o(2, "hm_body", []), o(3, "Branch", [V("$A"), 1, 5]), o(4, "End", []), o(5, "Branch", [V("$B"), 1, 0]), o(6, "Jump", [2])]], [None]))
    # two loops that consist of tests only (a wait loop followed by a loop the loop detection opens and cannot close)
    sets.append(("test-only-loops", [inf("GENERIC")], [[
        o(0, "hm_first", []), o(1, "Branch", [V("$A"), 1, 1]), o(2, "Branch", [V("$B"), 1, 3]), o(3, "Jump", [2])]], [None]))
    # jumps into the list of cases of a switch (no ExplorerScript syntax: must end in the exact fallback, never in a switch that lost cases)
    sets.append(("jump-into-case-list", [inf("GENERIC")], [[
        o(0, "hm_first", []), o(1, "Switch", [V("$S")]), o(2, "Case", [2, 6]), o(3, "Case", [3, 5]), o(4, "Jump", [1]), o(5, "hm_body", []), o(6, "Jump", [2])]], [None]))
    # the same with parameters of every kind in the fallback text; position marks at -1 (the SsbScript reader's "not set yet" value) in either coordinate
    pm = lambda n, xo, yo, xr, yr: pa("SsbOpParamPositionMarker", n, xo, yo, xr, yr)  # noqa: E731
    sets.append(("jump-into-case-list-with-parameters", [inf("GENERIC")], [[
        o(0, "hm_first", [pm("left", 0, 0, -1, 4), pm("left half", 2, 0, -1, 4), pm("up", 0, 0, 4, -1), pm("both", 2, 2, -1, -1), pm("zero", 0, 0, 0, 0)]),
        o(1, "Switch", [V("$S")]), o(2, "Case", [2, 6]), o(3, "Case", [3, 5]), o(4, "Jump", [1]),
        o(5, "hm_body", [-1, 0, pa("SsbOpParamFixedPoint", "-1.5") if False else -1, pa("SsbOpParamConstString", "two\nlines"), pa("SsbOpParamLanguageString", {"english": "a", "german": "b\nc"})]),
        o(6, "Jump", [2])]], [None]))
    sets.append(("jump-into-case-list-shared-branch", [inf("GENERIC")], [[
        o(0, "Switch", [V("$S")]), o(1, "Case", [1, 5]), o(2, "Case", [2, 6]), o(3, "Case", [3, 5]), o(4, "Jump", [3]), o(5, "Jump", [3]), o(6, "Jump", [0])]], [None]))
    # every routine kind, targets by number and by name, coroutine names - in a set that can only be written as fallback text
    sets.append(("fallback-with-every-routine-kind", [inf("COROUTINE"), inf("ACTOR", -1, "ACTOR_NPC_1"), inf("OBJECT", 7), inf("PERFORMER", -1, "PERF_X"), inf("ACTOR", 3), inf("COROUTINE")], [
        [o(0, "Switch", [V("$S")]), o(1, "Case", [1, 3]), o(2, "Case", [2, 4]), o(3, "Jump", [2]), o(4, "Return", [])],
        [o(5, "hm_a", []), o(6, "End", [])], [o(7, "hm_b", []), o(8, "Hold", [])], [o(9, "hm_c", []), o(10, "End", [])], [o(11, "hm_d", []), o(12, "End", [])],
        [o(13, "hm_e", []), o(14, "Return", [])]], ["CORO_FIRST", None, None, None, None, "CORO_LAST"]))
    # the first op is a jump target only of code that can not be reached; ops that can not be reached follow it
    sets.append(("entry-label-before-unreachable-ops", [inf("GENERIC")], [[
        o(0, "Jump", [2]), o(1, "hm_never", []), o(2, "Jump", [4]), o(3, "Jump", [0]), o(4, "End", [])]], [None]))
    # a call of an earlier label (recursion) that is followed by a jump
    sets.append(("call-back-then-jump", [inf("GENERIC")], [[
        o(0, "hm_a", []), o(1, "Call", [0]), o(2, "Jump", [4]), o(3, "hm_b", []), o(4, "End", [])]], [None]))
    # two loops that consist of tests only and share their ops; the routine never ends
    sets.append(("test-only-loops-sharing-ops", [inf("GENERIC")], [[
        o(0, "Jump", [2]), o(1, "Branch", [V("$A"), 1, 1]), o(2, "Branch", [V("$B"), 1, 1]), o(3, "Jump", [1])]], [None]))
    sets.append(("irreducible-loop-through-first-op", [inf("GENERIC")], [[
        o(0, "hm_top", []), o(1, "Branch", [V("$A"), 1, 4]), o(2, "hm_x", []), o(3, "Jump", [5]), o(4, "hm_y", []), o(5, "hm_z", []), o(6, "Branch", [V("$B"), 2, 4]),
        o(7, "Branch", [V("$C"), 3, 0]), o(8, "Jump", [2])]], [None]))
    sets.append(("loop-head-is-first-op-with-switch", [inf("GENERIC"), inf("GENERIC")], [
        [o(0, "hm_p", []), o(1, "End", [])],
        [o(2, "Switch", [V("$S")]), o(3, "Case", [1, 6]), o(4, "hm_q", []), o(5, "Jump", [2]), o(6, "hm_r", []), o(7, "Jump", [1])]], [None, None]))
    sets.append(("shared-tail-and-routine-starting-with-jump", [inf("GENERIC"), inf("GENERIC")], [
        [o(0, "Jump", [2]), o(1, "hm_dead", []), o(2, "hm_live", []), o(3, "Branch", [V("$A"), 1, 6]), o(4, "hm_l", []), o(5, "Jump", [7]), o(6, "hm_r", []), o(7, "hm_tail", []), o(8, "End", [])],
        [o(9, "hm_s", []), o(10, "Return", [])]], [None, None]))
    # a context op (lives / object / performer) in front of everything that is not one simple statement: the with-block cannot hold it
    cs = lambda t: pa("SsbOpParamConstString", t)  # noqa: E731
    for cname, tail in (
            ("another-context-op", [o(1, "object", [2]), o(2, "hm_x", [3]), o(3, "End", [])]),
            ("two-context-ops-then-assignment", [o(1, "performer", [2]), o(2, "flag_Set", [V("$X"), 3]), o(3, "End", [])]),
            ("message-switch", [o(1, "message_SwitchTalk", [V("$T")]), o(2, "CaseText", [1, cs("one")]), o(3, "DefaultText", [cs("d")]), o(4, "End", [])]),
            ("message-switch-monologue", [o(1, "message_SwitchMonologue", [V("$T")]), o(2, "CaseText", [1, cs("one")]), o(3, "End", [])]),
            ("switch", [o(1, "Switch", [V("$T")]), o(2, "Case", [1, 4]), o(3, "Jump", [5]), o(4, "hm_a", []), o(5, "End", [])]),
            ("branch", [o(1, "Branch", [V("$T"), 1, 3]), o(2, "hm_a", []), o(3, "End", [])]),
            ("jump", [o(1, "Jump", [3]), o(2, "hm_a", []), o(3, "End", [])]),
            ("jump-target", [o(1, "hm_a", []), o(2, "Jump", [1])]),
            ("return", [o(1, "Return", [])]),
            ("call", [o(1, "Call", [3]), o(2, "End", []), o(3, "hm_a", []), o(4, "Return", [])]),
            ("assignment", [o(1, "flag_Set", [V("$X"), 3]), o(2, "End", [])]),
            ("plain-op-with-strings", [o(1, "hm_say", [cs("two\nlines"), pa("SsbOpParamLanguageString", {"english": "a\nb"})]), o(2, "Hold", [])])):
        sets.append((f"context-op-before-{cname}", [inf("GENERIC")], [[o(0, "lives", [1])] + tail], [None]))
    sets.append(("context-op-at-the-end-of-a-routine", [inf("GENERIC"), inf("GENERIC")], [[o(0, "hm_a", []), o(1, "lives", [1])], [o(2, "hm_b", [])]], [None, None]))
    # a context op with a terminator (`with (actor 2) { hold; }`: the actor's script ends, the routine goes on) as the whole arm of an if chain / a case
    for cop, term in (("lives", "Hold"), ("object", "End"), ("performer", "Return")):
        sets.append((f"{cop}-{term}-is-a-middle-elseif-arm", [inf("GENERIC")], [[
            o(0, "Branch", [V("$A"), 1, 5]), o(1, "Branch", [V("$B"), 2, 7]), o(2, "Branch", [V("$C"), 3, 10]), o(3, "hm_else", []), o(4, "Jump", [12]),
            o(5, "hm_a", []), o(6, "Jump", [12]), o(7, cop, [2]), o(8, term, []), o(9, "Jump", [12]), o(10, "hm_c", []), o(11, "Jump", [12]),
            o(12, "hm_after", []), o(13, "End", [])]], [None]))
        sets.append((f"{cop}-{term}-is-a-middle-case-body", [inf("GENERIC")], [[
            o(0, "Switch", [V("$S")]), o(1, "Case", [1, 6]), o(2, "Case", [2, 8]), o(3, "Case", [3, 11]), o(4, "hm_default", []), o(5, "Jump", [13]),
            o(6, "hm_one", []), o(7, "Jump", [13]), o(8, cop, [2]), o(9, term, []), o(10, "Jump", [13]), o(11, "hm_three", []), o(12, "Jump", [13]),
            o(13, "hm_after", []), o(14, "End", [])]], [None]))
    # a branch / case whose target lies in code of another routine that the other routine itself never reaches
    sets.append(("branch-into-unreachable-code-of-another-routine", [inf("GENERIC"), inf("GENERIC")], [
        [o(0, "Branch", [V("$A"), 1, 4]), o(1, "End", [])], [o(2, "hm_b", []), o(3, "End", []), o(4, "hm_after", []), o(5, "Return", [])]], [None, None]))
    sets.append(("case-into-unreachable-code-of-another-routine", [inf("GENERIC"), inf("GENERIC")], [
        [o(0, "Switch", [V("$A")]), o(1, "Case", [1, 5]), o(2, "End", [])], [o(3, "hm_b", []), o(4, "End", []), o(5, "hm_after", []), o(6, "Return", [])]], [None, None]))
    sets.append(("branch-and-jump-into-unreachable-code-of-another-routine", [inf("GENERIC"), inf("GENERIC")], [
        [o(0, "BranchBit", [V("$A"), 1, 5]), o(1, "Jump", [5])], [o(2, "hm_b", []), o(3, "Hold", []), o(4, "hm_never", []), o(5, "hm_after", []), o(6, "Jump", [4])]], [None, None]))
    return sets


def ssbs_roundtrip_rule(chk: Check, ctx: Any, rule: str, thorough: bool) -> None:
    from ..engine.pipeline import Pipeline
    from ..engine.sta import show
    from ..spec.skeletons import all_skeletons
    repo = ctx.repo
    fold = ctx.fold
    P = Pipeline(repo, fold)
    I = P.I
    jumpish = set(fold.const(f"{SPECIAL}:OPS_WITH_JUMP_TO_MEM_OFFSET").keys()) if isinstance(fold.const(f"{SPECIAL}:OPS_WITH_JUMP_TO_MEM_OFFSET"), dict) else set()
    jidx = fold.const(f"{SPECIAL}:OPS_WITH_JUMP_TO_MEM_OFFSET")
    anchor = repo.func("explorerscript.ssb_script.ssb_converting.ssb_decompiler:SsbScriptSsbDecompiler.convert")

    def norm(infos: Any, routines: Any, names: Any) -> Any:
        where = {op.attrs["offset"]: (ri, oi) for ri, r in enumerate(routines) for oi, op in enumerate(r)}
        rs = []
        for r in routines:
            lst = []
            for op in r:
                nm = op.attrs["op_code"].attrs["name"]
                ps: list[Any] = []
                for k, p in enumerate(op.attrs["params"]):
                    if nm in jidx and k == jidx[nm] and isinstance(p, int):
                        ps.append(("->", where.get(p, ("dangling", p))))
                    elif isinstance(p, AObj):
                        ps.append((p.cls.name, tuple(sorted((a, str(v)) for a, v in p.attrs.items() if a != "indent"))))
                    else:
                        ps.append(p)
                lst.append((nm, ps))
            rs.append(lst)
        inf = [(i.attrs["type"].name, i.attrs["linked_to"], i.attrs["linked_to_name"]) if isinstance(i, AObj) else None for i in infos]
        # a routine's target does not exist for generic routines and coroutines
        inf = [(t, (lt if t in ("ACTOR", "OBJECT", "PERFORMER") else 0), ln) if isinstance(x, tuple) else x for x in inf for (t, lt, ln) in [x if isinstance(x, tuple) else (None, None, None)]]
        return inf, rs, [n if isinstance(n, str) else None for n in names]

    cases: list[tuple[str, list[Any], list[list[Any]], list[Any]]] = list(_hand_made(P)) + [s for s in _more_hand_made(P) if s[0].startswith("strings-")]
    n_comp = 0
    for i, (fam, prog) in enumerate(all_skeletons(False)):
        if not thorough and i % 12:
            continue
        text = " ".join(f"def {k} {{ {show(r)} }}" for k, r in enumerate(prog))
        try:
            c = P.compile_exps(text)
        except (PyExc, Unsupported, AnalysisError):
            continue
        n_comp += 1
        cases.append((f"compiled:{text}", c.attrs["routine_infos"], c.attrs["routine_ops"], c.attrs["named_coroutines"]))
    bad = 0
    for name, infos, routines, names in cases:
        key = f"ssbs-roundtrip:{name}"
        try:
            want = norm(infos, routines, names)
            import copy
            text, _sm = P.decompile_ssbs(infos, routines, names)
            after = norm(infos, routines, names)
            c2 = P.compile_ssbs(text)
            got = norm(c2.attrs["routine_infos"], c2.attrs["routine_ops"], c2.attrs["named_coroutines"])
        except PyExc as e:
            bad += 1
            chk.violation(rule, key, anchor, f"routine set `{name}`: the SsbScript round trip fails with {e.cls_name}: {e.msg} (at {e.where})")
            continue
        except (Unsupported, AnalysisError) as e:
            chk.unknown(rule, key, anchor, f"routine set `{name}`: abstract interpretation left the modelled subset: {e}")
            continue
        problems = []
        if after != want:
            problems.append("convert() changed its input ops")
        if got[0] != want[0]:
            problems.append(f"routine table {want[0]} came back as {got[0]}")
        if got[2] != want[2]:
            problems.append(f"coroutine names {want[2]} came back as {got[2]}")
        if got[1] != want[1]:
            d = next(((a, b) for ra, rb in zip(want[1], got[1]) for a, b in zip(ra, rb) if a != b), None)
            problems.append(f"op {d[0]} came back as {d[1]}" if d else f"op counts {[len(r) for r in want[1]]} came back as {[len(r) for r in got[1]]}")
        if problems:
            bad += 1
            chk.violation(rule, key, anchor, f"routine set `{name}`: " + "; ".join(problems) + f" -- SsbScript text: {text[:600]!r}")
        elif not name.startswith("compiled:"):
            chk.hold(rule, key, anchor, "same routines, ops, parameters and jump targets")
    chk.floor(rule, "routine sets taken through SsbScript and back", len(cases), 100 if not thorough else 1500)
    if not bad:
        chk.hold(rule, "ssbs-roundtrip:compiled-family", anchor, f"{n_comp} compiled routine sets come back op for op")


def ssbs_sourcemap_rule(chk: Check, ctx: Any, rule: str) -> None:
    """The SsbScript decompiler's own map (also used by the ExplorerScript decompiler's fallback): every op has an entry at the first character of its
    statement - also when the statement spans several lines - and recompiling the text records the op on the same line."""
    from ..engine.pipeline import Pipeline
    repo = ctx.repo
    P = Pipeline(repo, ctx.fold)
    I = P.I
    anchor = repo.func("explorerscript.ssb_script.ssb_converting.ssb_decompiler:SsbScriptSsbDecompiler._read_op")
    n = 0
    for name, infos, routines, names in _hand_made(P) + _more_hand_made(P):
        key = f"ssbs-map:{name}"
        n += 1
        try:
            text, sm = P.decompile_ssbs(infos, routines, names)
            maps = sm.attrs.get("_mappings", {})
            lines = text.split("\n")
            problems = []
            flat = [op for r in routines for op in r]
            for op in flat:
                off = op.attrs["offset"]
                nm = op.attrs["op_code"].attrs["name"] if not op.cls.name == "SsbLabelJump" else op.attrs["_root"].attrs["op_code"].attrs["name"]
                if op.cls.name == "SsbLabel":
                    continue
                ent = maps.get(off)
                if ent is None:
                    problems.append(f"op {off} {nm} has no entry")
                    continue
                ln, col = ent.attrs["line"], ent.attrs["column"]
                if not (0 <= ln < len(lines)) or not lines[ln][col:].startswith(nm):
                    problems.append(f"entry of op {off} {nm} points at line {ln}, column {col}: {lines[ln][col:col + 25]!r}" if 0 <= ln < len(lines) else f"entry of op {off} outside the text")
            if not problems:
                c2 = P.compile_ssbs(text)
                m2 = c2.attrs["source_map"].attrs.get("_mappings", {})
                flat2 = [op for r in c2.attrs["routine_ops"] for op in r]
                real = [op for op in flat if op.cls.name != "SsbLabel"]
                for a, b in zip(real, flat2):
                    la = maps[a.attrs["offset"]].attrs["line"]
                    eb = m2.get(b.attrs["offset"])
                    if eb is None or eb.attrs["line"] != la:
                        problems.append(f"op {a.attrs['offset']}: the decompiler's map says line {la}, recompiling the text says {eb.attrs['line'] if eb is not None else None}")
                        break
            chk.decide(rule, key, not problems, anchor, f"routine set `{name}`: " + "; ".join(problems[:3]) + f" -- text {text[:300]!r}",
                       "every op has an entry at the first character of its statement; recompilation agrees on the line")
        except PyExc as e:
            chk.violation(rule, key, anchor, f"routine set `{name}`: the SsbScript decompiler or compiler fails with {e.cls_name}: {e.msg}")
        except (Unsupported, AnalysisError) as e:
            chk.unknown(rule, key, anchor, f"routine set `{name}`: abstract interpretation left the modelled subset: {e}")
    chk.floor(rule, "routine sets whose SsbScript source map was compared", n, 10)


def _op_level(P: Any, thorough: bool) -> list[tuple[str, list[Any], list[list[Any]], list[Any]]]:
    """Every well-formed routine of up to 3 (thorough: 4) ops over {plain op, End, Jump -> t, Branch -> t} (up to 3 ops also Call -> t and Return): all layouts of all small flow
    graphs, whether or not a compiler would produce them.  Well-formed: the last op does not fall off the end, every target is an op of
    the routine, no cycle consists of Jump ops only."""
    import itertools
    o, inf, pa = P.op, P.info, P.param
    out = []
    for n in range(1, (4 if thorough else 3) + 1):
        choices: list[tuple[str, int | None]] = [("P", None), ("E", None)] + [("J", t) for t in range(n)] + [("B", t) for t in range(n)]
        if n <= 3:
            choices += [("K", t) for t in range(n)] + [("R", None)]  # Call -> t and Return, for the routines of up to 3 ops
        for prog in itertools.product(choices, repeat=n):
            if prog[-1][0] not in "EJR":
                continue
            ok = True
            for i, (k, t) in enumerate(prog):
                if k == "J":
                    seen = set()
                    j = i
                    while prog[j][0] == "J":
                        if j in seen:
                            ok = False
                            break
                        seen.add(j)
                        j = prog[j][1]  # type: ignore[assignment]
                    if not ok:
                        break
            if not ok:
                continue
            ops = []
            for i, (k, t) in enumerate(prog):
                if k == "E":
                    ops.append(o(i, "End", []))
                elif k == "J":
                    ops.append(o(i, "Jump", [t]))
                elif k == "K":
                    ops.append(o(i, "Call", [t]))
                elif k == "R":
                    ops.append(o(i, "Return", []))
                elif k == "B":
                    ops.append(o(i, "Branch", [pa("SsbOpParamConstant", f"$V{i}"), 1, t]))
                else:
                    ops.append(o(i, f"op{i}", []))
            shape = " ".join(k if t is None else f"{k}{t}" for k, t in prog)
            out.append((f"oplevel-{n}", [inf("GENERIC")], [ops], [None]))
    return out


def _switch_level(P: Any, thorough: bool) -> list[tuple[str, list[Any], list[list[Any]], list[Any]]]:
    """Small routines around one Switch: [plain op]? Switch Case{1..3} then 1..2 ops of {plain, End, Jump -> t} (quick: three cases only with one op), every case and jump
    target ranging over all ops behind the header (jump targets: over all ops from the switch on, the case list included).  In the thorough
    tier additionally three ops behind the header for the header shape `Case a, Case b, Case a` (non-adjacent cases sharing a branch)."""
    import itertools
    o, inf, pa = P.op, P.info, P.param
    out = []

    def emit(prog: list[tuple[str, int | None]], tag: str) -> None:
        for i, (k, t) in enumerate(prog):
            if k == "J":
                seen = set()
                j = i
                while prog[j][0] == "J":
                    if j in seen:
                        return
                    seen.add(j)
                    j = prog[j][1]  # type: ignore[assignment]
        ops = []
        for i, (k, t) in enumerate(prog):
            if k == "E":
                ops.append(o(i, "End", []))
            elif k == "J":
                ops.append(o(i, "Jump", [t]))
            elif k == "S":
                ops.append(o(i, "Switch", [pa("SsbOpParamConstant", "$S")]))
            elif k == "C":
                ops.append(o(i, "Case", [i, t]))
            else:
                ops.append(o(i, f"op{i}", []))
        out.append((tag, [inf("GENERIC")], [ops], [None]))
    for pre in (0, 1):
        for ncase in (1, 2, 3):
            for rest in range(1, (3 if thorough else 2) + 1):
                if not thorough and rest == 2 and ncase == 3:
                    continue
                n = pre + 1 + ncase + rest
                hdr = pre + 1 + ncase
                rest_choices: list[tuple[str, int | None]] = [("P", None), ("E", None)] + [("J", t) for t in range(pre, n)]
                for case_t in itertools.product(range(hdr, n), repeat=ncase):
                    if rest == 3 and not (ncase == 3 and case_t[0] == case_t[2] != case_t[1]):
                        continue
                    for r in itertools.product(rest_choices, repeat=rest):
                        if r[-1][0] not in "EJ":
                            continue
                        emit([("P", None)] * pre + [("S", None)] + [("C", t) for t in case_t] + list(r), f"switchlevel-{ncase}-{rest}")
    return out
