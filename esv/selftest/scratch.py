"""Scratch copies of the repository for checker self-tests (outside /repo and /verif, always removed)."""

from __future__ import annotations

import os
import shutil
import subprocess
import sys
import tempfile
from contextlib import contextmanager
from pathlib import Path
from typing import Iterator

REPO = Path(os.environ.get("ESV_REPO", "/repo"))


@contextmanager
def scratch_repo() -> Iterator[Path]:
    d = Path(tempfile.mkdtemp(prefix="esv-scratch-"))
    try:
        for sub in ("explorerscript", "docs"):
            shutil.copytree(REPO / sub, d / sub, ignore=shutil.ignore_patterns("__pycache__", "*.pyc"))
        yield d
    finally:
        shutil.rmtree(d, ignore_errors=True)


def replace_once(root: Path, rel: str, old: str, new: str) -> None:
    p = root / rel
    s = p.read_text(encoding="utf-8")
    if s.count(old) < 1:
        raise RuntimeError(f"{rel}: pattern not found: {old!r}")
    p.write_text(s.replace(old, new, 1), encoding="utf-8")


def run_check(root: Path, prop: str, tier: str = "quick") -> tuple[int, str]:
    env = dict(os.environ)
    env["ESV_REPO"] = str(root)
    env["ESV_EVIDENCE_DIR"] = str(root / "_evidence")
    env["PYTHONPATH"] = str(Path(__file__).resolve().parents[2])
    p = subprocess.run([sys.executable, "-m", "esv", "check", prop, "--tier", tier], capture_output=True, text=True,
                       env=env, cwd=str(Path(__file__).resolve().parents[2]))
    return p.returncode, p.stdout + p.stderr


if __name__ == "__main__":
    # usage: python -m esv.selftest.scratch PROP REL OLD NEW
    prop, rel, old, new = sys.argv[1:5]
    with scratch_repo() as r:
        replace_once(r, rel, old, new)
        code, out = run_check(r, prop)
        print(out)
        print("exit", code)
