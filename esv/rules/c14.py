"""C14 — source maps survive storage and offset rewriting (writer/reader table agreement)."""

from __future__ import annotations

import ast
from typing import Any

from ..engine import astq
from ..engine.loader import AnalysisError, Cls, Func, dotted, norm, walk_no_nested
from ..engine.report import Check, fkey

SM = "explorerscript.source_map"
ENTRY_CLASSES = ["SourceMapPositionMark", "SourceMapping", "MacroSourceMapping"]


def _serialize_attrs(f: Func) -> list[str | None] | None:
    e = astq.single_return_expr(f.node)
    if not isinstance(e, (ast.List, ast.Tuple)):
        return None
    return [astq.self_attr(x) for x in e.elts]


def _deserialize_binding(repo: Any, cls: Cls, f: Func) -> tuple[dict[str, ast.expr], str] | None:
    """ctor parameter -> expression (in terms of the data parameter) of deserialize()."""
    e = astq.single_return_expr(f.node)
    if not isinstance(e, ast.Call):
        return None
    callee = dotted(e.func)
    if callee not in (cls.name, "cls"):
        return None
    init = repo.find_method(cls, "__init__")
    if init is None:
        return None
    ps = astq.params_of(f.node)
    if not ps:
        return None
    bound = astq.bind_call_args(e, astq.params_of(init.node))
    return {k: astq.inline_locals(f.node, v) for k, v in bound.items()}, ps[0]


def _entry_class_rules(chk: Check, ctx: Any, cls: Cls) -> None:
    repo = ctx.repo
    ser = repo.find_method(cls, "serialize")
    des = repo.find_method(cls, "deserialize")
    if ser is None or des is None:
        chk.unknown("C14-R1", f"{cls.name}:methods", cls.mod, f"{cls.name} lacks serialize/deserialize")
        return
    s_attrs = _serialize_attrs(ser)
    bind = _deserialize_binding(repo, cls, des)
    if s_attrs is None or bind is None:
        chk.unknown("C14-R1", f"{cls.name}:shape", ser, "serialize()/deserialize() are not a list display / constructor call")
        return
    binding, data = bind
    p2a = astq.ctor_param_attrs(repo, cls)
    init_attrs = astq.all_init_attrs(repo, cls)
    used_idx: set[int] = set()
    for pname, expr in binding.items():
        subs = astq.subscripts_of(expr, data)
        idxs = {astq.const_index(s) for s in subs}
        key = f"{cls.name}.deserialize:{pname}"
        if len(idxs) != 1 or None in idxs:
            chk.unknown("C14-R1", key, des, f"argument for {pname} is not a single constant index of {data}: {norm(expr)}")
            continue
        i = idxs.pop()
        used_idx.add(i)
        attr = p2a.get(pname)
        if attr is None:
            chk.unknown("C14-R1", key, des, f"constructor parameter {pname} is not stored in an attribute")
            continue
        if not (0 <= i < len(s_attrs)):
            chk.violation("C14-R1", key, des, f"deserialize() reads index {i} but serialize() writes {len(s_attrs)} fields",
                          node=des.node)
            continue
        if s_attrs[i] != attr:
            chk.violation("C14-R1", key, des,
                          f"field order disagrees: serialize() writes self.{s_attrs[i]} at index {i}, deserialize() stores index {i} "
                          f"into self.{attr} (constructor parameter {pname})", facts={"serialize": s_attrs}, node=des.node)
        else:
            chk.hold("C14-R1", key, des, f"index {i} <-> self.{attr}")
        # R2: tuple-typed fields must be converted back from the JSON array
        ann = astq.annotation_text(cls, attr) or ""
        for k in repo.mro(cls):
            ann = ann or (astq.annotation_text(k, attr) or "")
        if ann.startswith("tuple[") or ann.startswith("Tuple["):
            conv = any(isinstance(n, ast.Call) and dotted(n.func) == "tuple" for n in ast.walk(expr))
            if not conv:
                init = repo.find_method(cls, "__init__")
                conv = init is not None and any(
                    isinstance(v, ast.Call) and dotted(v.func) == "tuple" or
                    (isinstance(v, ast.IfExp) and any(isinstance(n, ast.Call) and dotted(n.func) == "tuple" for n in ast.walk(v)))
                    for a, v, _s in astq.self_assigns(init.node) if a == attr)
            chk.decide("C14-R2", f"{cls.name}.{attr}", conv, des,
                       f"self.{attr} is declared {ann} but deserialize() stores the raw JSON array (a list): "
                       "the restored entry differs from the original", "tuple restored", node=des.node)
    missing = [a for a in sorted(init_attrs) if a not in s_attrs]
    chk.decide("C14-R1", f"{cls.name}:all-fields-serialised", not missing, ser,
               f"attributes set in __init__ but not serialised: {missing}", "every __init__ attribute is serialised",
               facts={"serialize": s_attrs})
    unread = [i for i in range(len(s_attrs)) if i not in used_idx]
    chk.decide("C14-R1", f"{cls.name}:all-fields-read", not unread, des,
               f"serialised indices never read back: {unread}", "every serialised index is read back")


def _elem_class_of(ann: str) -> str | None:
    for name in ENTRY_CLASSES:
        pass
    # last identifier-like token that names one of the entry classes
    best = None
    for name in ENTRY_CLASSES:
        if name in ann:
            # prefer the longest match (MacroSourceMapping contains SourceMapping)
            if best is None or len(name) > len(best):
                best = name
    return best


def _sourcemap_rules(chk: Check, ctx: Any) -> None:
    repo = ctx.repo
    cls = repo.cls(f"{SM}.SourceMap")
    ser = repo.find_method(cls, "serialize")
    des = repo.find_method(cls, "deserialize")
    init = repo.find_method(cls, "__init__")
    if not (ser and des and init):
        raise AnalysisError("SourceMap.serialize/deserialize/__init__ missing")
    p2a = astq.ctor_param_attrs(repo, cls)
    init_params = astq.params_of(init.node)

    # writer: json.dumps({...}) -> key path -> self attribute
    dump = None
    ser_methods = [ser]
    seen_m = {ser.node.name}
    for m_ in ser_methods:
        dump = dump or next((c for c in walk_no_nested(m_.node) if isinstance(c, ast.Call) and dotted(c.func) == "json.dumps"), None)
        for c in walk_no_nested(m_.node):
            if isinstance(c, ast.Call) and isinstance(c.func, ast.Attribute) and isinstance(c.func.value, ast.Name) \
                    and c.func.value.id == "self" and c.func.attr not in seen_m:
                hm = repo.find_method(cls, c.func.attr)
                if hm is not None and len(ser_methods) < 5:
                    seen_m.add(c.func.attr)
                    ser_methods.append(hm)
    _memo_rule(chk, ctx, cls, ser_methods)
    if dump is None or not dump.args or not isinstance(dump.args[0], ast.Dict):
        chk.unknown("C14-R1", "SourceMap.serialize:shape", ser, "serialize() is not json.dumps(<dict display>)")
        return
    writer: dict[tuple[str, ...], ast.expr] = {}

    def collect(d: ast.Dict, prefix: tuple[str, ...]) -> None:
        for k, v in zip(d.keys, d.values):
            if not (isinstance(k, ast.Constant) and isinstance(k.value, str)):
                raise AnalysisError("SourceMap.serialize: non-literal key")
            if isinstance(v, ast.Dict):
                collect(v, prefix + (k.value,))
            else:
                writer[prefix + (k.value,)] = v

    collect(dump.args[0], ())

    def attrs_in(e: ast.AST) -> set[str]:
        return {a for n in ast.walk(e) if (a := astq.self_attr(n))}

    # reader: SourceMap(<args>) with json_d[...] paths
    ret = astq.single_return_expr(des.node)
    loads_var = None
    for n in walk_no_nested(des.node):
        if isinstance(n, ast.Assign) and isinstance(n.value, ast.Call) and dotted(n.value.func) == "json.loads" \
                and isinstance(n.targets[0], ast.Name):
            loads_var = n.targets[0].id
    if not isinstance(ret, ast.Call) or loads_var is None or dotted(ret.func) not in ("SourceMap", "cls"):
        chk.unknown("C14-R1", "SourceMap.deserialize:shape", des, "deserialize() is not SourceMap(<tables read from json.loads(...)>)")
        return
    binding = {k: astq.inline_locals(des.node, v, keep=(loads_var,)) for k, v in astq.bind_call_args(ret, init_params).items()}
    reader: dict[tuple[str, ...], tuple[str, ast.expr]] = {}
    for pname, expr in binding.items():
        paths = set(astq.find_key_paths(expr, loads_var))
        if len(paths) != 1:
            chk.unknown("C14-R1", f"SourceMap.deserialize:{pname}", des, f"argument {pname} reads {len(paths)} JSON paths")
            continue
        reader[paths.pop()] = (pname, expr)

    chk.decide("C14-R1", "SourceMap:keys", set(writer) == set(reader), des,
               f"JSON keys written {sorted(writer)} differ from keys read {sorted(reader)}", "keys written = keys read",
               facts={"written": sorted(map(list, writer)), "read": sorted(map(list, reader))})
    for path in sorted(set(writer) & set(reader)):
        wattrs = attrs_in(writer[path])
        pname, rexpr = reader[path]
        rattr = p2a.get(pname)
        key = f"SourceMap:{'/'.join(path)}"
        if not wattrs:
            # written from a local list: follow `for y in self.<attr>: [if ...:] local.append(y)`
            for nm in {n.id for n in ast.walk(writer[path]) if isinstance(n, ast.Name)}:
                for lp in walk_no_nested(ser.node):
                    if isinstance(lp, ast.For) and (a0 := astq.self_attr(lp.iter)):
                        apps = [c for c in ast.walk(lp) if isinstance(c, ast.Call) and isinstance(c.func, ast.Attribute) and c.func.attr == "append"
                                and isinstance(c.func.value, ast.Name) and c.func.value.id == nm]
                        if not apps:
                            continue
                        conditional = not any(isinstance(st, ast.Expr) and st.value is apps[0] for st in lp.body)
                        if conditional:
                            chk.violation("C14-R1", key + ":all-elements", ser,
                                          f"serialize() writes key {'/'.join(path)} from `{nm}`, a filtered copy of self.{a0} (`{norm(lp)[:80]}`): entries that are "
                                          "dropped (e.g. equal marks of a macro that is called twice) are missing after deserialize(), so the restored map differs",
                                          node=lp)
                        wattrs = {a0}
        for gen in (writer[path].generators if isinstance(writer[path], (ast.ListComp, ast.DictComp)) else []):
            if gen.ifs:
                chk.violation("C14-R1", key + ":all-elements", ser,
                              f"serialize() filters the table under {'/'.join(path)} (`if {norm(gen.ifs[0])}`): the restored map lacks the filtered entries", node=gen.ifs[0])
        if len(wattrs) != 1 or rattr is None:
            chk.unknown("C14-R1", key, ser, f"cannot relate key {path} to one attribute (writer {wattrs}, reader {rattr})")
            continue
        wattr = wattrs.pop()
        chk.decide("C14-R1", key, wattr == rattr, des,
                   f"key {'/'.join(path)} is written from self.{wattr} but read back into self.{rattr}",
                   f"self.{wattr} round-trips under key {'/'.join(path)}")
        # element (de)serialisers agree
        ann = astq.annotation_text(cls, wattr.lstrip("_")) or astq.annotation_text(cls, wattr) or ""
        want = _elem_class_of(ann)
        got = {dotted(n.func).split(".")[0] for n in ast.walk(rexpr)  # type: ignore[union-attr]
               if isinstance(n, ast.Call) and isinstance(n.func, ast.Attribute) and n.func.attr == "deserialize" and dotted(n.func)}
        if want:
            chk.decide("C14-R1", key + ":element-class", got == {want}, des,
                       f"elements under {'/'.join(path)} are declared {want} but restored with {sorted(got)}.deserialize",
                       f"elements restored with {want}.deserialize")
        # int keys of dict tables
        if ann.startswith("dict[int"):
            ok = None
            if isinstance(rexpr, ast.DictComp):
                ok = isinstance(rexpr.key, ast.Call) and dotted(rexpr.key.func) == "int"
            chk.decide("C14-R1", key + ":int-keys", ok, des,
                       f"table {'/'.join(path)} has int keys but the reader does not convert the JSON string keys with int()",
                       "JSON string keys converted with int()")
        # macro position marks: [y0, y1, mark] <-> (y0, y1, mark)
        if isinstance(writer[path], ast.ListComp) and isinstance(rexpr, ast.ListComp):
            w_el, r_el = writer[path].elt, rexpr.elt
            if isinstance(w_el, (ast.List, ast.Tuple)) and isinstance(r_el, (ast.List, ast.Tuple)):
                wt = writer[path].generators[0].target
                rt = rexpr.generators[0].target
                if isinstance(wt, ast.Name) and isinstance(rt, ast.Name):
                    w_idx = [astq.const_index(s[0]) if (s := astq.subscripts_of(x, wt.id)) else None for x in w_el.elts]
                    r_idx = [astq.const_index(s[0]) if (s := astq.subscripts_of(x, rt.id)) else None for x in r_el.elts]
                    chk.decide("C14-R1", key + ":tuple-order", w_idx == r_idx and w_idx == list(range(len(w_idx))), des,
                               f"element order disagrees: written {w_idx}, read {r_idx}", "tuple element order agrees")

    # R3: equality coverage
    eq = repo.find_method(cls, "__eq__")
    if eq is None:
        chk.violation("C14-R3", "SourceMap.__eq__", cls.mod, "SourceMap defines no __eq__: a deserialised map never compares equal")
    else:
        compared = set()
        for n in walk_no_nested(eq.node):
            if isinstance(n, ast.Compare) and len(n.ops) == 1 and isinstance(n.ops[0], ast.Eq):
                a = astq.self_attr(n.left)
                if a:
                    compared.add(a)
        chk.floor("C14-R3", "attributes compared by SourceMap.__eq__", len(compared), 1)
        for a in sorted(compared):
            ann = astq.annotation_text(cls, a.lstrip("_")) or astq.annotation_text(cls, a) or ""
            ename = _elem_class_of(ann)
            if not ename:
                chk.unknown("C14-R3", f"SourceMap.__eq__:{a}", eq, f"element class of self.{a} unknown (annotation {ann!r})")
                continue
            ecls = repo.cls(f"{SM}.{ename}")
            has_eq = repo.find_method(ecls, "__eq__") is not None
            chk.decide("C14-R3", f"SourceMap.__eq__:{a}", has_eq, eq,
                       f"SourceMap.__eq__ compares self.{a} whose elements ({ename}) define no __eq__: equality falls back to "
                       "identity, so SourceMap.deserialize(m.serialize()) != m for every non-empty map",
                       f"{ename} defines __eq__")


def _memo_rule(chk: Check, ctx: Any, cls: Cls, ser_methods: list[Func]) -> None:
    """R5: a memo of the serialised text must be dropped on every path after the tables were changed."""
    from ..engine.cfg import build_cfg
    repo = ctx.repo
    tables = set(astq.ctor_param_attrs(repo, cls).values())
    written: set[str] = set()
    read: set[str] = set()
    for m in ser_methods:
        for n in walk_no_nested(m.node):
            a = astq.self_attr(n)
            if a and a not in tables:
                if isinstance(n.ctx, ast.Store):  # type: ignore[attr-defined]
                    written.add(a)
                else:
                    read.add(a)
            if isinstance(n, ast.Subscript) and isinstance(n.ctx, ast.Store) and astq.self_attr(n.value) and astq.self_attr(n.value) not in tables:
                written.add(astq.self_attr(n.value))  # type: ignore[arg-type]
    memos = {a for a in written & read}
    if not memos:
        chk.hold("C14-R5", "SourceMap.serialize:no-memo", ser_methods[0], "serialize() keeps no state between calls")
        return

    def is_clear(n: object, memo: str) -> bool:
        if not isinstance(n, ast.stmt):
            return False
        for x in ast.walk(n):
            if isinstance(x, ast.Call) and isinstance(x.func, ast.Attribute) and x.func.attr in ("clear", "pop", "popitem") \
                    and astq.self_attr(x.func.value) == memo:
                return True
            if isinstance(x, (ast.Assign, ast.AnnAssign)):
                tg = x.targets if isinstance(x, ast.Assign) else [x.target]
                if any(astq.self_attr(t) == memo for t in tg):
                    return True
            if isinstance(x, ast.Delete) and any(astq.self_attr(t) == memo or (isinstance(t, ast.Subscript) and astq.self_attr(t.value) == memo)
                                                  for t in x.targets):
                return True
        return False

    def mutates_tables(n: object, loopvars: set[str]) -> bool:
        if not isinstance(n, ast.stmt) or isinstance(n, (ast.If, ast.For, ast.While, ast.With, ast.Try)):
            return False
        for x in ast.walk(n):
            if isinstance(x, (ast.Assign, ast.AugAssign, ast.AnnAssign)):
                tg = x.targets if isinstance(x, ast.Assign) else [x.target]
                for t in tg:
                    for y in ast.walk(t):
                        if astq.self_attr(y) in tables:
                            return True
                        if isinstance(y, ast.Attribute) and isinstance(y.value, ast.Name) and y.value.id in loopvars:
                            return True
            if isinstance(x, ast.Call) and isinstance(x.func, ast.Attribute) and x.func.attr in (
                    "append", "pop", "clear", "update", "remove", "insert", "extend", "setdefault", "popitem") \
                    and any(astq.self_attr(y) in tables for y in ast.walk(x.func.value)):
                return True
        return False

    for mname, fn in cls.methods.items():
        if mname == "__init__" or any(mname == m.node.name for m in ser_methods):
            continue
        f = Func(cls.mod, cls, fn)
        loopvars = {n.target.id for n in walk_no_nested(fn) if isinstance(n, ast.For) and isinstance(n.target, ast.Name)
                    and any(astq.self_attr(y) in tables for y in ast.walk(n.iter))}
        cfg = build_cfg(fn)
        muts = [n for n in cfg.nodes if mutates_tables(n, loopvars)]
        if not muts:
            continue
        for memo in sorted(memos):
            bad = [m for m in muts if not is_clear(m, memo) and cfg.path_avoiding(m, cfg.exit, lambda n, memo=memo: is_clear(n, memo))]
            key = f"SourceMap.{mname}:memo:{memo}"
            if bad:
                chk.violation("C14-R5", key, f,
                              f"serialize() memoises its result in self.{memo}, but {mname}() can return after changing the tables "
                              f"(`{norm(bad[0])}`) without dropping it: a later serialize() returns the text of the old state", node=bad[0])
            else:
                chk.hold("C14-R5", key, f, f"self.{memo} dropped on every path after a table change")


def _rewrite_rules(chk: Check, ctx: Any) -> None:
    repo = ctx.repo
    f = repo.func(f"{SM}:SourceMap.rewrite_offsets")
    fn = f.node
    ps = astq.params_of(fn)
    if not ps:
        raise AnalysisError("rewrite_offsets has no mapping parameter")
    nm = ps[0]
    # (a) both opcode tables are rebuilt through the mapping with the membership filter only
    tables = [a for a in astq.ctor_param_attrs(repo, repo.cls(f"{SM}.SourceMap")).values() if "mapping" in a]
    rebuilt: dict[str, ast.DictComp] = {}
    for attr, val, st in astq.self_assigns(fn):
        if isinstance(val, ast.DictComp):
            rebuilt[attr] = val
    chk.floor("C14-R4", "opcode tables of SourceMap", len(tables), 2)
    for attr in tables:
        key = f"rewrite_offsets:{attr}"
        dc = rebuilt.get(attr)
        if dc is None:
            muts = [s for a, _v, s in astq.self_assigns(fn) if a == attr]
            if not muts and not any(astq.self_attr(n) == attr for n in ast.walk(fn)):
                chk.violation("C14-R4", key, f, f"rewrite_offsets() never rewrites self.{attr}: its entries keep their old offsets")
            else:
                chk.unknown("C14-R4", key, f, f"self.{attr} is not rebuilt by a dict comprehension")
            continue
        gen = dc.generators[0]
        src_attr = {a for n in ast.walk(gen.iter) if (a := astq.self_attr(n))}
        tgt = gen.target
        if not (isinstance(tgt, ast.Tuple) and len(tgt.elts) == 2 and all(isinstance(x, ast.Name) for x in tgt.elts)
                and isinstance(gen.iter, ast.Call) and isinstance(gen.iter.func, ast.Attribute) and gen.iter.func.attr == "items"):
            chk.unknown("C14-R4", key, f, "comprehension does not iterate .items() with a (key, value) target", node=dc)
            continue
        kname, vname = tgt.elts[0].id, tgt.elts[1].id  # type: ignore[attr-defined]
        problems = []
        if src_attr != {attr}:
            problems.append(f"rebuilt from {sorted(src_attr)} instead of self.{attr}")
        if not (isinstance(dc.key, ast.Subscript) and isinstance(dc.key.value, ast.Name) and dc.key.value.id == nm
                and isinstance(dc.key.slice, ast.Name) and dc.key.slice.id == kname):
            problems.append(f"new key is {norm(dc.key)}, not {nm}[{kname}]")
        if not (isinstance(dc.value, ast.Name) and dc.value.id == vname):
            problems.append(f"value is {norm(dc.value)}, not the original entry")
        conds = gen.ifs
        ok_filter = len(conds) == 1 and isinstance(conds[0], ast.Compare) and len(conds[0].ops) == 1 \
            and isinstance(conds[0].ops[0], ast.In) and isinstance(conds[0].left, ast.Name) and conds[0].left.id == kname \
            and (dotted(conds[0].comparators[0]) == nm or norm(conds[0].comparators[0]) == f"{nm}.keys()")
        if not ok_filter:
            problems.append(f"filter is {[norm(c) for c in conds]}, not exactly `{kname} in {nm}` (entries are dropped or kept wrongly)")
        chk.decide("C14-R4", key, not problems, f, "; ".join(problems), "rebuilt as {mapping[k]: v for k, v in table.items() if k in mapping}",
                   node=dc)

    # (b) return addresses
    loop = None
    for n in walk_no_nested(fn):
        if isinstance(n, ast.For) and any(astq.self_attr(x) for x in ast.walk(n.iter)):
            loop = n
    if loop is None or not isinstance(loop.target, ast.Name):
        chk.unknown("C14-R4", "rewrite_offsets:return_addr", f, "no loop over the macro mappings found")
        return
    mvar = loop.target.id
    if _range_idiom(chk, f, loop, mvar, nm):
        return
    whiles = [n for n in ast.walk(loop) if isinstance(n, ast.While)]
    final = [n for n in ast.walk(loop) if isinstance(n, ast.Assign) and any(
        isinstance(t, ast.Attribute) and isinstance(t.value, ast.Name) and t.value.id == mvar and t.attr == "return_addr" for t in n.targets)]
    if len(whiles) != 1 or len(final) != 1:
        chk.unknown("C14-R4", "rewrite_offsets:return_addr", f, "return-address rewrite does not have the search-loop shape")
        return
    w = whiles[0]
    # loop test: addr not in new_mapping
    t = w.test
    ok_test = isinstance(t, ast.Compare) and len(t.ops) == 1 and isinstance(t.ops[0], ast.NotIn) and isinstance(t.left, ast.Name) \
        and dotted(t.comparators[0]) == nm
    if not ok_test:
        chk.unknown("C14-R4", "rewrite_offsets:return_addr:test", f, f"search loop test {norm(t)} not understood", node=w)
        return
    avar = t.left.id  # type: ignore[union-attr]
    # initial value is m.return_addr
    init_ok = any(isinstance(n, (ast.Assign, ast.AnnAssign)) and
                  (isinstance(getattr(n, "target", None), ast.Name) and n.target.id == avar or  # type: ignore[union-attr]
                   any(isinstance(tt, ast.Name) and tt.id == avar for tt in getattr(n, "targets", []))) and
                  n.value is not None and norm(n.value) == f"{mvar}.return_addr" for n in ast.walk(loop))
    chk.decide("C14-R4", "rewrite_offsets:return_addr:start", init_ok or None, f,
               "search does not start at the entry's own return address", "search starts at m.return_addr", node=loop)
    # step
    steps = [n for n in ast.walk(w) if isinstance(n, ast.AugAssign) and isinstance(n.target, ast.Name) and n.target.id == avar]
    steps2 = [n for n in ast.walk(w) if isinstance(n, ast.Assign) and isinstance(n.targets[0], ast.Name) and n.targets[0].id == avar
              and isinstance(n.value, ast.BinOp)]
    step_ok: bool | None = None
    if len(steps) == 1 and not steps2:
        s = steps[0]
        step_ok = isinstance(s.op, ast.Add) and isinstance(s.value, ast.Constant) and s.value.value == 1
        stepnode: ast.AST = s
    elif len(steps2) == 1 and not steps:
        s2 = steps2[0]
        b = s2.value
        step_ok = isinstance(b, ast.BinOp) and isinstance(b.op, ast.Add) and norm(b.left) == avar and isinstance(b.right, ast.Constant) \
            and b.right.value == 1
        stepnode = s2
    else:
        stepnode = w
    chk.decide("C14-R4", "rewrite_offsets:return_addr:step", step_ok, f,
               f"search for the next surviving op does not advance by +1 ({norm(stepnode)}): a dropped return address is not moved "
               "to the next surviving op", "forward search in steps of 1", node=stepnode)
    # bound
    maxvars = {n.targets[0].id for n in walk_no_nested(fn) if isinstance(n, ast.Assign) and isinstance(n.targets[0], ast.Name)
               and isinstance(n.value, ast.Call) and dotted(n.value.func) == "max"
               and norm(n.value.args[0]) in (nm, f"{nm}.keys()")}
    bounds = [n for n in ast.walk(w) if isinstance(n, ast.If) and isinstance(n.test, ast.Compare) and isinstance(n.test.left, ast.Name)
              and n.test.left.id == avar]
    bound_ok: bool | None = None
    if len(bounds) == 1:
        c = bounds[0].test
        rhs = c.comparators[0]  # type: ignore[union-attr]
        op = c.ops[0]  # type: ignore[union-attr]
        is_max = isinstance(rhs, ast.Name) and rhs.id in maxvars or (
            isinstance(rhs, ast.Call) and dotted(rhs.func) == "max" and norm(rhs.args[0]) in (nm, f"{nm}.keys()"))
        if is_max:
            bound_ok = isinstance(op, ast.Gt)
            if isinstance(op, (ast.GtE, ast.Eq)):
                bound_ok = False
        elif isinstance(rhs, ast.BinOp) and isinstance(rhs.op, ast.Add) and isinstance(rhs.right, ast.Constant) and rhs.right.value == 1:
            bound_ok = isinstance(op, (ast.GtE, ast.Eq)) or None
    chk.decide("C14-R4", "rewrite_offsets:return_addr:bound", bound_ok, f,
               "forward search gives up at (not after) the largest old offset: a return address whose next surviving op is the "
               "last op of the mapping is left unmapped", "search bounded by `addr > max(old offsets)`",
               node=bounds[0] if bounds else w)
    # final assignment
    fa = final[0].value
    fin_ok = isinstance(fa, ast.Subscript) and isinstance(fa.value, ast.Name) and fa.value.id == nm and norm(fa.slice) == avar
    chk.decide("C14-R4", "rewrite_offsets:return_addr:assign", fin_ok, f,
               f"return address is set to {norm(fa)} instead of {nm}[{avar}]", "return address mapped through the new mapping",
               node=final[0])
    # nothing else deleted
    table_attrs = set(astq.ctor_param_attrs(repo, repo.cls(f"{SM}.SourceMap")).values())
    dels = [n for n in walk_no_nested(fn) if (isinstance(n, ast.Delete) and any(
        astq.self_attr(x) in table_attrs for t in n.targets for x in ast.walk(t))) or (
        isinstance(n, ast.Call) and isinstance(n.func, ast.Attribute) and n.func.attr in ("pop", "clear", "popitem", "remove")
        and any(astq.self_attr(x) in table_attrs for x in ast.walk(n.func.value)))]
    chk.decide("C14-R4", "rewrite_offsets:no-other-deletion", not dels, f,
               f"rewrite_offsets() deletes entries beyond the mapping filter: {[norm(d) for d in dels]}", "no other deletion")


def _range_idiom(chk: Check, f: Func, loop: ast.For, mvar: str, nm: str) -> bool:
    """for addr in range(m.return_addr, STOP): if addr in mapping: m.return_addr = mapping[addr]; break"""
    fn = f.node
    inner = [n for n in ast.walk(loop) if isinstance(n, ast.For) and n is not loop and isinstance(n.iter, ast.Call)
             and dotted(n.iter.func) == "range" and isinstance(n.target, ast.Name)]
    if len(inner) != 1:
        return False
    r = inner[0]
    avar = r.target.id  # type: ignore[union-attr]
    args = r.iter.args  # type: ignore[union-attr]
    if len(args) != 2 or norm(args[0]) != f"{mvar}.return_addr":
        chk.unknown("C14-R4", "rewrite_offsets:return_addr:start", f, f"range search {norm(r.iter)} does not start at the return address", node=r)
        return True
    chk.hold("C14-R4", "rewrite_offsets:return_addr:start", f, "search starts at m.return_addr", node=r)
    chk.hold("C14-R4", "rewrite_offsets:return_addr:step", f, "range() advances by 1", node=r)
    maxvars = {n.targets[0].id for n in walk_no_nested(fn) if isinstance(n, ast.Assign) and isinstance(n.targets[0], ast.Name)
               and isinstance(n.value, ast.Call) and dotted(n.value.func) == "max" and norm(n.value.args[0]) in (nm, f"{nm}.keys()")}
    stop = args[1]

    def is_max(e: ast.AST) -> bool:
        return (isinstance(e, ast.Name) and e.id in maxvars) or (
            isinstance(e, ast.Call) and dotted(e.func) == "max" and norm(e.args[0]) in (nm, f"{nm}.keys()"))
    bound_ok: bool | None = None
    if is_max(stop):
        bound_ok = False  # range excludes its stop value
    elif isinstance(stop, ast.BinOp) and isinstance(stop.op, ast.Add) and is_max(stop.left) and isinstance(stop.right, ast.Constant):
        bound_ok = stop.right.value >= 1
    chk.decide("C14-R4", "rewrite_offsets:return_addr:bound", bound_ok, f,
               f"forward search `{norm(r.iter)}` stops before the largest old offset: a return address whose next surviving op is the "
               "last op of the mapping is left unmapped", "search includes max(old offsets)", node=r)
    assigns = [n for n in ast.walk(r) if isinstance(n, ast.Assign) and any(
        isinstance(t, ast.Attribute) and isinstance(t.value, ast.Name) and t.value.id == mvar and t.attr == "return_addr" for t in n.targets)]
    if len(assigns) != 1:
        chk.unknown("C14-R4", "rewrite_offsets:return_addr:assign", f, "assignment of the new return address not found", node=r)
        return True
    fa = assigns[0].value
    fin_ok = isinstance(fa, ast.Subscript) and isinstance(fa.value, ast.Name) and fa.value.id == nm and norm(fa.slice) == avar
    chk.decide("C14-R4", "rewrite_offsets:return_addr:assign", fin_ok, f,
               f"return address is set to {norm(fa)} instead of {nm}[{avar}]", "return address mapped through the new mapping", node=assigns[0])
    return True


def run(chk: Check, ctx: Any) -> None:
    chk.explanation = (
        "Decides the structural half of C14 for all source maps: writer/reader agreement of field order, JSON keys, element "
        "classes, int-key and tuple restoration (R1, R2), that SourceMap.__eq__ compares containers whose element classes "
        "define __eq__ (R3), and that rewrite_offsets rebuilds both opcode tables through the mapping with the membership "
        "filter only and moves return addresses by a forward +1 search bounded after the largest old offset (R4). "
        "Not decided: arithmetic on concrete maps beyond these shapes."
    )
    chk.rule("C14-R6", "serialize/deserialize/rewrite_offsets interpreted on the maps of an interpreted macro project, a direct program, a decompilation and the empty map: the map read back is equal with identical entries and text; under identity, shifting, renumbering, reversing, dropping and half-swapping mappings every entry and return address follows its op")
    chk.rule("C14-R1", "serialize() field order = deserialize() index = constructor parameter -> attribute; JSON keys written = keys read; "
                       "int keys restored; element classes agree")
    chk.rule("C14-R2", "a field declared tuple[...] that is read from a JSON array is converted back to a tuple")
    chk.rule("C14-R3", "SourceMap.__eq__ compares only containers whose element classes define __eq__")
    chk.rule("C14-R5", "serialize() depends only on the current tables: a memo kept by serialize() is dropped on every path of every "
                       "method after it changed a table")
    chk.rule("C14-R4", "rewrite_offsets: tables rebuilt as {mapping[k]: v ... if k in mapping}; return address = mapping[first surviving offset >= old], "
                       "searched forward by 1 and given up only after max(old offsets)")
    repo = ctx.repo
    m = repo.mod(SM)
    n = 0
    for cname in ENTRY_CLASSES:
        if cname not in m.classes:
            raise AnalysisError(f"anchor class {SM}.{cname} not found")
        _entry_class_rules(chk, ctx, m.classes[cname])
        n += 1
    chk.floor("C14-R1", "entry classes", n, 3)
    _sourcemap_rules(chk, ctx)
    _rewrite_rules(chk, ctx)
    from .smap_roundtrip import smap_rule
    smap_rule(chk, ctx, "C14-R6")
    _optional_int_truthiness(chk, ctx, "C14-R7")




_OPT_INT = ("int | None", "None | int", "Optional[int]", "typing.Optional[int]")
_SELF_TEST = """
class E:
    return_addr: int | None
def f(m: E, n: int | None):
    if m.return_addr:
        pass
    if n is not None and not n:
        pass
    x = 1 if m.return_addr is None else 2
"""


def _truthiness_sites(trees: list[tuple[Any, ast.AST]]) -> tuple[list[tuple[Any, ast.AST, str]], int]:
    names: set[str] = set()
    for _where, t in trees:
        for n in ast.walk(t):
            if isinstance(n, ast.AnnAssign) and norm(n.annotation) in _OPT_INT:
                names.add(norm(n.target).split(".")[-1])
            if isinstance(n, (ast.FunctionDef, ast.AsyncFunctionDef)):
                for a in n.args.posonlyargs + n.args.args + n.args.kwonlyargs:
                    if a.annotation is not None and norm(a.annotation) in _OPT_INT:
                        names.add(a.arg)
    sites = []
    for where, t in trees:
        for n in ast.walk(t):
            tests: list[ast.AST] = []
            if isinstance(n, (ast.If, ast.While, ast.IfExp, ast.Assert)):
                tests.append(n.test)
            elif isinstance(n, ast.BoolOp):
                tests.extend(n.values)
            elif isinstance(n, ast.UnaryOp) and isinstance(n.op, ast.Not):
                tests.append(n.operand)
            elif isinstance(n, ast.comprehension):
                tests.extend(n.ifs)
            for x in tests:
                if isinstance(x, (ast.Name, ast.Attribute)) and norm(x).split(".")[-1] in names:
                    sites.append((where, x, norm(x)))
    return sites, len(names)


def _optional_int_truthiness(chk: Check, ctx: Any, rule: str) -> None:
    """An offset or number that may be absent (`int | None`) is tested with `is None`: a truth test also skips the value 0."""
    chk.rule(rule, "a value annotated `int | None` (a return address, an op number) is never tested by truthiness: 0 is a value, only None means absent")
    repo = ctx.repo
    st, _n = _truthiness_sites([(None, ast.parse(_SELF_TEST))])
    if len(st) != 2:
        raise AnalysisError(f"{rule}: detector self-test found {len(st)} sites in its example, expected 2")
    trees = [(m, m.tree) for m in repo.modules.values() if not m.name.startswith("explorerscript.antlr")]
    sites, n_names = _truthiness_sites(trees)
    seen = set()
    for m, x, text in sites:
        key = f"{m.name}:{text}:{getattr(x, 'lineno', 0)}"
        if (m.name, text) in seen:
            continue
        seen.add((m.name, text))
        chk.violation(rule, f"{m.name}:{text}", (m.path_rel if hasattr(m, "path_rel") else m.name.replace(".", "/") + ".py", getattr(x, "lineno", 0)),
                      f"`{text}` is `int | None` and is tested by truthiness: the value 0 is treated like None (for a source map: the op with offset 0)")
    chk.hold(rule, "scan", repo.func("explorerscript.source_map:SourceMap.rewrite_offsets"), f"{n_names} names annotated int | None, none tested by truthiness", facts={"names": n_names})
    chk.floor(rule, "names annotated int | None", n_names, 3)
