"""Compile -> decompile -> compile over the skeleton families, every stage interpreted (engine.pipeline).

One pass produces, per program, the facts four properties ask about:
  C06  convert() returns (text, source map) and never lets an exception escape; fallback text reproduces the ops one for one
  C02  the decompiled text compiles, and its compiled flow graph is bisimilar to the input's (same routine table)
  C13  flat programs decompile without `jump`, not as fallback, each operation printed once
  C09  every source-map entry names the line/column where the statement of that op starts; recompiling puts the op on the same line
Programs are schematic (op names and condition variables are symbols; the bisimulation covers every outcome of every test); the set
of shapes is an exhaustive enumeration within the bounds of spec/skeletons.py.
"""

from __future__ import annotations

import hashlib
import json
import os
import re
import time
from pathlib import Path
from typing import Any

from ..engine.absint import AObj, PyExc, Unsupported
from ..engine.loader import AnalysisError
from ..engine.report import Check

SPECIAL = "explorerscript.ssb_converting.ssb_special_ops"
MARK = "//?: is-ssb-script"


def _programs(thorough: bool) -> list[tuple[str, str, list[list[Any]]]]:
    from ..spec.skeletons import all_skeletons, gen_flat, gen_nested, gen_extra, gen_random
    out: list[tuple[str, str, list[list[Any]]]] = []
    for fam, prog in gen_random(thorough):
        out.append(("general", fam, prog))
    for i, (fam, prog) in enumerate(all_skeletons(False)):
        if thorough or i % 3 == 0:
            out.append(("general", fam, prog))
    for i, (fam, prog) in enumerate(gen_nested(thorough)):
        out.append(("general", fam, prog))
    for i, (fam, prog) in enumerate(gen_extra(thorough)):
        out.append(("general", fam, prog))
    for i, (fam, prog) in enumerate(gen_flat(thorough)):
        if thorough or i % 2 == 0 or fam.count("+") == 0 or "caseless-" in fam or fam.startswith("flat:alias"):
            out.append(("flat", fam, prog))
    return out


def _ops(I: Any, c: AObj) -> list[list[tuple[Any, ...]]]:
    """Op lists with jump targets as (routine, position) so that they can be compared across compilations."""
    routines = c.attrs["routine_ops"]
    where: dict[int, tuple[int, int]] = {}
    for ri, r in enumerate(routines):
        for oi, op in enumerate(r):
            where[op.attrs["offset"]] = (ri, oi)
    return routines, where  # type: ignore[return-value]


def _worker(args: tuple[str, bool, int, int]) -> list[dict[str, Any]]:
    root, thorough, k, n = args
    from ..engine.loader import Repo
    from ..engine.consts import Folder
    from ..engine.pipeline import Pipeline
    from ..engine.sta import compiled_graph, bisimilar, show
    repo = Repo(Path(root))
    fold = Folder(repo)
    P = Pipeline(repo, fold, max_steps=3_000_000)
    I = P.I
    branch = set(fold.const(f"{SPECIAL}:OPS_BRANCH")) | {"Case", "CaseMenu", "CaseMenu2", "CaseValue", "CaseVariable", "CaseScenario", "Call"}
    ends = set(fold.const(f"{SPECIAL}:OPS_THAT_END_CONTROL_FLOW")) - {fold.const(f"{SPECIAL}:OP_JUMP")}
    jumpish = branch | {"Jump"}
    out: list[dict[str, Any]] = []
    from .ssbs_roundtrip import _hand_made, _more_hand_made, _op_level, _switch_level
    progs: list[tuple[str, str, Any]] = list(_programs(thorough))
    for hname, infos_h, ops_h, names_h in _hand_made(P) + _more_hand_made(P) + _op_level(P, thorough) + _switch_level(P, thorough):
        progs.append(("handmade", "handmade:" + hname, (infos_h, ops_h, names_h)))
    for idx, (group, fam, prog) in enumerate(progs):
        if idx % n != k:
            continue
        if group == "handmade":
            infos_h, ops_h, names_h = prog
            def pv(p: Any) -> str:
                if isinstance(p, AObj):
                    return p.cls.name.replace("SsbOpParam", "") + repr([v for k, v in sorted(p.attrs.items()) if k != "indent"])
                return repr(p)
            text = "routine set " + fam.split(":", 1)[1] + ": " + " | ".join(
                " ".join(f"{op.attrs['offset']}:{op.attrs['op_code'].attrs['name']}({', '.join(pv(p) for p in op.attrs['params'])})" for op in r) for r in ops_h)
            rec: dict[str, Any] = {"group": group, "family": fam, "program": text}
            out.append(rec)

            class _C:
                attrs = {"routine_infos": infos_h, "routine_ops": ops_h, "named_coroutines": names_h}
            c: Any = _C
        else:
            text = " ".join(f"def {i} {{ {show(r)} }}" for i, r in enumerate(prog))
            rec = {"group": group, "family": fam, "program": text}
            out.append(rec)
            try:
                c = P.compile_exps(text)
            except PyExc as e:
                rec["stage"] = "not-compiled"  # meaningless or rejected programs are C01/C10's business
                continue
            except (Unsupported, AnalysisError) as e:
                rec["stage"] = "unknown"
                rec["why"] = f"compile: {e}"
                continue
        ops1 = c.attrs["routine_ops"]
        # premise of C02: no cycle that consists of Jump ops only
        tgt = {op.attrs["offset"]: op.attrs["params"][-1] for r in ops1 for op in r if op.attrs["op_code"].attrs["name"] == "Jump" and op.attrs["params"]}
        for start in tgt:
            seen_j = set()
            x = start
            while x in tgt and x not in seen_j:
                seen_j.add(x)
                x = tgt[x]
            if x in seen_j:
                rec["jump_only_cycle"] = True
        try:
            I.set_order_policy, I.set_order_choices = 0, 0
            dtext, smap = P.decompile_exps(c.attrs["routine_infos"], ops1, c.attrs["named_coroutines"])
            if I.set_order_choices:
                # the decompiler iterated a set of graph elements in an order-visible way: the library hashes those by address, so the
                # order is not determined by the program.  Evaluate the other order as well; if the text differs, nothing is decided here.
                rec["set_order_choices"] = I.set_order_choices
                try:
                    I.set_order_policy = 1
                    dtext2, _sm2 = P.decompile_exps(c.attrs["routine_infos"], ops1, c.attrs["named_coroutines"])
                except PyExc as e2:
                    dtext2 = f"<raises {e2.cls_name}>"
                finally:
                    I.set_order_policy = 0
                if dtext2 != dtext:
                    rec["stage"] = "order-dependent"
                    rec["text"] = dtext
                    rec["text_other_order"] = dtext2
                    continue
        except PyExc as e:
            rec["stage"] = "decompile-raised"
            rec["why"] = f"{e.cls_name}: {e.msg} at {e.where}"
            continue
        except (Unsupported, AnalysisError) as e:
            rec["stage"] = "unknown"
            rec["why"] = f"decompile: {e}"
            rec["budget"] = "budget" in str(e) or "call depth" in str(e)
            continue
        rec["text"] = dtext
        fallback = dtext.lstrip().startswith(MARK)
        rec["fallback"] = fallback
        body_lines = [ln.strip() for ln in dtext.split("\n") if not ln.strip().startswith("//")]
        rec["jumps"] = sum(1 for ln in body_lines if re.match(r"^jump\s+@", ln))
        # every operation printed exactly once
        names = sorted({op.attrs["op_code"].attrs["name"] for r in ops1 for op in r if re.match(r"^(op\d+|hm_\w+)$", op.attrs["op_code"].attrs["name"])})
        rec["op_prints"] = {nm: sum(len(re.findall(rf"(?<![\w$]){nm}\s*[(<]", ln)) for ln in body_lines) for nm in names}
        # source map of the decompilation
        try:
            maps = smap.attrs.get("_mappings", {}) if isinstance(smap, AObj) else {}
            lines = dtext.split("\n")
            sm_problems = []
            by_off = {op.attrs["offset"]: op for r in ops1 for op in r}
            entry_of: dict[str, tuple[int, int]] = {}
            for off, ent in maps.items():
                if off not in by_off:
                    sm_problems.append(f"entry {off} is not the offset of an input op")
                    continue
                ln, col = ent.attrs["line"], ent.attrs["column"]
                nm = by_off[off].attrs["op_code"].attrs["name"]
                if not (0 <= ln < len(lines)) or col > len(lines[ln]):
                    sm_problems.append(f"entry {off} ({nm}) points outside the text ({ln}, {col})")
                    continue
                rest = lines[ln][col:]
                if re.match(r"^(op\d+|hm_\w+)$", nm):
                    entry_of[nm] = (ln, col)
                    if not rest.startswith(nm):
                        sm_problems.append(f"entry of {nm} (offset {off}) points at {rest[:25]!r} (line {ln}, column {col})")
                elif rest[:1] in ("", " ", "}"):
                    sm_problems.append(f"entry of {nm} (offset {off}) points at blank space or a closing brace (line {ln}, column {col}: {lines[ln]!r})")
                elif not fallback and nm == "Jump" and not rest.startswith(("jump @", "continue;", "break_loop;", "break;")):
                    sm_problems.append(f"entry of the Jump at offset {off} points at `{rest[:25]}` (line {ln}), not at a jump statement")
                elif not fallback and nm in ("Case", "CaseValue", "CaseVariable", "CaseScenario", "CaseMenu", "CaseMenu2") and not rest.startswith("case"):
                    sm_problems.append(f"entry of the {nm} at offset {off} points at `{rest[:25]}` (line {ln}), not at its case header")
                elif not fallback and nm.startswith("Switch") and not rest.startswith(("switch", nm + "(")):
                    sm_problems.append(f"entry of the {nm} at offset {off} points at `{rest[:25]}` (line {ln}), not at the switch header")
            if not fallback:
                for nm, cnt in rec["op_prints"].items():
                    if cnt >= 1 and nm not in entry_of:
                        sm_problems.append(f"{nm} is printed but has no source map entry")
                # every op other than a plain Jump that can be reached is printed as (part of) a statement and has an entry
                flat_ops = [op for r in ops1 for op in r]
                nxt_of: dict[int, int | None] = {}
                for r in ops1:
                    for a_op, b_op in zip(r, list(r[1:]) + [None]):
                        nxt_of[a_op.attrs["offset"]] = b_op.attrs["offset"] if b_op is not None else None
                reach: set[int] = set()
                todo = [r[0].attrs["offset"] for r in ops1 if r]
                while todo:
                    o = todo.pop()
                    if o in reach or o not in by_off:
                        continue
                    reach.add(o)
                    nm = by_off[o].attrs["op_code"].attrs["name"]
                    ps = by_off[o].attrs["params"]
                    if nm == "Jump":
                        todo.append(ps[-1])
                        continue
                    if nm in branch and ps and isinstance(ps[-1], int):
                        todo.append(ps[-1])
                    if nm not in ends and nxt_of.get(o) is not None:
                        todo.append(nxt_of[o])  # type: ignore[arg-type]
                for o in sorted(reach):
                    nm = by_off[o].attrs["op_code"].attrs["name"]
                    # (a condition op of an `a || b` group shares the statement of the group's first op)
                    if nm != "Jump" and nm not in branch and o not in maps:
                        sm_problems.append(f"{nm} (offset {o}) can be reached and is printed as a statement, but has no source map entry")
            rec["sm_problems"] = sm_problems[:4]
        except (KeyError, AttributeError, TypeError) as e:
            rec["sm_problems"] = [f"source map not readable: {e!r}"]
            entry_of = {}
        # compile the decompiled text again
        try:
            c2 = P.compile_exps(dtext)
        except PyExc as e:
            rec["stage"] = "recompile-raised"
            rec["why"] = f"{e.cls_name}: {e.msg}"
            continue
        except (Unsupported, AnalysisError) as e:
            rec["stage"] = "unknown"
            rec["why"] = f"recompile: {e}"
            continue
        ops2 = c2.attrs["routine_ops"]
        infos1 = [(i.attrs["type"].name, i.attrs["linked_to"], i.attrs["linked_to_name"]) if isinstance(i, AObj) else None for i in c.attrs["routine_infos"]]
        infos2 = [(i.attrs["type"].name, i.attrs["linked_to"], i.attrs["linked_to_name"]) if isinstance(i, AObj) else None for i in c2.attrs["routine_infos"]]
        rec["stage"] = "ok"
        if infos1 != infos2 or len(ops1) != len(ops2):
            rec["behaviour"] = f"routine table differs: {infos1} became {infos2}"
        else:
            try:
                g1, e1 = compiled_graph(I, ops1, branch, ends)
                g2, e2 = compiled_graph(I, ops2, branch, ends)
                for ri, (a, b) in enumerate(zip(e2, e1)):
                    ok, why = bisimilar(a, b)
                    if not ok:
                        rec["behaviour"] = f"routine {ri}: {why}"
                        break
            except AnalysisError as e:
                rec["behaviour"] = f"malformed result: {e}"
        if fallback:
            # op for op
            def flat(rs: Any) -> Any:
                where = {op.attrs["offset"]: (ri, oi) for ri, r in enumerate(rs) for oi, op in enumerate(r)}
                res = []
                for r in rs:
                    lst = []
                    for op in r:
                        nm = op.attrs["op_code"].attrs["name"]
                        ps = [(p.cls.name, repr(sorted((k, v if not isinstance(v, dict) else sorted(v.items())) for k, v in p.attrs.items() if k != "indent")))
                              if isinstance(p, AObj) else p for p in op.attrs["params"]]
                        if nm in jumpish and ps and isinstance(ps[-1], int):
                            ps[-1] = ("->", where.get(ps[-1]))
                        lst.append((nm, ps))
                    res.append(lst)
                return res
            f1, f2 = flat(ops1), flat(ops2)
            names1 = [nm if isinstance(nm, str) else None for nm in c.attrs["named_coroutines"]]
            names2 = [nm if isinstance(nm, str) else None for nm in c2.attrs["named_coroutines"]]
            kinds1 = [k[0] if k else None for k in infos1]
            if infos1 != infos2:
                rec["fallback_diff"] = f"routine table {infos1} came back as {infos2}"
            elif [n for n, k in zip(names1, kinds1) if k == "COROUTINE"] != [n for n, k in zip(names2, kinds1) if k == "COROUTINE"]:
                rec["fallback_diff"] = f"coroutine names {names1} came back as {names2}"
            elif f1 != f2:
                d = next(((a, b) for ra, rb in zip(f1, f2) for a, b in zip(ra, rb) if a != b), None)
                rec["fallback_diff"] = f"{d[0]} came back as {d[1]}" if d else f"op counts differ: {[len(r) for r in f1]} vs {[len(r) for r in f2]}"
        # recompilation places each op on the line the decompiler recorded
        try:
            sm2 = c2.attrs["source_map"].attrs.get("_mappings", {})
            line2 = {}
            for r in ops2:
                for op in r:
                    nm = op.attrs["op_code"].attrs["name"]
                    if re.match(r"^(op\d+|hm_\w+)$", nm) and op.attrs["offset"] in sm2:
                        line2.setdefault(nm, []).append(sm2[op.attrs["offset"]].attrs["line"])
            mism = [f"{nm}: decompiler says line {entry_of[nm][0]}, recompilation says {line2[nm]}" for nm in entry_of if nm in line2 and entry_of[nm][0] not in line2[nm]]
            # every other op that is identified by its name and parameter values on both sides (case texts, assignments, conditions, ...)
            def ident(op: Any) -> str:
                nm2 = op.attrs["op_code"].attrs["name"]
                ps2 = list(op.attrs["params"])
                if nm2 in jumpish and ps2 and isinstance(ps2[-1], int):
                    ps2 = ps2[:-1]
                return nm2 + "(" + ",".join(p.cls.name + repr(sorted((k, v if not isinstance(v, dict) else sorted(v.items())) for k, v in p.attrs.items() if k != "indent"))
                                            if isinstance(p, AObj) else repr(p) for p in ps2) + ")"
            id1: dict[str, list[int]] = {}
            id2: dict[str, list[int]] = {}
            for r in ops1:
                for op in r:
                    id1.setdefault(ident(op), []).append(op.attrs["offset"])
            for r in ops2:
                for op in r:
                    id2.setdefault(ident(op), []).append(op.attrs["offset"])
            for k2, offs in id1.items():
                if len(offs) == 1 and len(id2.get(k2, [])) == 1 and offs[0] in maps and id2[k2][0] in sm2 and not re.match(r"^(op\d+|hm_\w+)\(", k2) and not k2.startswith("Jump("):
                    l1, l2 = maps[offs[0]].attrs["line"], sm2[id2[k2][0]].attrs["line"]
                    if l1 != l2:
                        mism.append(f"{k2[:60]}: decompiler says line {l1}, recompilation says line {l2}")
            if mism and not fallback:
                rec.setdefault("sm_problems", []).extend(mism[:2])
        except (KeyError, AttributeError, TypeError):
            pass
    return out


def _digest(root: Path) -> str:
    h = hashlib.sha256()
    for base, pats in ((root / "explorerscript", ("*.py", "*.g4")), (Path(__file__).resolve().parents[1], ("*.py",))):
        for pat in pats:
            for p in sorted(base.rglob(pat)):
                if "__pycache__" in p.parts or (p.suffix == ".py" and p.parent.name == "antlr"):
                    continue
                h.update(str(p.relative_to(base)).encode())
                h.update(p.read_bytes())
    return h.hexdigest()[:20]


def results(ctx: Any, thorough: bool) -> dict[str, Any]:
    """All records (computed once per tree state and tier; cached next to the evidence because four checks read them)."""
    from concurrent.futures import ProcessPoolExecutor
    repo = ctx.repo
    cache_dir = Path(os.environ.get("ESV_CACHE_DIR") or (Path(__file__).resolve().parents[2] / ".cache"))
    key = f"roundtrip-{_digest(Path(repo.root))}-{'thorough' if thorough else 'quick'}.json"
    cf = cache_dir / key
    if cf.exists() and not os.environ.get("ESV_NO_CACHE"):
        try:
            return json.loads(cf.read_text())  # type: ignore[no-any-return]
        except (OSError, ValueError):
            pass
    t0 = time.time()
    n = max(1, min(16, int(os.environ.get("ESV_WORKERS") or (os.cpu_count() or 2))))
    jobs = [(str(repo.root), thorough, k, n) for k in range(n)]
    try:
        with ProcessPoolExecutor(max_workers=n) as ex:
            parts = list(ex.map(_worker, jobs))
    except (OSError, RuntimeError):
        parts = [_worker((str(repo.root), thorough, 0, 1))]
    recs = [r for p in parts for r in p]
    res = {"records": recs, "seconds": round(time.time() - t0, 1), "workers": n, "from_cache": False}
    try:
        cache_dir.mkdir(parents=True, exist_ok=True)
        tmp = cf.with_suffix(f".{os.getpid()}.tmp")
        tmp.write_text(json.dumps(res))
        os.replace(tmp, cf)  # atomic: a check running in parallel never reads a half-written file
        # keep the newest few results (scratch copies analysed in parallel by the self-test each have their own digest)
        olds = sorted(cache_dir.glob("roundtrip-*.json"), key=lambda q: q.stat().st_mtime, reverse=True)
        for old in olds[16:]:
            old.unlink()
    except OSError:
        pass
    return res


def _smallest(recs: list[dict[str, Any]]) -> dict[str, Any]:
    return sorted(recs, key=lambda r: (len(r["program"]), r["program"]))[0]


def summarise(chk: Check, ctx: Any, rule: str, prop: str, thorough: bool) -> None:
    """Turn the records into verdicts of one property (prop in C02, C06, C09, C13)."""
    repo = ctx.repo
    res = results(ctx, thorough)
    recs = res["records"]
    anchor = repo.func("explorerscript.ssb_converting.ssb_decompiler:ExplorerScriptSsbDecompiler.convert")
    evaluated = [r for r in recs if r.get("stage") not in ("not-compiled", None)]
    unknown = [r for r in evaluated if r.get("stage") == "unknown"]
    budget = [r for r in unknown if r.get("budget")]
    hard_unknown = [r for r in unknown if not r.get("budget")]
    chk.extra.setdefault("roundtrip", {}).update({
        "programs": len(recs), "evaluated": len(evaluated), "fallback": sum(1 for r in evaluated if r.get("fallback")),
        "not_evaluated_budget": len(budget), "seconds": res["seconds"], "workers": res["workers"], "from_cache": res.get("from_cache", True) if "from_cache" not in res else res["from_cache"],
        "exhaustive_within_bounds": True, "technique": "abstract evaluation of compile(), convert() and compile() on schematic programs; bisimulation of flow graphs"})
    chk.floor(rule, "programs taken through compile -> decompile -> compile", len(evaluated), 800 if not thorough else 3000)
    if hard_unknown:
        r = _smallest(hard_unknown)
        chk.unknown(rule, "roundtrip:modelled-subset", anchor, f"abstract interpretation left the modelled subset on {len(hard_unknown)} programs; smallest `{r['program']}`: {r.get('why')}")
    if len(budget) > max(5, len(evaluated) // 50):
        r = _smallest(budget)
        chk.unknown(rule, "roundtrip:budget", anchor, f"{len(budget)} programs exceed the evaluation budget (deep recursion of the join search); smallest `{r['program']}`")

    def by_family(bad: list[dict[str, Any]], key_prefix: str, what: Any, ok_text: str, pool: list[dict[str, Any]]) -> None:
        """One verdict per failing program (so that a recorded finding names one input and never hides another), one per family for the rest."""
        def fam_of(r: dict[str, Any]) -> str:
            return r["family"]
        for r in sorted(bad, key=lambda r: (len(r["program"]), r["program"])):
            chk.violation(rule, f"{key_prefix}:{r['program']}", anchor, f"`{r['program']}` -- {what(r)}",
                          facts={"family": r["family"], "decompiled": r.get("text", "")[:1500]})
        badset = {id(r) for r in bad}
        counts: dict[str, int] = {}
        for r in pool:
            if id(r) not in badset:
                counts[fam_of(r).split("+")[0]] = counts.get(fam_of(r).split("+")[0], 0) + 1
        for fam, n in sorted(counts.items()):
            chk.hold(rule, f"{key_prefix}:family:{fam}", anchor, f"{n} programs: {ok_text}")

    order_dep = [r for r in evaluated if r.get("stage") == "order-dependent"]
    chk.extra["roundtrip"]["order_dependent_not_decided"] = len(order_dep)
    chk.extra["roundtrip"]["programs_with_set_order_choices"] = sum(1 for r in evaluated if r.get("set_order_choices"))
    if len(order_dep) > max(10, len(evaluated) // 100):
        r = _smallest(order_dep)
        chk.unknown(rule, "roundtrip:set-order", anchor, f"for {len(order_dep)} programs the decompiled text depends on the order in which a set of graph elements is iterated "
                                                         f"(the library hashes them by address); smallest `{r['program']}`")
    done = [r for r in evaluated if r.get("stage") not in ("unknown", "order-dependent")]
    if prop == "C06":
        raised = [r for r in done if r.get("stage") == "decompile-raised"]
        by_family(raised, "returns", lambda r: f"convert() raises {r['why']} instead of returning text and source map", "convert() returns (text, source map)", done)
        fb = [r for r in done if r.get("fallback")]
        badfb = [r for r in fb if r.get("stage") == "recompile-raised" or r.get("fallback_diff")]
        by_family(badfb, "fallback-exact", lambda r: ("the fallback text does not compile: " + r["why"]) if r.get("stage") == "recompile-raised" else
                  ("compiling the fallback text does not reproduce the input: " + r["fallback_diff"]), "fallback text reproduces the ops one for one", fb)
        chk.extra["roundtrip"]["fallback_programs"] = len(fb)
        # "whenever it cannot produce structured ExplorerScript, the text is marked SsbScript": text without the marker that the ExplorerScript
        # compiler rejects is neither of the two answers
        plain = [r for r in done if not r.get("fallback") and r.get("stage") in ("ok", "recompile-raised")]
        neither = [r for r in plain if r.get("stage") == "recompile-raised"]
        by_family(neither, "structured-or-marked", lambda r: "the returned text has no is-ssb-script marker but is not ExplorerScript either, the compiler rejects it: " + r["why"],
                  "text without the marker is accepted by the ExplorerScript compiler", plain)
    elif prop == "C02":
        structured = [r for r in done if not r.get("fallback") and r.get("stage") in ("ok", "recompile-raised") and not r.get("jump_only_cycle")]
        bad = [r for r in structured if r.get("stage") == "recompile-raised" or r.get("behaviour")]
        by_family(bad, "denotes", lambda r: ("the decompiled ExplorerScript does not compile: " + r["why"]) if r.get("stage") == "recompile-raised" else
                  ("the decompiled ExplorerScript behaves differently: " + r["behaviour"]), "decompiled text compiles to a bisimilar flow graph and the same routine table",
                  structured)
    elif prop == "C13":
        flat = [r for r in done if r["group"] == "flat"]
        chk.floor(rule, "flat programs (premise of C13)", len(flat), 300 if not thorough else 2000)

        def why(r: dict[str, Any]) -> str:
            if r.get("stage") == "decompile-raised":
                return "convert() raises " + r["why"]
            if r.get("fallback"):
                return "decompiled as SsbScript fallback"
            if r.get("jumps"):
                return f"the text contains {r['jumps']} jump statement(s)"
            odd = {k: v for k, v in r.get("op_prints", {}).items() if v != 1}
            return f"operations not printed exactly once: {odd}"
        bad = [r for r in flat if r.get("stage") == "decompile-raised" or r.get("fallback") or r.get("jumps") or any(v != 1 for v in r.get("op_prints", {}).values())]
        by_family(bad, "flat", why, "structured text, no jump, every operation once", flat)
    elif prop == "C09":
        with_sm = [r for r in done if "sm_problems" in r]
        bad = [r for r in with_sm if r["sm_problems"]]
        by_family(bad, "entries", lambda r: "; ".join(r["sm_problems"][:2]), "every entry points at the start of its op's statement; recompilation agrees on the line", with_sm)
