"""C06 — the decompiler always answers; its SsbScript fallback is marked and exact."""

from __future__ import annotations

import ast
import re
from typing import Any

from ..engine import astq
from ..engine.calls import RaiseAnalysis
from ..engine.cfg import build_cfg, stmt_of
from ..engine.loader import AnalysisError, Func, dotted, norm, walk_no_nested
from ..engine.report import Check, fkey

DEC = "explorerscript.ssb_converting.ssb_decompiler"
SDEC = "explorerscript.ssb_script.ssb_converting.ssb_decompiler"
META = "explorerscript.ssb_converting.compiler.meta_attributes"
COMPILER = "explorerscript.ssb_converting.ssb_compiler"


def fold_prefix(ctx: Any, f: Func, handler: ast.ExceptHandler) -> tuple[str | None, str | None]:
    """Value of the string variable passed as prefix= to the fallback decompiler (straight-line += concatenation)."""
    call = None
    for n in ast.walk(handler):
        if isinstance(n, ast.Call) and isinstance(n.func, ast.Attribute) and n.func.attr == "convert" and any(k.arg == "prefix" for k in n.keywords):
            call = n
    if call is None:
        return None, None
    arg = next(k.value for k in call.keywords if k.arg == "prefix")
    if not isinstance(arg, ast.Name):
        v = ctx.fold.try_expr(f.mod, arg)
        return (v if isinstance(v, str) else None), norm(arg)
    var = arg.id
    val: str | None = None
    for st in handler.body:
        if isinstance(st, ast.Assign) and isinstance(st.targets[0], ast.Name) and st.targets[0].id == var:
            v = ctx.fold.try_expr(f.mod, st.value)
            val = v if isinstance(v, str) else None
        elif isinstance(st, ast.AugAssign) and isinstance(st.target, ast.Name) and st.target.id == var and isinstance(st.op, ast.Add):
            v = ctx.fold.try_expr(f.mod, st.value)
            val = (val + v) if isinstance(v, str) and val is not None else None
    return val, var


def _fallback_handler(ctx: Any) -> tuple[Func, ast.ExceptHandler] | None:
    conv = ctx.repo.func(f"{DEC}:ExplorerScriptSsbDecompiler.convert")
    for t in walk_no_nested(conv.node):
        if isinstance(t, ast.Try):
            for h in t.handlers:
                if any(isinstance(c, ast.Call) and dotted(c.func) == "SsbScriptSsbDecompiler" for c in ast.walk(h)):
                    return conv, h
    return None


def fallback_output_rule(chk: Check, ctx: Any, rule: str) -> None:
    """The text returned by the fallback branch is exactly the text the SsbScript decompiler returned (nothing added around it)."""
    fh = _fallback_handler(ctx)
    if fh is None:
        chk.unknown(rule, "fallback:text-unchanged", ("", 0), "fallback handler of convert() not found")
        return
    conv, h = fh
    rets = [n for n in ast.walk(h) if isinstance(n, ast.Return) and isinstance(n.value, ast.Tuple) and len(n.value.elts) == 2]
    if not rets:
        chk.unknown(rule, "fallback:text-unchanged", conv, "fallback handler does not return (text, map)")
        return
    # variables/attributes bound directly by `<text>, <map> = <fallback>.convert(prefix=...)`
    direct: set[str] = set()
    for s in ast.walk(h):
        if isinstance(s, ast.Assign) and isinstance(s.targets[0], ast.Tuple) and isinstance(s.value, ast.Call) \
                and isinstance(s.value.func, ast.Attribute) and s.value.func.attr == "convert":
            direct.add(norm(s.targets[0].elts[0]))
    for r in rets:
        txt = norm(r.value.elts[0])  # type: ignore[union-attr]
        defs = [s for s in ast.walk(h) if isinstance(s, ast.Assign) and any(norm(t) == txt for t in s.targets)]
        changed = [s for s in defs if not (norm(s.value) in direct)]
        aug = [s for s in ast.walk(h) if isinstance(s, ast.AugAssign) and norm(s.target) == txt]
        ok = (txt in direct and not aug) or (bool(defs) and not changed and not aug)
        what = norm(changed[0]) if changed else norm(aug[0]) if aug else txt
        chk.decide(rule, "fallback:text-unchanged", ok, conv,
                   f"the fallback text is modified after the SsbScript decompiler produced it (`{what[:90]}`): the lines of its source map were "
                   "counted without the added text, so every entry is shifted", "returned text is exactly the fallback decompiler's output", node=r)


def resolver_tables_rule(chk: Check, ctx: Any, rule: str) -> None:
    """OpsLabelJumpToResolver._build_end_offsets yields one end offset per routine (empty routines repeat the previous one)."""
    f = ctx.repo.func("explorerscript.ssb_converting.decompiler.label_jump_to_resolver:OpsLabelJumpToResolver._build_end_offsets")
    fn = f.node
    p = astq.params_of(fn)[0]
    loops = [n for n in walk_no_nested(fn) if isinstance(n, ast.For) and norm(n.iter) == p]
    comps = [n for n in walk_no_nested(fn) if isinstance(n, (ast.ListComp, ast.GeneratorExp)) and norm(n.generators[0].iter) == p]
    if loops:
        lp = loops[0]
        apps = [c for c in ast.walk(lp) if isinstance(c, ast.Call) and isinstance(c.func, ast.Attribute) and c.func.attr == "append"]
        direct = [s for s in lp.body if isinstance(s, ast.Expr) and s.value in apps]
        has_skip = any(isinstance(n, ast.Continue) for n in ast.walk(lp))
        ok = len(apps) == 1 and len(direct) == 1 and not has_skip
        chk.decide(rule, "resolver:end-offset-per-routine", ok, f,
                   "the table of routine end offsets does not get exactly one entry per routine (empty/alias routines must repeat the previous offset): "
                   "process_op_for_jump indexes it by routine id and raises IndexError outside convert()'s try block",
                   "one end offset per routine, appended unconditionally", node=lp)
    elif comps:
        c0 = comps[0]
        chk.decide(rule, "resolver:end-offset-per-routine", not c0.generators[0].ifs, f,
                   f"`{norm(c0)[:90]}` filters routines: the end-offset table is shorter than the routine list, so jumps in routines after an alias routine "
                   "raise IndexError before convert() reaches its try block", "one end offset per routine", node=c0)
    else:
        chk.unknown(rule, "resolver:end-offset-per-routine", f, "construction of the end-offset table not recognised")


def eof_guard_rule(chk: Check, ctx: Any, rule: str) -> None:
    """The upward routine search of process_op_for_jump gives up exactly when the index leaves the end-offset table."""
    f = ctx.repo.func("explorerscript.ssb_converting.ssb_special_ops:process_op_for_jump")
    fn = f.node
    tab = astq.params_of(fn)[3] if len(astq.params_of(fn)) > 3 else "routine_end_offsets"
    guards = [n for n in walk_no_nested(fn) if isinstance(n, ast.If) and isinstance(n.test, ast.Compare) and any(isinstance(x, ast.Raise) for x in ast.walk(n))
              and "routine_id" in norm(n.test.left) and any(isinstance(w, ast.While) and any(x is n for x in ast.walk(w)) for w in walk_no_nested(fn))]
    if len(guards) != 1:
        chk.unknown(rule, "resolver:eof-guard", f, f"{len(guards)} end-of-table guards found in the upward routine search")
        return
    g = guards[0]
    bound = astq.inline_locals(fn, g.test.comparators[0])
    t = norm(bound)
    op = type(g.test.ops[0]).__name__
    exact = {(f"len({tab})", "GtE"), (f"len({tab})", "Eq"), (f"len({tab}) - 1", "Gt")}
    early = {(f"len({tab}) - 1", "GtE"), (f"len({tab}) - 1", "Eq"), (f"len({tab}) - 2", "Gt")}
    if (t, op) in exact:
        chk.hold(rule, "resolver:eof-guard", f, "gives up only past the last routine", node=g)
    elif (t, op) in early:
        chk.violation(rule, "resolver:eof-guard", f,
                      f"`{norm(g.test)}` (bound = {t}) reports 'past EOF' as soon as the search reaches the LAST routine: a jump from an earlier routine into the last "
                      "routine raises ValueError in the resolver, which runs before convert()'s try block, so no text and no fallback is produced", node=g)
    else:
        chk.unknown(rule, "resolver:eof-guard", f, f"end-of-table guard `{norm(g.test)}` (bound {t}) not recognised", node=g)


def handler_names_rule(chk: Check, ctx: Any, rule: str, conv: Func, main: ast.Try, h: ast.ExceptHandler) -> None:
    """Every local name the fallback handler reads is bound on every path into the handler (else the handler itself raises and nothing is returned)."""
    fn = conv.node
    params = set(astq.params_of(fn, skip_self=False))
    assigned_in_fn: dict[str, list[ast.AST]] = {}
    for n in walk_no_nested(fn):
        if isinstance(n, ast.Name) and isinstance(n.ctx, ast.Store):
            assigned_in_fn.setdefault(n.id, []).append(n)
    try_nodes = {id(x) for st in main.body for x in ast.walk(st)}
    handler_nodes = [x for st in h.body for x in ast.walk(st)]
    stored_in_handler: dict[str, int] = {}
    for x in handler_nodes:
        if isinstance(x, ast.Name) and isinstance(x.ctx, ast.Store):
            stored_in_handler[x.id] = min(stored_in_handler.get(x.id, 10**9), x.lineno)
    if h.name:
        stored_in_handler[h.name] = 0
    bad: list[tuple[str, ast.Name]] = []
    n_read = 0
    for x in handler_nodes:
        if not (isinstance(x, ast.Name) and isinstance(x.ctx, ast.Load)) or x.id not in assigned_in_fn or x.id in params:
            continue
        n_read += 1
        if stored_in_handler.get(x.id, 10**9) < x.lineno:
            continue
        stores = assigned_in_fn[x.id]
        before_try = [s for s in stores if id(s) not in try_nodes and s.lineno < main.lineno and not _conditional(fn, s, main)]
        if not before_try:
            bad.append((x.id, x))
    chk.decide(rule, "convert:fallback-handler-names", not bad, conv,
               (f"the fallback handler reads `{bad[0][0]}`, which is only bound inside the try block (or conditionally): when the failure happens before that "
                "binding, the handler raises UnboundLocalError itself and convert() returns neither text nor fallback") if bad else "",
               f"{n_read} local reads in the handler are bound before the try block", node=bad[0][1] if bad else None)


def _conditional(fn: ast.AST, store: ast.AST, upto: ast.AST) -> bool:
    """Is the store nested in an if/loop/try of the function body (not a plain top-level statement before `upto`)?"""
    for st in getattr(fn, "body", []):
        if any(x is store for x in ast.walk(st)):
            if isinstance(st, (ast.If, ast.For, ast.While, ast.Try, ast.With)):
                return not isinstance(st, ast.With)
            return False
    return True


def run(chk: Check, ctx: Any) -> None:
    repo = ctx.repo
    cg = ctx.callgraph
    chk.explanation = (
        "Decides for all inputs: (R1) every exception class raised explicitly (raise statements, int()/next(<generator>)/list.index()) by the "
        "graph passes and writers under the try block of ExplorerScriptSsbDecompiler.convert is caught by its fallback handler, and the handler "
        "catches assertion failures; (R3) the first line of the fallback prefix is recognised by parse_exps_meta_attributes as is-ssb-script "
        "with a value compile() accepts, it is part of the prefix handed to the SsbScript decompiler (so its line counter includes it), and "
        "every other prefix line is a comment; (R4) the raw ops handed to the fallback come from a deepcopy taken before any pass ran. "
        "Exactness of the fallback text is C07. Implicit exceptions are covered only as far as the handler catches Exception."
        " (R7, interpreter-based) convert() is evaluated on the program families: it returns text and source map for every program, and fallback text compiles "
        "back to the input op for op."
    )
    chk.rule("C06-R7", "round trip, every stage interpreted: convert() returns text and source map for every program of the skeleton families; fallback text carries the marker and compiles back to the input op for op")
    chk.rule("C06-R1", "raise-set of the try body of convert() is a subset of what its fallback handler catches; AssertionError is caught")
    chk.rule("C06-R3", "the fallback prefix starts with a line that parse_exps_meta_attributes reads as is-ssb-script = true/1; all further lines are // comments; "
                       "the whole prefix (marker included) is passed to SsbScriptSsbDecompiler.convert(prefix=...) and counted into its line number")
    chk.rule("C06-R5", "the label resolver, which runs before the try block, is total on well-formed input: one routine end offset per routine")
    chk.rule("C06-R6", "the reader of the fallback text (SsbScript listener) builds every collected container afresh: parameters of different ops never share one; one label table for the whole file")
    chk.rule("C06-R4", "the routine ops given to the fallback decompiler are a deepcopy taken before the resolver/grapher use self._routine_ops")

    conv = repo.func(f"{DEC}:ExplorerScriptSsbDecompiler.convert")
    tries = [t for t in walk_no_nested(conv.node) if isinstance(t, ast.Try)]
    main = None
    for t in tries:
        if any(isinstance(c, ast.Call) and dotted(c.func) == "SsbGraphMinimizer" for st in t.body for c in ast.walk(st)):
            main = t
    if main is None:
        # the try block is the one that runs the graph passes; the graph itself must be built under it as well
        for t in tries:
            if any(isinstance(c, ast.Call) and isinstance(c.func, ast.Attribute) and c.func.attr in ("build_branches", "build_loops", "remove_label_markers")
                   for st in t.body for c in ast.walk(st)):
                main = t
        ctor = next((c for c in walk_no_nested(conv.node) if isinstance(c, ast.Call) and dotted(c.func) == "SsbGraphMinimizer"), None)
        if main is not None and ctor is not None:
            chk.violation("C06-R1", "convert:graph-built-under-try", conv,
                          "SsbGraphMinimizer(...) is constructed outside the try block whose handler produces the fallback: building the graph can fail (e.g. "
                          "KeyError in _get_edges for a jump to the last op of the previous routine), and that failure then leaves convert()", node=ctor)
    if main is None:
        raise AnalysisError("convert(): try block around the graph passes not found")
    fb = [h for h in main.handlers if any(isinstance(c, ast.Call) and dotted(c.func) == "SsbScriptSsbDecompiler" for c in ast.walk(h))]
    if len(fb) != 1:
        chk.violation("C06-R1", "convert:fallback-handler", conv, "no except clause of convert() builds the SsbScript fallback")
        return
    h = fb[0]
    handler_names_rule(chk, ctx, "C06-R1", conv, main, h)
    eof_guard_rule(chk, ctx, "C06-R5")
    from .c07 import collector_fresh_rule, labels_global_rule
    collector_fresh_rule(chk, ctx, "C06-R6")
    labels_global_rule(chk, ctx, "C06-R6")
    ra = RaiseAnalysis(cg)
    # every function reachable from the try body
    roots: list[Func] = []
    for cs in cg.sites(conv):
        if any(x is cs.node for st in main.body for x in ast.walk(st)):
            roots.extend(cs.callees)
    ra.analyse(roots + [conv])
    esc = ra.body_escapes(conv, main.body, None)
    types = ra._handler_types(conv, h)
    reach = cg.reachable(roots)
    chk.floor("C06-R1", "functions reachable from the try body", len(reach), 120)
    chk.extra["functions_under_try"] = len(reach)
    by_cls: dict[str, list[str]] = {}
    for e in esc:
        by_cls.setdefault(e.cls, []).append(e.site)
    chk.floor("C06-R1", "exception classes raised under the try body", len(by_cls), 1)
    # earlier handlers of the same try catch first
    earlier: list[list[str] | None] = []
    for hh in main.handlers:
        if hh is h:
            break
        earlier.append(ra._handler_types(conv, hh))
    for cname, sites in sorted(by_cls.items()):
        sites = sorted(set(sites))
        taken = any(cg.catches(t, cname) for t in earlier)
        ok = not taken and cg.catches(types, cname)
        chk.decide("C06-R1", f"convert:escapes:{cname}", ok, conv,
                   f"{cname} is raised by the structuring passes/writers ({len(sites)} sites, e.g. {'; '.join(sites[:3])}) but the fallback handler "
                   f"catches only {types}: convert() raises instead of returning the SsbScript fallback",
                   f"{cname} ({len(sites)} sites) caught by the fallback handler", facts={"sites": sites[:10]})
    chk.decide("C06-R1", "convert:catches-assertions", cg.catches(types, "AssertionError"), conv,
               f"the fallback handler catches {types}: failed consistency assertions of the passes escape convert()", "assertion failures fall back")
    # the handler itself must return the fallback result
    rets = [n for n in ast.walk(h) if isinstance(n, ast.Return)]
    chk.decide("C06-R1", "convert:fallback-returns", bool(rets) and all(isinstance(r.value, ast.Tuple) and len(r.value.elts) == 2 for r in rets), conv,
               "the fallback handler does not return (text, source map)", "returns (text, source map)")

    # ------------------------------------------------------------------ R3 marker
    prefix, pvar = fold_prefix(ctx, conv, h)
    if prefix is None:
        chk.unknown("C06-R3", "prefix:fold", conv, "the prefix passed to SsbScriptSsbDecompiler.convert(prefix=...) cannot be folded to a string")
    else:
        lines = prefix.split("\n")
        pm = repo.func(f"{META}:parse_exps_meta_attributes")
        rx_src = None
        for n in walk_no_nested(pm.node):
            if isinstance(n, ast.Call) and dotted(n.func) == "re.compile" and n.args:
                v = ctx.fold.try_expr(pm.mod, n.args[0])
                if isinstance(v, str):
                    rx_src = v
        starts = [ctx.fold.try_expr(pm.mod, c.args[0]) for c in walk_no_nested(pm.node) if isinstance(c, ast.Call)
                  and isinstance(c.func, ast.Attribute) and c.func.attr == "startswith" and c.args]
        key_const = ctx.fold.const(f"{META}:ExpsMetaAttributes") if False else None
        mcls = repo.cls(f"{META}.ExpsMetaAttributes")
        key = ctx.fold.try_expr(mcls.mod, mcls.class_assigns["IsSsbScript"]) if "IsSsbScript" in mcls.class_assigns else None
        comp = repo.func(f"{COMPILER}:ExplorerScriptSsbCompiler.compile")
        accepted = set()
        for n in walk_no_nested(comp.node):
            if isinstance(n, ast.Compare) and isinstance(n.left, ast.Name) and n.left.id == "value" and isinstance(n.ops[0], ast.Eq):
                v = ctx.fold.try_expr(comp.mod, n.comparators[0])
                if isinstance(v, str):
                    accepted.add(v)
        if rx_src is None or not starts or key is None or not accepted:
            chk.unknown("C06-R3", "marker:reader", pm, "attribute reader (regex / startswith / key / accepted values) not recognised")
        else:
            first = lines[0]
            ok_start = all(isinstance(s, str) and first.strip().startswith(s) for s in starts)
            m = re.compile(rx_src).search(first)
            ok = bool(ok_start and m and m.group(1).strip() == key and m.group(2).strip() in accepted)
            chk.decide("C06-R3", "marker:first-line", ok, conv,
                       f"the first prefix line {first!r} is not read as {key!r} with a value in {sorted(accepted)} by parse_exps_meta_attributes "
                       f"(regex {rx_src!r}): compiling the fallback text would parse it as ExplorerScript", f"first line {first!r} recognised")
            rest_bad = [l for l in lines[1:] if l.strip() and not l.lstrip().startswith("//")]
            chk.decide("C06-R3", "marker:rest-comments", not rest_bad, conv, f"prefix lines that are not comments: {rest_bad[:2]}", "other prefix lines are comments")
            chk.decide("C06-R3", "marker:ends-with-newline", prefix.endswith("\n"), conv, "the prefix does not end with a newline", "prefix ends a line")
    fallback_output_rule(chk, ctx, "C06-R3")
    # SsbScript decompiler: writes the prefix first and counts its newlines
    sconv = repo.func(f"{SDEC}:SsbScriptSsbDecompiler.convert")
    out_init = [v for a, v, _s in astq.self_assigns(sconv.node) if a == "_output"]
    ln_init = [v for a, v, _s in astq.self_assigns(sconv.node) if a == "_line_number"]
    ok_o = bool(out_init) and norm(out_init[0]) == "prefix"
    ok_l = bool(ln_init) and norm(ln_init[0]) in ("prefix.count('\\n') + 1", "1 + prefix.count('\\n')")
    chk.decide("C06-R3", "ssbscript:prefix-first", ok_o, sconv, "SsbScriptSsbDecompiler.convert does not start its output with the prefix", "output starts with the prefix")
    chk.decide("C06-R3", "ssbscript:prefix-lines-counted", ok_l, sconv,
               f"the line counter starts at {norm(ln_init[0]) if ln_init else '?'}, not at prefix.count('\\n') + 1: every source map line of the fallback is shifted",
               "line counter includes the prefix lines")

    # ------------------------------------------------------------------ R5 resolver table (runs before the try block)
    resolver_tables_rule(chk, ctx, "C06-R5")

    # ------------------------------------------------------------------ R4 backup
    cfg = build_cfg(conv.node)
    backups = [n for n in walk_no_nested(conv.node) if isinstance(n, ast.Assign) and isinstance(n.value, ast.Call)
               and dotted(n.value.func) in ("deepcopy", "copy.deepcopy") and n.value.args and astq.self_attr(n.value.args[0]) == "_routine_ops"]
    if len(backups) != 1 or not isinstance(backups[0].targets[0], ast.Name):
        aliases = [n for n in walk_no_nested(conv.node) if isinstance(n, ast.Assign) and astq.self_attr(n.value) == "_routine_ops"]
        ctor0 = next((c for c in ast.walk(h) if isinstance(c, ast.Call) and dotted(c.func) == "SsbScriptSsbDecompiler"), None)
        rewritten = [s for a, _v, s in astq.self_assigns(conv.node) if a == "_routine_ops" and not any(x is s for x in ast.walk(h))]
        if aliases:
            chk.violation("C06-R4", "backup:deepcopy", conv,
                          f"`{norm(aliases[0])}` keeps an alias, not a copy: the passes rewrite the same op objects the fallback later prints", node=aliases[0])
        elif not backups and ctor0 is not None and len(ctor0.args) >= 2 and norm(ctor0.args[1]) == "self._routine_ops" and rewritten:
            chk.violation("C06-R4", "backup:deepcopy", conv,
                          f"no copy of the raw ops is kept: the fallback prints self._routine_ops after `{norm(rewritten[0])[:70]}` and the graph passes "
                          "rewrote it (label jumps with removed roots, dropped jump parameters)", node=ctor0)
        else:
            chk.unknown("C06-R4", "backup:deepcopy", conv, "deepcopy(self._routine_ops) not found exactly once")
        return
    b = backups[0]
    bvar = b.targets[0].id  # type: ignore[union-attr]
    dom = cfg.dominators()
    uses = [n for n in walk_no_nested(conv.node) if isinstance(n, ast.Call) and dotted(n.func) in ("OpsLabelJumpToResolver", "SsbGraphMinimizer")]
    bst = stmt_of(cfg, b)
    ok_dom = all((ust := stmt_of(cfg, u)) is not None and bst is not None and cfg.dominates(bst, ust, dom) and b.lineno < u.lineno for u in uses)
    chk.decide("C06-R4", "backup:before-use", ok_dom if uses else None, conv,
               "the backup of the raw ops is not taken before the resolver/grapher receive them", "deepcopy dominates the first use", node=b)
    # handler restores from the backup and passes it on
    restored = any(isinstance(s, ast.Assign) and any(astq.self_attr(t) == "_routine_ops" for t in s.targets) and norm(s.value) == bvar for s in ast.walk(h))
    ctor = next((c for c in ast.walk(h) if isinstance(c, ast.Call) and dotted(c.func) == "SsbScriptSsbDecompiler"), None)
    passed = ctor is not None and len(ctor.args) >= 2 and (norm(ctor.args[1]) == bvar or (restored and norm(ctor.args[1]) == "self._routine_ops"))
    chk.decide("C06-R4", "backup:given-to-fallback", passed, conv,
               f"the fallback decompiler receives {norm(ctor.args[1]) if ctor is not None and len(ctor.args) > 1 else '?'}, not the untouched backup: ops already "
               "rewritten by the passes (label jumps, removed parameters) are printed", "fallback prints the backup", node=ctor or h)
    infos_ok = ctor is not None and norm(ctor.args[0]) == "self._routine_infos" and len(ctor.args) >= 3 and "named_coroutines" in norm(ctor.args[2])
    chk.decide("C06-R4", "fallback:same-routine-tables", infos_ok, conv, "the fallback decompiler is not given the routine infos / coroutine names of the input",
               "same routine infos and coroutine names")
    from .roundtrip import summarise as _rt
    _rt(chk, ctx, "C06-R7", "C06", getattr(ctx, "tier", "quick") == "thorough")

