"""C11 — results depend only on the input, not on what was processed before."""

from __future__ import annotations

import ast
from typing import Any

from ..engine import astq
from ..engine.cfg import build_cfg, stmt_of
from ..engine.loader import AnalysisError, Func, Cls, dotted, norm, walk_no_nested
from ..engine.report import Check, fkey
from ..engine.state import module_cells, class_cells, fill_writes, process_global_calls, Cell

GU = "explorerscript.ssb_converting.decompiler.graph_building.graph_utils"
GM = "explorerscript.ssb_converting.decompiler.graph_building.graph_minimizer"
DEC = "explorerscript.ssb_converting.ssb_decompiler"

# run-time written shared cells confirmed by reading the pinned tree: ident -> (allowed writer functions, reason)
AUDITED: dict[str, tuple[set[str], str]] = {
    f"{GU}.find_first_common_next_vertex_in_edges_cache": (
        {"find_first_common_next_vertex_in_edges__clear_cache", "find_first_common_next_vertex_in_edges"},
        "memo of the join search, keyed by id(graph); cleared per graph by the passes (rules R5, C12-R2)"),
    "explorerscript.cli.decompile.counter": (
        {"read_ops"}, "op numbering of the decompile CLI: one document per process"),
}
# loops in which a memo USE follows graph mutations without a CLR inside the same iteration, accepted on the pinned tree
MEMO_LOOP_EXCEPTIONS: dict[str, str] = {}

CLEAR = "find_first_common_next_vertex_in_edges__clear_cache"
USE = "find_first_common_next_vertex_in_edges"
GRAPH_MUTATORS = {"add_edge", "add_vertex", "delete_edges", "delete_vertices", "_reconnect", "add_edges", "add_vertices"}


def inventory(ctx: Any) -> list[Cell]:
    cells = module_cells(ctx.repo) + class_cells(ctx.repo)
    fill_writes(ctx.repo, cells)
    # instances of in-repo classes with __call__ that mutates: a call on the cell is a write (Counter)
    for c in cells:
        if c.kind == "module" and isinstance(c.value, ast.Call):
            d = dotted(c.value.func)
            r = ctx.repo.resolve(c.mod, d) if d else None
            if r and r[0] == "class" and "__call__" in r[1].methods:  # type: ignore[union-attr]
                for f, n in c.runtime_reads:
                    c.runtime_writes.append((f, n))
    return cells


def inventory_rules(chk: Check, ctx: Any, rule_inv: str, rule_shadow: str, rule_pg: str) -> list[Cell]:
    cells = inventory(ctx)
    n_mod = sum(1 for c in cells if c.kind == "module")
    chk.floor(rule_inv, "module-level mutable bindings", n_mod, 8)
    for c in sorted(cells, key=lambda c: c.ident):
        writers = sorted({f.node.name for f, _n in c.runtime_writes})
        if c.kind == "module":
            if not c.runtime_writes:
                chk.hold(rule_inv, f"cell:{c.ident}", c.mod, "written at import time only", node=c.node)
                continue
            if c.ident in AUDITED:
                allowed, why = AUDITED[c.ident]
                extra = [w for w in writers if w not in allowed]
                chk.decide(rule_inv, f"cell:{c.ident}", not extra, c.mod,
                           f"the shared cell {c.name} is also written by {extra} (audited writers: {sorted(allowed)})", f"audited: {why}", node=c.node)
            else:
                f0, n0 = c.runtime_writes[0]
                chk.violation(rule_inv, f"cell:{c.ident}", f0,
                              f"module-level {c.name} is modified at run time (`{norm(n0)[:70]}` in {f0.short}): it survives the call, so a later "
                              "compile()/convert() in the same process (or a concurrent one) sees what this one left behind", node=n0)
        else:
            if not c.runtime_writes:
                chk.hold(rule_shadow, f"cell:{c.ident}", c.mod, "class-level value never modified at run time", node=c.node)
            else:
                f0, n0 = c.runtime_writes[0]
                chk.decide(rule_shadow, f"cell:{c.ident}", c.shadowed_in_init, f0,
                           f"class attribute {c.owner.split('.')[-1]}.{c.name} is a mutable default that is modified through instances "
                           f"(`{norm(n0)[:70]}` in {f0.short}) and never re-bound per instance in __init__: all instances (all compilations, all "
                           "threads) share one object", "re-bound per instance in __init__", node=c.node)
    # mutable default parameter values: one object for all calls
    from ..engine.state import is_mutable_value
    n_def = 0
    for f in ctx.repo.all_funcs():
        a = f.node.args
        pos = a.posonlyargs + a.args
        pairs = list(zip(pos[len(pos) - len(a.defaults):], a.defaults)) + [(k, d) for k, d in zip(a.kwonlyargs, a.kw_defaults) if d is not None]
        for arg, d in pairs:
            if not is_mutable_value(d):
                continue
            n_def += 1
            name = arg.arg
            muts = [n for n in walk_no_nested(f.node) if isinstance(n, ast.Call) and isinstance(n.func, ast.Attribute) and n.func.attr in astq.MUTATORS
                    and isinstance(n.func.value, ast.Name) and n.func.value.id == name]
            muts += [n for n in walk_no_nested(f.node) if isinstance(n, (ast.Assign, ast.AugAssign, ast.Delete)) and any(
                isinstance(t, ast.Subscript) and isinstance(t.value, ast.Name) and t.value.id == name
                for t in (n.targets if isinstance(n, (ast.Assign, ast.Delete)) else [n.target]))]
            passed = [n for n in walk_no_nested(f.node) if isinstance(n, ast.Call) and any(isinstance(x, ast.Name) and x.id == name
                                                                                        for x in list(n.args) + [k.value for k in n.keywords])]
            rebound = any(isinstance(n, ast.Assign) and any(isinstance(t, ast.Name) and t.id == name for t in n.targets) for n in walk_no_nested(f.node))
            key = f"default:{f.short}:{name}"
            if (muts or passed) and not rebound:
                site = (muts or passed)[0]
                chk.violation(rule_inv, key, f,
                              f"parameter {name} of {f.short} defaults to a mutable {type(d).__name__.lower()} that the function "
                              f"{'modifies' if muts else 'hands on'} (`{norm(site)[:60]}`): the default object is created once per process, so what one call adds to it "
                              "is seen by every later call that relies on the default", node=site)
            else:
                chk.hold(rule_inv, key, f, "mutable default is never modified or handed on", node=d)
    chk.extra["mutable_default_parameters"] = n_def
    for where, call, at_runtime in process_global_calls(ctx.repo):
        key = f"process-global:{norm(call)}"
        if at_runtime:
            chk.violation(rule_pg, key, where,
                          f"`{norm(call)}` changes an interpreter-wide setting inside a function: calls running at the same time (or afterwards) "
                          "observe the change or its restoration", node=call)
        else:
            chk.hold(rule_pg, key, where, "interpreter-wide setting fixed once at import", node=call)
    return cells


def run(chk: Check, ctx: Any) -> None:
    repo = ctx.repo
    chk.explanation = (
        "Decides for all histories: (R1) the set of module-level mutable objects that are written at run time equals the audited table (join-search "
        "memo; the CLI's op counter), everything else is written at import time only; (R2) class-level mutable defaults that are modified through "
        "instances are re-bound per instance; (R3) in compile() of both compilers every instance attribute that is read or updated in place — other "
        "than constructor-set configuration — is assigned earlier in the same call; (R4) decompilation writes to objects of its input only through "
        "the audited cell param.indent and removes the jump parameter from a copy; (R5) memo entries of the join search cannot outlive convert() "
        "(after the last pass that uses the memo every graph is cleared) and, inside a loop that both mutates the graph and uses the memo, the memo "
        "is cleared before each use; (R6) no interpreter-wide setting is changed at run time. Not decided: process restarts (hash seed), GC timing, "
        "igraph internals."
    )
    chk.rule("C11-R7", "call histories evaluated in one interpreter (module-level, class-level and default-argument state persists, as in a process) against the same call in a fresh interpreter: other/same/failing programs first, a reused compiler object (also after a failure, also the same program twice); other/same/fallback routine sets before a decompilation; convert() leaves its input unchanged")
    chk.rule("C11-R1", "run-time written module-level state = audited table")
    chk.rule("C11-R2", "class-level mutable defaults modified through instances are shadowed in __init__")
    chk.rule("C11-R3", "compile(): every non-configuration attribute read or updated in place is assigned earlier in the same call")
    chk.rule("C11-R4", "decompilers write to input objects only through param.indent; the jump parameter is removed from a copy")
    chk.rule("C11-R5", "join-search memo: cleared for every graph after the last using pass; cleared before each use inside mutate-and-use loops")
    chk.rule("C11-R6", "no interpreter-wide setting is changed inside a function")

    inventory_rules(chk, ctx, "C11-R1", "C11-R2", "C11-R6")

    # ------------------------------------------------------------------ R3
    for spec in ("explorerscript.ssb_converting.ssb_compiler:ExplorerScriptSsbCompiler.compile",
                 "explorerscript.ssb_script.ssb_converting.ssb_compiler:SsbScriptSsbCompiler.compile"):
        f = repo.func(spec)
        cls = f.cls
        assert cls is not None
        init = cls.methods.get("__init__")
        config = set()
        if init is not None:
            ps = set(astq.params_of(init))
            for a, v, _s in astq.self_assigns(init):
                if any(isinstance(n, ast.Name) and n.id in ps for n in ast.walk(v)):
                    config.add(a)
        cfg = build_cfg(f.node)
        dom = cfg.dominators()
        assigns: dict[str, list[ast.stmt]] = {}
        for a, _v, st in astq.self_assigns(f.node):
            if isinstance(st, (ast.Assign, ast.AnnAssign)):
                assigns.setdefault(a, []).append(st)
        n_attr = 0
        seen: set[str] = set()
        for n in walk_no_nested(f.node):
            a = astq.self_attr(n)
            if a is None or a in config or a in seen or not isinstance(getattr(n, "ctx", None), ast.Load):
                continue
            if a in cls.methods or any(a in k.methods for k in repo.mro(cls)) or a == "__class__":
                continue
            st = stmt_of(cfg, n)
            if st is None:
                continue
            seen.add(a)
            n_attr += 1
            ok = any(cfg.dominates(d, st, dom) and d is not st for d in assigns.get(a, []))
            chk.decide("C11-R3", f"{f.short}:{a}", ok, f,
                       f"compile() reads or updates self.{a} (`{norm(st)[:70]}`) without assigning it earlier in the same call: on a reused compiler "
                       "object it still holds what the previous compile() left there", f"self.{a} assigned before use", node=st)
        # attributes read by helper methods of the same class that compile() calls
        for c in walk_no_nested(f.node):
            if isinstance(c, ast.Call) and isinstance(c.func, ast.Attribute) and isinstance(c.func.value, ast.Name) and c.func.value.id == "self" \
                    and c.func.attr in cls.methods and c.func.attr != f.node.name:
                helper = cls.methods[c.func.attr]
                cst = stmt_of(cfg, c)
                for n in walk_no_nested(helper):
                    a = astq.self_attr(n)
                    if a is None or a in config or a in seen or not isinstance(getattr(n, "ctx", None), ast.Load) or a in cls.methods:
                        continue
                    seen.add(a)
                    n_attr += 1
                    ok = cst is not None and any(cfg.dominates(d, cst, dom) and d is not cst for d in assigns.get(a, []))
                    chk.decide("C11-R3", f"{f.short}:{a}", ok, f,
                               f"{c.func.attr}() (called by compile()) reads self.{a}, which compile() does not assign before the call: on a reused compiler "
                               "object it still holds what the previous compile() left there", f"self.{a} assigned before {c.func.attr}() is called", node=c)
        # configuration handed to the constructor is shared with the caller and with sub-compilers: never modified in place
        for a in sorted(config):
            muts = []
            for mname, m in cls.methods.items():
                if mname != "__init__":
                    muts.extend((mname, x) for x in astq.inplace_mutations(m, a))
            if muts:
                mname, x = muts[0]
                chk.violation("C11-R3", f"{f.short}:config:{a}", f,
                              f"{mname}() modifies self.{a} in place (`{norm(x)[:70]}`): the constructor argument is kept across compile() calls and handed to "
                              "sub-compilers, so an earlier compilation (or an earlier import) changes what a later one sees", node=x)
            else:
                chk.hold("C11-R3", f"{f.short}:config:{a}", f, f"self.{a} is only read")
        if "ExplorerScript" in f.short:
            chk.floor("C11-R3", f"attributes read in {f.short}", n_attr, 3)

    # ------------------------------------------------------------------ R4
    n_ind = 0
    for f in repo.all_funcs():
        if not (f.mod.name.startswith("explorerscript.ssb_converting.decompiler") or f.mod.name in (DEC, "explorerscript.ssb_script.ssb_converting.ssb_decompiler")):
            continue
        for n in walk_no_nested(f.node):
            if isinstance(n, (ast.Assign, ast.AugAssign)):
                tg = n.targets if isinstance(n, ast.Assign) else [n.target]
                for t in tg:
                    if isinstance(t, ast.Attribute) and ("param" in norm(t.value)) and not norm(t.value).startswith("self"):
                        n_ind += 1
                        chk.decide("C11-R4", fkey(f, n), t.attr == "indent", f,
                                   f"`{norm(n)[:80]}` writes to a parameter object of the caller's ops: decompiling changes the meaning of its input",
                                   "audited: layout hint param.indent", node=n)
    chk.floor("C11-R4", "writes to parameter objects in the decompilers", n_ind, 3)
    from .c07 import run as _c07  # noqa: F401  (shared rule below)
    pj = repo.func("explorerscript.ssb_converting.ssb_special_ops:process_op_for_jump")
    dels = [n for n in walk_no_nested(pj.node) if isinstance(n, ast.Delete) and isinstance(n.targets[0], ast.Subscript)]
    if len(dels) == 1:
        lname = norm(dels[0].targets[0].value)  # type: ignore[union-attr]
        defs = [n for n in walk_no_nested(pj.node) if isinstance(n, ast.Assign) and norm(n.targets[0]) == lname]
        is_copy = bool(defs) and all(isinstance(d.value, ast.Call) and (norm(d.value).endswith(".copy()") or dotted(d.value.func) in ("list", "copy.copy")) for d in defs)
        chk.decide("C11-R4", "process_op_for_jump:copy", is_copy, pj,
                   f"the jump parameter is deleted from `{lname}`, the caller's own list: after convert() the input ops have lost their jump targets",
                   "jump parameter removed from a copy", node=dels[0])
    else:
        chk.unknown("C11-R4", "process_op_for_jump:copy", pj, "removal of the jump parameter not found")

    # ------------------------------------------------------------------ R5
    memo_rules(chk, ctx, "C11-R5")
    from .history import history_rule
    history_rule(chk, ctx, "C11-R7")
    chk.rule("C11-R8", "no order-visible iteration over a set of strings or enum members (hash randomisation: the order differs between processes)")
    from .hashorder import hash_order_rule
    hash_order_rule(chk, ctx, "C11-R8")



def memo_rules(chk: Check, ctx: Any, rule: str) -> None:
    repo = ctx.repo
    gm = repo.cls(f"{GM}.SsbGraphMinimizer")
    dcls = repo.cls(f"{DEC}.ExplorerScriptSsbDecompiler")
    # pass pipeline: the method of the decompiler that constructs the graph minimizer and calls its passes
    passes = []
    for mname, m in dcls.methods.items():
        gvars = {n.targets[0].id for n in walk_no_nested(m) if isinstance(n, ast.Assign) and isinstance(n.targets[0], ast.Name)
                 and isinstance(n.value, ast.Call) and dotted(n.value.func) == "SsbGraphMinimizer"}
        for n in walk_no_nested(m):
            if isinstance(n, ast.Call) and isinstance(n.func, ast.Attribute) and isinstance(n.func.value, ast.Name) and n.func.value.id in gvars \
                    and n.func.attr in gm.methods:
                passes.append((n.lineno, n.func.attr))
    passes.sort()
    order = [p for _l, p in passes if p != "get_graphs"]
    chk.floor(rule, "graph passes called by convert()", len(order), 8)

    def calls_in(m: ast.FunctionDef, seen: set[str]) -> tuple[list[ast.Call], list[ast.Call]]:
        uses, clears = [], []
        for c in walk_no_nested(m):
            if isinstance(c, ast.Call):
                d = dotted(c.func)
                if d == USE:
                    uses.append(c)
                elif d == CLEAR:
                    clears.append(c)
                elif d and d.startswith("self.") and d[5:] in gm.methods and d[5:] not in seen:
                    u2, _c2 = calls_in(gm.methods[d[5:]], seen | {d[5:]})
                    if u2:
                        uses.append(c)
        return uses, clears

    info: dict[str, dict[str, Any]] = {}
    for p in order:
        m = gm.methods[p]
        uses, clears = calls_in(m, {p})
        gloop = next((n for n in m.body if isinstance(n, ast.For) and "self._graphs" in norm(n.iter)), None)
        unconditional_entry_clear = False
        if gloop is not None:
            for st in gloop.body:
                if isinstance(st, ast.Expr) and isinstance(st.value, ast.Call) and dotted(st.value.func) == CLEAR:
                    unconditional_entry_clear = True
                    break
                if any(c in uses for c in ast.walk(st)):
                    break
                if isinstance(st, (ast.If, ast.For, ast.While)) and any(isinstance(x, (ast.Continue, ast.Break)) for x in ast.walk(st)):
                    break
        info[p] = {"uses": uses, "clears": clears, "entry_clear": unconditional_entry_clear, "loop": gloop}
    users = [p for p in order if info[p]["uses"]]
    chk.floor(rule, "passes that use the join-search memo", len(users), 2)
    def cleared_right_before(m: ast.FunctionDef, use: ast.Call) -> bool:
        """Is the lookup preceded, in its own statement list, by a clear of the memo with no statement in between that could fill it?"""
        for blk in ast.walk(m):
            for field in ("body", "orelse", "finalbody"):
                stmts = getattr(blk, field, None)
                if not isinstance(stmts, list):
                    continue
                for i, st in enumerate(stmts):
                    if isinstance(st, ast.stmt) and any(x is use for x in ast.walk(st)):
                        prev = stmts[i - 1] if i > 0 else None
                        if isinstance(prev, ast.Expr) and isinstance(prev.value, ast.Call) and dotted(prev.value.func) == CLEAR:
                            return True
        return False

    unprotected = []
    for p in users:
        if info[p]["entry_clear"]:
            continue
        for u in info[p]["uses"]:
            if dotted(u.func) == USE and not cleared_right_before(gm.methods[p], u):
                unprotected.append((p, u))
            elif dotted(u.func) != USE:
                unprotected.append((p, u))  # a helper that looks the memo up: protected only by an entry clear
    if users:
        last = users[-1]
        later = order[order.index(last) + 1:]
        ok = any(info[p]["entry_clear"] for p in later) or not unprotected
        f = Func(gm.mod, gm, gm.methods[last])
        chk.extra.setdefault("memo", {})["readers_without_a_clear_before_them"] = [f"{p}:{u.lineno}" for p, u in unprotected]
        chk.decide(rule, "memo:cleared-after-last-use", ok, f,
                   (f"`{norm(unprotected[0][1])[:60]}` in {unprotected[0][0]} reads the memo without clearing it first, and " if unprotected else "") +
                   f"{last} is the last pass that stores join-search results in the process-wide memo, and no later pass clears every graph "
                   f"unconditionally (later passes: {later}): the entries survive convert(); CPython recycles the id() of the dead graph, so a later "
                   "decompilation can read them and produce different text for the same input", f"cleared for every graph by a later pass ({[p for p in later if info[p]['entry_clear']]})")
    # mutate-and-use loops
    for p in order:
        m = gm.methods[p]
        f = Func(gm.mod, gm, m)
        for lp in walk_no_nested(m):
            if not isinstance(lp, ast.For) or "self._graphs" in norm(lp.iter):
                continue
            body_calls = [c for st in lp.body for c in ast.walk(st) if isinstance(c, ast.Call)]
            u = [c for c in body_calls if dotted(c.func) == USE]
            if not u:
                continue
            mut = [c for c in body_calls if isinstance(c.func, ast.Attribute) and c.func.attr in GRAPH_MUTATORS]
            if not mut:
                continue
            name = f"{gm.name}.{p}"
            # CLR before USE inside the iteration: a direct statement of the loop body (or of the enclosing if-chain) preceding the use
            cfg = build_cfg(m)
            dom = cfg.dominators()
            ust = stmt_of(cfg, u[0])
            clr_stmts = [stmt_of(cfg, c) for c in body_calls if dotted(c.func) == CLEAR]
            inside_before = any(cs is not None and ust is not None and cfg.dominates(cs, ust, dom) and cs is not ust for cs in clr_stmts)
            key = f"memo:clear-before-use:{name}"
            if inside_before:
                chk.hold(rule, key, f, "memo cleared in every iteration before it is used", node=lp)
            elif name in MEMO_LOOP_EXCEPTIONS:
                chk.hold(rule, key, f, f"accepted exception: {MEMO_LOOP_EXCEPTIONS[name]}", node=lp)
            else:
                chk.violation(rule, key, f,
                              f"the loop over `{norm(lp.iter)}` in {p} rewrites the graph ({norm(mut[0])[:50]}...) and asks the join-search memo in the "
                              "same iteration, but does not clear the memo before the lookup: edge ids are renumbered by the rewrites, so a later "
                              "iteration is answered with the result stored for other edges", node=u[0])
