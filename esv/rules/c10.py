"""C10 — compilation fails only in documented ways and rejects meaningless programs."""

from __future__ import annotations

import ast
from typing import Any, Callable

from ..engine import astq
from ..engine.calls import RaiseAnalysis, Esc
from ..engine.cfg import build_cfg, stmt_of
from ..engine.loader import AnalysisError, Func, dotted, norm, walk_no_nested
from ..engine.report import Check, fkey

COMPILER = "explorerscript.ssb_converting.ssb_compiler"
ALLOWED = ("ParseError", "SsbCompilerError", "ValueError")
CH = "explorerscript.ssb_converting.compiler.compile_handlers"


def is_narrowing(test: ast.AST) -> bool:
    """assert x is not None / isinstance(x, T) / id(a) == id(b) / not isinstance(...) and conjunctions: type-checker aids and stack sanity."""
    if isinstance(test, ast.BoolOp):
        return all(is_narrowing(v) for v in test.values)
    if isinstance(test, ast.UnaryOp) and isinstance(test.op, ast.Not):
        return is_narrowing(test.operand)
    if isinstance(test, ast.Compare) and len(test.ops) == 1:
        if isinstance(test.ops[0], (ast.Is, ast.IsNot)):
            return True
        if isinstance(test.left, ast.Call) and dotted(test.left.func) == "id":
            return True
        if isinstance(test.left, ast.Call) and dotted(test.left.func) == "len":
            return False
    if isinstance(test, ast.Call) and dotted(test.func) == "isinstance":
        return True
    if isinstance(test, (ast.Name, ast.Attribute)):
        return True
    return False


def validation_assert(cg: Any) -> Callable[[Func, ast.Assert], bool]:
    def policy(f: Func, n: ast.Assert) -> bool:
        t = n.test
        if is_narrowing(t):
            return False
        # asserts whose condition calls an in-repo predicate or measures input-dependent lengths
        for c in ast.walk(t):
            if isinstance(c, ast.Call):
                d = dotted(c.func)
                if d and d not in ("isinstance", "id", "len", "type"):
                    r = cg.repo.resolve(f.mod, d)
                    if r and r[0] == "func":
                        return True
        return False
    return policy


def _enclosing_ifs(fn: ast.FunctionDef, node: ast.AST) -> list[tuple[ast.If, bool]]:
    """(if statement, in_then_branch) for every `if` that encloses node."""
    out: list[tuple[ast.If, bool]] = []

    def visit(body: list[ast.stmt], acc: list[tuple[ast.If, bool]]) -> bool:
        for st in body:
            if st is node or (not isinstance(st, (ast.If, ast.For, ast.While, ast.With, ast.Try)) and any(x is node for x in ast.walk(st))):
                out.extend(acc)
                return True
            if isinstance(st, ast.If):
                if visit(st.body, acc + [(st, True)]) or visit(st.orelse, acc + [(st, False)]):
                    return True
            elif isinstance(st, (ast.For, ast.While, ast.With)):
                if visit(st.body, acc) or visit(getattr(st, "orelse", []), acc):
                    return True
            elif isinstance(st, ast.Try):
                if visit(st.body, acc) or any(visit(h.body, acc) for h in st.handlers) or visit(st.orelse, acc) or visit(st.finalbody, acc):
                    return True
        return False

    visit(fn.body, [])
    return out


def _raises_in(f: Func) -> list[tuple[ast.Raise, str]]:
    out = []
    for n in walk_no_nested(f.node):
        if isinstance(n, ast.Raise) and n.exc is not None:
            e = n.exc
            name = dotted(e.func) if isinstance(e, ast.Call) else dotted(e)
            if name:
                out.append((n, name.split(".")[-1]))
    return out


def _len_guard_true_when_empty(test: ast.AST, attr: str) -> bool | None:
    """Is the guard true for an empty self.<attr> and false for a one-element one?"""
    def sub(v: int) -> Any:
        class T(ast.NodeTransformer):
            def visit_Call(self, node: ast.Call) -> ast.AST:
                if dotted(node.func) == "len" and node.args and astq.self_attr(node.args[0]) == attr:
                    return ast.Constant(v)
                return self.generic_visit(node)

            def visit_Attribute(self, node: ast.Attribute) -> ast.AST:
                if astq.self_attr(node) == attr:
                    return ast.List(elts=[ast.Constant(0)] * v, ctx=ast.Load())
                return node
        import copy
        e = ast.fix_missing_locations(ast.Expression(T().visit(copy.deepcopy(test))))
        try:
            return bool(eval(compile(e, "<guard>", "eval"), {"__builtins__": {"len": len}}, {}))
        except Exception:
            return None
    a, b = sub(0), sub(1)
    if a is None or b is None:
        return None
    return a is True and b is False


def run(chk: Check, ctx: Any) -> None:
    repo = ctx.repo
    cg = ctx.callgraph
    chk.explanation = (
        "Decides for all inputs: (R1) no exception class that is raised explicitly (or by an input-validating assert, or by int()/next()/"
        "list.index()/json.loads()) anywhere under ExplorerScriptSsbCompiler.compile can leave it unless it is ParseError, SsbCompilerError "
        "or a ValueError — taking into account that compile() re-raises the *root* of the __context__ chain, so a class that is caught and "
        "converted inside a handler still counts; (R2) each documented rejection has its raise site with an allowed class under a guard "
        "that is true exactly in the rejected situation; (R3) the trailing-label loop cannot index an emptied list; (R4) loop and case "
        "stacks are popped on every normal exit of the collect() that pushed; (R5) import targets must be regular files; (R6) the SsbScript "
        "parse listener's failures are turned into ParseError when syntax errors were recorded; (R7) the macros-only check inspects the "
        "parsed tree. Implicit exceptions (AttributeError/TypeError/IndexError of arbitrary expressions) are not decided in general."
        " (R8, interpreter-based) compile() is evaluated on the meaningless and degenerate program shapes named by the specification."
    )
    chk.assumptions = ["narrowing asserts (`is not None`, `isinstance`, stack identity checks) do not fire", "ANTLR runtime raises nothing but what the error listener records"]
    chk.rule("C10-R1", "roots of the exception classes escaping compile() are within {ParseError, SsbCompilerError, ValueError and subclasses}")
    chk.rule("C10-R2", "every documented rejection has a raise of an allowed class under the right guard")
    chk.rule("C10-R3", "a loop that shrinks a list while testing list[-1] also tests that the list is not empty")
    chk.rule("C10-R4", "every add_loop/add_switch_case is followed by its remove_* on every path to a normal exit of the same method")
    chk.rule("C10-R5", "an import candidate is accepted only if it is a regular file (os.path.isfile), so that open() cannot be given a directory")
    chk.rule("C10-R6", "exceptions of the SsbScript parse listener are converted to ParseError when the error listener recorded syntax errors")
    chk.rule("C10-R8", "each statically meaningless program shape of the specification is rejected with SsbCompilerError/ValueError, and degenerate valid programs "
                       "(label-only routines, empty blocks, aliases, decimal targets) compile or fail with a documented error: whole compiler interpreted on the text")
    chk.rule("C10-R7", "the routines-in-imported-file check visits the tree that was parsed (not a second parse of the consumed token stream)")

    compile_f = repo.func(f"{COMPILER}:ExplorerScriptSsbCompiler.compile")

    # ------------------------------------------------------------------ R1
    ra = RaiseAnalysis(cg, validation_assert(cg))
    ra.analyse([compile_f])
    esc = ra.body_escapes(compile_f, compile_f.node.body, None)
    reach = cg.reachable([compile_f])
    chk.extra["functions_under_compile"] = len(reach)
    chk.extra["call_sites_resolved"] = sum(len(cg.sites(f)) for f in reach.values())
    chk.floor("C10-R1", "functions reachable from compile()", len(reach), 200)
    by_root: dict[str, list[Esc]] = {}
    for e in esc:
        by_root.setdefault(e.cls, []).append(e)  # what the caller of compile() sees (roots matter only through the unwrap handler)
    chk.floor("C10-R1", "distinct escaping root classes", len(by_root), 2)
    for root, es in sorted(by_root.items()):
        sup = cg.exc_supers(root)
        ok = any(a in sup for a in ALLOWED)
        sites = sorted({e.site for e in es})
        key = f"compile:escapes:{root}"
        if ok:
            chk.hold("C10-R1", key, compile_f, f"{root} is documented ({len(sites)} raise sites)", facts={"sites": sites[:6]})
        else:
            # AssertionError is converted inside the region; outside it escapes
            chk.violation("C10-R1", key, compile_f,
                          f"{root} can leave compile() (as the root of the exception context chain); it is not ParseError, SsbCompilerError or "
                          f"ValueError. Raised at: {'; '.join(sites[:4])}" + (" ..." if len(sites) > 4 else ""), facts={"sites": sites[:12]})

    # ------------------------------------------------------------------ R2
    def want_raise(rule_key: str, spec: str, guard: Callable[[ast.If, bool], bool | None], what: str, min_sites: int = 1,
                   classes: tuple[str, ...] = ("SsbCompilerError", "ValueError")) -> None:
        try:
            f = repo.func(spec)
        except AnalysisError as e:
            chk.unknown("C10-R2", rule_key, ("", 0), str(e))
            return
        good = 0
        wrong_cls: list[str] = []
        for r, cname in _raises_in(f):
            ifs = _enclosing_ifs(f.node, r)
            if any(guard(i, b) for i, b in ifs):
                if any(a in cg.exc_supers(cname) for a in classes):
                    good += 1
                else:
                    wrong_cls.append(cname)
        if wrong_cls:
            chk.violation("C10-R2", rule_key, f, f"{what}: rejected with {wrong_cls[0]}, which is not a documented exception type")
        elif good >= min_sites:
            chk.hold("C10-R2", rule_key, f, f"{what}: {good} guarded raise site(s)")
        else:
            chk.violation("C10-R2", rule_key, f, f"{what}: no raise of SsbCompilerError/ValueError under the expected guard in {f.short} "
                                                  "(the program would be accepted or fail differently)")

    def txt_guard(*needles: str, branch: bool | None = True) -> Callable[[ast.If, bool], bool | None]:
        def g(i: ast.If, b: bool) -> bool | None:
            t = norm(i.test)
            return all(n in t for n in needles) and (branch is None or b == branch)
        return g

    utils = "explorerscript.ssb_converting.compiler.utils"
    for meth, attr, what in (("continue_loop", "_loops", "continue outside a loop"), ("break_loop", "_loops", "break_loop outside a loop"),
                             ("break_case", "_switch_cases", "break outside a switch case")):
        want_raise(f"stray:{meth}", f"{utils}:CompilerCtx.{meth}",
                   lambda i, b, attr=attr: b and _len_guard_true_when_empty(i.test, attr) is True, what)
    want_raise("undefined-label", "explorerscript.ssb_converting.compiler.label_jump_to_remover:OpsLabelJumpToRemover.__init__",
               lambda i, b: b and isinstance(i.test, ast.Compare) and isinstance(i.test.ops[0], ast.NotIn) and "label_offsets" in norm(i.test),
               "jump or call to an undefined label")
    sw = f"{CH}.blocks.switches.switch_block:SwitchBlockCompileHandler"
    want_raise("switch-ends-in-empty-case", f"{sw}.collect",
               lambda i, b: b and "cases_waiting_for_a_block" in norm(i.test) and "len(" in norm(i.test) and "> 0" in norm(i.test).replace(">= 1", "> 0"),
               "switch ending in an empty case")
    want_raise("two-defaults:switch", f"{sw}.add", txt_guard("_default_handler is not None"), "two defaults in a switch")
    want_raise("string-case-in-switch", f"{sw}.collect", lambda i, b: b and norm(i.test).endswith(".is_message_case") and not norm(i.test).startswith("not"),
               "string case in an ordinary switch")
    ms = f"{CH}.blocks.switches.message_switch:MessageSwitchCompileHandler"
    want_raise("two-defaults:message-switch", f"{ms}.add", txt_guard("_default_handler is not None"), "two defaults in a message switch")
    want_raise("statement-in-message-switch", f"{ms}.collect", lambda i, b: b and norm(i.test).startswith("not ") and norm(i.test).endswith(".is_message_case"),
               "statements inside a message switch", min_sites=2)
    want_raise("label-in-with", f"{CH}.blocks.ctxs.ctx_block:CtxBlockCompileHandler.add", txt_guard("isinstance(obj, LabelCompileHandler)"),
               "label inside a with-block")
    want_raise("not-on-bit", f"{CH}.blocks.ifs.header.bit:IfHeaderBitCompileHandler.collect",
               lambda i, b: ("not is_simple_positive" in norm(i.test) and b) or ("is_simple_positive" in norm(i.test) and "not" not in norm(i.test) and not b),
               "`not` on a bit test of an ordinary variable")
    want_raise("unknown-macro", f"{CH}.operations.macro_call:MacroCallCompileHandler.collect",
               lambda i, b: b and isinstance(i.test, ast.Compare) and isinstance(i.test.ops[0], ast.NotIn) and "macros" in norm(i.test), "unknown macro")
    want_raise("macro-cycle", "explorerscript.ssb_converting.compiler.compiler_visitor.macro_resolution_order:MacroResolutionOrderVisitor._check_cycles",
               lambda i, b: b and "any(" in norm(i.test), "recursive macros", min_sites=2)
    want_raise("too-few-macro-arguments", "explorerscript.macro:ExplorerScriptMacro.build",
               lambda i, b: b and isinstance(i.test, ast.Compare) and isinstance(i.test.ops[0], ast.NotIn) and "parameters" in norm(i.test),
               "too few macro arguments")
    want_raise("missing-import", f"{COMPILER}:ExplorerScriptSsbCompiler._resolve_imported_file",
               lambda i, b: b and ("not os.path." in norm(i.test) or "abs_path is None" in norm(i.test)), "missing import", min_sites=2)
    want_raise("cyclic-import", f"{COMPILER}:ExplorerScriptSsbCompiler.compile",
               lambda i, b: b and isinstance(i.test, ast.Compare) and isinstance(i.test.ops[0], ast.In) and "recursion_check" in norm(i.test), "cyclic imports")
    want_raise("routines-in-import", f"{COMPILER}:ExplorerScriptSsbCompiler.compile",
               lambda i, b: b and "HasRoutinesVisitor" in norm(i.test), "routines in an imported file")

    # cycle check is actually invoked before the order is returned
    vs = repo.func("explorerscript.ssb_converting.compiler.compiler_visitor.macro_resolution_order:MacroResolutionOrderVisitor.visitStart")
    called = [c for c in walk_no_nested(vs.node) if isinstance(c, ast.Call) and dotted(c.func) == "self._check_cycles"]
    rets = astq.returns_of(vs.node)
    chk.decide("C10-R2", "macro-cycle:invoked", bool(called) and all(called[0].lineno < r.lineno for r in rets), vs,
               "visitStart does not run the cycle check before returning the resolution order: recursive macros are not rejected", "cycle check before return")
    # recursion guard precedes the recursive compile and the chain is extended
    cyc = [i for r, _c in _raises_in(compile_f) for i, b in _enclosing_ifs(compile_f.node, r) if "recursion_check" in norm(i.test)]
    sub = [c for c in walk_no_nested(compile_f.node) if isinstance(c, ast.Call) and isinstance(c.func, ast.Attribute) and c.func.attr == "compile"
           and "macros_only" in [k.arg for k in c.keywords]]
    if cyc and sub:
        chk.decide("C10-R2", "cyclic-import:before-recursion", cyc[0].lineno < sub[0].lineno, compile_f,
                   "the import-cycle test comes after the recursive compile of the sub-file", "cycle test precedes recursion")
        ctor = [c for c in walk_no_nested(compile_f.node) if isinstance(c, ast.Call) and any(k.arg == "recursion_check" for k in c.keywords)]
        ok = bool(ctor) and any(k.arg == "recursion_check" and "self.recursion_check" in norm(k.value) and "file_name" in norm(k.value)
                                for k in ctor[0].keywords)
        chk.decide("C10-R2", "cyclic-import:chain-extended", ok, compile_f,
                   "the sub-compiler is not given recursion_check + [file_name]: an import cycle is not detected", "chain extended with the importing file")
    else:
        chk.unknown("C10-R2", "cyclic-import:before-recursion", compile_f, "recursion guard / recursive compile not found")

    # ------------------------------------------------------------------ R3
    sl = repo.func("explorerscript.ssb_converting.compiler.utils:strip_last_label")
    n_w = 0
    for w in walk_no_nested(sl.node):
        if not isinstance(w, ast.While):
            continue
        subs = [s for s in ast.walk(w.test) if isinstance(s, ast.Subscript) and isinstance(s.value, ast.Name) and astq.const_index(s) in (-1, 0)]
        for s in subs:
            lname = s.value.id  # type: ignore[union-attr]
            shrinks = any((isinstance(n, ast.Delete) and any(isinstance(t, ast.Subscript) and norm(t.value) == lname for t in n.targets)) or
                          (isinstance(n, ast.Call) and isinstance(n.func, ast.Attribute) and n.func.attr in ("pop", "remove", "clear")
                           and norm(n.func.value) == lname) for n in ast.walk(w))
            if not shrinks:
                continue
            n_w += 1
            t = norm(w.test)
            guarded = isinstance(w.test, ast.BoolOp) and isinstance(w.test.op, ast.And) and any(
                norm(v) in (f"len({lname}) > 0", f"len({lname}) >= 1", f"len({lname}) != 0", lname, f"len({lname})") for v in w.test.values[:1])
            chk.decide("C10-R3", fkey(sl, None, f"while:{lname}[{astq.const_index(s)}]"), guarded, sl,
                       f"`while {t}` indexes {lname}[{astq.const_index(s)}] although the loop body removes elements: a routine that consists only of "
                       "labels empties the list and the next test raises IndexError", "emptiness tested first", node=w)
    chk.floor("C10-R3", "list-shrinking while loops in strip_last_label", n_w, 1)
    # while <list>[<counter>] ...: the body advances the counter, so the test must bound it by the list's length first
    n_c = 0
    for f in sorted(reach.values(), key=lambda x: x.qual):
        for w in walk_no_nested(f.node):
            if not isinstance(w, ast.While):
                continue
            for sub in ast.walk(w.test):
                if not (isinstance(sub, ast.Subscript) and isinstance(sub.value, ast.Name) and isinstance(sub.slice, ast.Name)):
                    continue
                lname, cname = sub.value.id, sub.slice.id
                advances = any(isinstance(n, ast.AugAssign) and isinstance(n.target, ast.Name) and n.target.id == cname and isinstance(n.op, ast.Add) for n in ast.walk(w))
                if not advances:
                    continue
                n_c += 1
                bounded = isinstance(w.test, ast.BoolOp) and isinstance(w.test.op, ast.And) and any(
                    norm(v) in (f"{cname} < len({lname})", f"len({lname}) > {cname}") for v in w.test.values
                    if v.end_lineno is not None and (v.lineno, v.col_offset) < (sub.lineno, sub.col_offset))
                in_try = any(isinstance(t, ast.Try) and any(x is w for b in t.body for x in ast.walk(b)) and any(
                    h.type is None or (dotted(h.type) or "") in ("IndexError", "LookupError", "Exception") for h in t.handlers) for t in walk_no_nested(f.node))
                chk.decide("C10-R3", fkey(f, w, f"while:{lname}[{cname}]"), bounded or in_try, f,
                           f"`while {norm(w.test)[:70]}` reads {lname}[{cname}] while the body advances {cname}, without testing {cname} < len({lname}) first: when every "
                           "element satisfies the condition the index runs off the end and IndexError leaves compile() (e.g. a source that consists only of "
                           "`//?:` attribute lines)", "counter bounded before the list is indexed", node=w)
    chk.extra["counter_indexed_while_loops"] = n_c

    # ------------------------------------------------------------------ R4
    n_pairs = 0
    for f in repo.all_funcs():
        if not f.mod.name.startswith(CH):
            continue
        for push, pop in (("add_loop", "remove_loop"), ("add_switch_case", "remove_switch_case")):
            pushes = [c for c in walk_no_nested(f.node) if isinstance(c, ast.Call) and isinstance(c.func, ast.Attribute) and c.func.attr == push
                      and "compiler_ctx" in norm(c.func.value)]
            if not pushes:
                continue
            n_pairs += 1
            cfg = build_cfg(f.node)
            pst = stmt_of(cfg, pushes[0])

            def is_pop(n: object, pop: str = pop) -> bool:
                return isinstance(n, ast.stmt) and any(isinstance(c, ast.Call) and isinstance(c.func, ast.Attribute) and c.func.attr == pop
                                                       for c in ast.walk(n) if not isinstance(n, (ast.If, ast.For, ast.While, ast.Try, ast.With))
                                                       or c in ast.walk(getattr(n, "test", getattr(n, "iter", n))))
            leak = pst is not None and cfg.path_avoiding(pst, cfg.exit, is_pop)
            chk.decide("C10-R4", fkey(f, None, push), (not leak) if pst is not None else None, f,
                       f"{f.short} can return after {push}() without calling {pop}(): the finished block stays on the compiler's stack, so a later "
                       f"stray `{'continue/break_loop' if 'loop' in push else 'break'}` is accepted and bound to it", f"{pop} on every normal exit",
                       node=pushes[0])
    chk.floor("C10-R4", "handlers that push a loop/case", n_pairs, 5)

    # ------------------------------------------------------------------ R5
    rf = repo.func(f"{COMPILER}:ExplorerScriptSsbCompiler._resolve_imported_file")
    probes = [c for c in walk_no_nested(rf.node) if isinstance(c, ast.Call) and dotted(c.func) and dotted(c.func).startswith("os.path.")  # type: ignore[union-attr]
              and dotted(c.func).split(".")[-1] in ("exists", "isfile", "isdir", "lexists")]  # type: ignore[union-attr]
    chk.floor("C10-R5", "existence probes in _resolve_imported_file", len(probes), 2)
    for c in probes:
        kind = dotted(c.func).split(".")[-1]  # type: ignore[union-attr]
        chk.decide("C10-R5", fkey(rf, c), kind == "isfile", rf,
                   f"`{norm(c)}` accepts directories: `import \".\";` reaches open() and raises IsADirectoryError (an OSError, not a documented type)",
                   "regular files only", node=c)

    # ------------------------------------------------------------------ R6
    sc = repo.func("explorerscript.ssb_script.ssb_converting.ssb_compiler:SsbScriptSsbCompiler.compile")
    has_listener = any(isinstance(c, ast.Call) and isinstance(c.func, ast.Attribute) and c.func.attr == "addParseListener" for c in walk_no_nested(sc.node))
    starts = [c for c in walk_no_nested(sc.node) if isinstance(c, ast.Call) and isinstance(c.func, ast.Attribute) and c.func.attr == "start"]
    if has_listener and starts:
        tries = [t for t in walk_no_nested(sc.node) if isinstance(t, ast.Try) and any(x is starts[0] for st in t.body for x in ast.walk(st))]
        ok = False
        for t in tries:
            for h in t.handlers:
                types = [dotted(e) for e in (h.type.elts if isinstance(h.type, ast.Tuple) else [h.type])] if h.type is not None else [None]
                broad = h.type is None or any(x in ("Exception", "BaseException") for x in types)
                conv = any(isinstance(r, ast.Raise) and isinstance(r.exc, ast.Call) and dotted(r.exc.func) == "ParseError" for r in ast.walk(h))
                cond = any(isinstance(i, ast.If) and "syntax_errors" in norm(i.test) for i in ast.walk(h))
                if broad and conv and cond:
                    ok = True
        chk.decide("C10-R6", "ssbscript:listener-guard", ok, sc,
                   "the compiler listener runs as a parse listener on the incomplete contexts of ANTLR's error recovery, but its exceptions "
                   "(TypeError/AttributeError on missing children) are not converted to ParseError when syntax errors were recorded",
                   "listener failures -> ParseError when syntax errors exist", node=starts[0])
    elif not has_listener:
        chk.hold("C10-R6", "ssbscript:listener-guard", sc, "no parse listener is attached (tree is checked before it is walked)")
    else:
        chk.unknown("C10-R6", "ssbscript:listener-guard", sc, "parser.start() not found")

    # ------------------------------------------------------------------ R7
    trees = {n.targets[0].id for n in walk_no_nested(compile_f.node) if isinstance(n, ast.Assign) and isinstance(n.targets[0], ast.Name)
             and isinstance(n.value, ast.Call) and isinstance(n.value.func, ast.Attribute) and n.value.func.attr == "read"}
    hv = [c for c in walk_no_nested(compile_f.node) if isinstance(c, ast.Call) and isinstance(c.func, ast.Attribute) and c.func.attr == "visit"
          and isinstance(c.func.value, ast.Call) and dotted(c.func.value.func) == "HasRoutinesVisitor"]
    if not hv:
        chk.unknown("C10-R7", "has-routines:tree", compile_f, "HasRoutinesVisitor().visit(...) not found")
    else:
        a = hv[0].args[0] if hv[0].args else None
        ok = isinstance(a, ast.Name) and a.id in trees
        bad = isinstance(a, ast.Call) and isinstance(a.func, ast.Attribute) and a.func.attr == "start"
        chk.decide("C10-R7", "has-routines:tree", True if ok else False if bad else None, compile_f,
                   f"the check visits `{norm(a) if a is not None else None}`: parsing again from the consumed token stream yields an empty tree, so routines in "
                   "an imported file are never seen", "visits the parsed tree", node=hv[0])

    # ------------------------------------------------------------------ R8
    from .c01 import rejection_forms
    n = rejection_forms(chk, ctx, "C10-R8", None, degenerate=True)
    from .macros import reject_projects
    n += reject_projects(chk, ctx, "C10-R8")
    chk.floor("C10-R8", "meaningless / degenerate programs compiled abstractly", n, 35)
