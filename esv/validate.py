"""python3-vt -m esv.validate — validates MANIFEST.json and evidence files against the schemas (needs jsonschema: tooling venv)."""
import glob
import json
import sys

import jsonschema

m = json.load(open("/verif/MANIFEST.json"))
jsonschema.validate(m, json.load(open("/root/.vp/MANIFEST.schema.json")))
es = json.load(open("/root/.vp/EVIDENCE.schema.json"))
bad = 0
for c in m["checks"]:
    f = c["evidence_file"]
    try:
        ev = json.load(open(f))
        jsonschema.validate(ev, es)
        if ev["level"] != c["level_claimed"]["category"]:
            print("LEVEL MISMATCH", f, ev["level"], c["level_claimed"]["category"]); bad += 1
        if ev["level"] == "proof" and ev["coverage"]["obligations"] != ev["coverage"]["discharged"]:
            print("PROOF NOT DISCHARGED", f); bad += 1
    except Exception as e:
        print("INVALID", f, str(e)[:300]); bad += 1
print("manifest valid;", len(m["checks"]), "checks;", bad, "problems")
sys.exit(1 if bad else 0)
