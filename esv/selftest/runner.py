"""Self-test of the checkers: every variant is a scratch copy of the repository with one edit.

  mutant   a behaviour-breaking edit; the listed property's check must exit 1 and name the rule
  revert   one of the repository's `fix:` commits reversed (the defect the check once found must be found again)
  seed     a confirmed seeded change from /verif/seeded (patch.diff); at least one check must exit 1
  twin     a behaviour-preserving edit (rename, reformat, helper variable, moved line numbers); every check must stay silent (exit 0)

Usage: python -m esv.selftest.runner [--only SUBSTR] [--kinds mutant,twin,...] [--jobs N] [--all-checks] [--write]
Writes /verif/selftest_matrix.json with --write.  Exit 1 when a mutant/revert/seed is missed or a twin raises an alarm.
"""

from __future__ import annotations

import argparse
import json
import os
import re
import shutil
import subprocess
import sys
import tempfile
import time
from concurrent.futures import ThreadPoolExecutor
from pathlib import Path
from typing import Any

VERIF = Path(__file__).resolve().parents[2]
REPO = Path(os.environ.get("ESV_REPO", "/repo"))
PY = sys.executable
ALL = [f"C{i:02d}" for i in range(1, 19)]


def sh(cmd: list[str], cwd: str | None = None, env: dict[str, str] | None = None, timeout: int = 1800) -> tuple[int, str]:
    p = subprocess.run(cmd, cwd=cwd, env=env, capture_output=True, text=True, timeout=timeout)
    return p.returncode, p.stdout + p.stderr


def make_scratch() -> Path:
    d = Path(tempfile.mkdtemp(prefix="esv-st-"))
    for sub in ("explorerscript", "docs"):
        shutil.copytree(REPO / sub, d / sub, ignore=shutil.ignore_patterns("__pycache__", "*.pyc"))
    return d


def run_checks(root: Path, props: list[str], tier: str = "quick") -> dict[str, dict[str, Any]]:
    env = dict(os.environ, ESV_REPO=str(root), ESV_EVIDENCE_DIR=str(root / "_evidence"), PYTHONPATH=str(VERIF))
    if os.environ.get("ESV_ST_WORKERS"):
        env["ESV_WORKERS"] = os.environ["ESV_ST_WORKERS"]
    out: dict[str, dict[str, Any]] = {}
    for p in props:
        rc, txt = sh([PY, "-m", "esv", "check", p, "--tier", tier], cwd=str(VERIF), env=env)
        vl = [ln for ln in txt.splitlines() if re.match(r"^(explorerscript|docs)\S*:\d+ ", ln) and re.search(r" C\d\d-R\d+ \[", ln)]
        rules = sorted({re.search(r" (C\d\d-R\d+) \[", ln).group(1) for ln in vl})  # type: ignore[union-attr]
        first = vl[0] if vl else ""
        unk = [ln for ln in txt.splitlines() if ln.startswith("ANALYSIS-ERROR")]
        out[p] = {"exit": rc, "rules": rules, "first": first[:300], "analysis_error": unk[:1]}
    return out


def apply_variant(root: Path, v: dict[str, Any]) -> str | None:
    if "edits" in v:
        for rel, old, new in v["edits"]:
            p = root / rel
            s = p.read_text(encoding="utf-8")
            if old not in s:
                return f"{rel}: anchor text not found: {old[:60]!r}"
            p.write_text(s.replace(old, new, 1), encoding="utf-8")
    if "transform" in v:
        err = v["transform"](root)
        if err:
            return str(err)
    if "patch" in v:
        rc, out = sh(["git", "apply", "--whitespace=nowarn", str(v["patch"])], cwd=str(root))
        if rc != 0:
            return "patch does not apply: " + out[-200:]
    if "revert" in v:
        rc, diff = sh(["git", "-C", str(REPO), "diff", v["revert"], v["revert"] + "^", "--", "explorerscript"])
        if rc != 0:
            return "git diff failed"
        pf = root / "_revert.diff"
        pf.write_text(diff)
        rc, out = sh(["git", "apply", "--whitespace=nowarn", str(pf)], cwd=str(root))
        pf.unlink()
        if rc != 0:
            return "revert does not apply on the current tree (later commits touch the same lines)"
    return None


def run_variant(v: dict[str, Any], all_checks: bool) -> dict[str, Any]:
    t0 = time.time()
    root = make_scratch()
    try:
        err = apply_variant(root, v)
        if err:
            return {"id": v["id"], "kind": v["kind"], "status": "not-applicable", "why": err}
        # the edited tree must still be importable source
        rc, out = sh([PY, "-m", "compileall", "-q", str(root / "explorerscript")])
        if rc != 0:
            return {"id": v["id"], "kind": v["kind"], "status": "broken-variant", "why": out[-300:]}
        if v["kind"] == "twin" or all_checks:
            props = ALL
        else:
            props = list(v.get("props") or ALL)
        res = run_checks(root, props)
        fired = {p: r for p, r in res.items() if r["exit"] == 1}
        errs = {p: r for p, r in res.items() if r["exit"] not in (0, 1)}
        rec: dict[str, Any] = {"id": v["id"], "kind": v["kind"], "what": v.get("what", ""), "checked": props,
                               "fired": {p: r["rules"] for p, r in fired.items()}, "analysis_errors": {p: r["analysis_error"] for p, r in errs.items()},
                               "wall_s": round(time.time() - t0, 1)}
        if v["kind"] == "twin":
            rec["status"] = "ok" if not fired and not errs else "FALSE-ALARM"
            if fired:
                rec["first"] = {p: r["first"] for p, r in fired.items()}
        else:
            want = v.get("props")
            want_rule = v.get("rule")
            hit = [p for p in fired if (not want or p in want)]
            if v["kind"] == "seed":
                hit = list(fired)
            ok = bool(hit) and (want_rule is None or any(want_rule in fired[p]["rules"] for p in hit))
            # an exit-2 (analysis broken) on a mutant is fail-closed: counted as detected-but-undiagnosed
            if not ok and errs and (not want or any(p in errs for p in want)):
                rec["status"] = "fail-closed"
            else:
                rec["status"] = "caught" if ok else "MISSED"
        return rec
    finally:
        shutil.rmtree(root, ignore_errors=True)


def variants() -> list[dict[str, Any]]:
    from .variants import MUTANTS, TWINS
    out: list[dict[str, Any]] = []
    for m in MUTANTS:
        out.append(dict(m, kind="mutant"))
    for t in TWINS:
        out.append(dict(t, kind="twin"))
    kf = json.load(open(VERIF / "known_findings.json"))["findings"]
    seen: set[str] = set()
    for f in kf:
        m = re.match(r"fixed: property=(C\d\d) ([0-9a-f]{7,40}) ", f.get("status", ""))
        if not m:
            continue
        key = f"{m.group(2)}"
        vid = f"revert-{m.group(2)}-{f['rule']}"
        if vid in seen:
            continue
        seen.add(vid)
        out.append({"id": vid, "kind": "revert", "revert": m.group(2), "props": [m.group(1)], "rule": f["rule"], "what": f["what"][:160] if "what" in f else ""})
    for d in sorted((VERIF / "seeded").glob("C*-*")):
        if (d / "patch.diff").exists():
            meta = json.load(open(d / "meta.json"))
            props = sorted(set([meta.get("property", d.name[:3])] + list((meta.get("caught_by") or {}).keys())))
            out.append({"id": f"seed-{d.name}", "kind": "seed", "patch": d / "patch.diff", "props": props, "what": meta.get("summary", "")[:160]})
    return out


def main(argv: list[str] | None = None) -> int:
    ap = argparse.ArgumentParser()
    ap.add_argument("--only", default="")
    ap.add_argument("--kinds", default="mutant,revert,seed,twin")
    ap.add_argument("--jobs", type=int, default=8)
    ap.add_argument("--all-checks", action="store_true")
    ap.add_argument("--write", action="store_true")
    a = ap.parse_args(argv)
    kinds = set(a.kinds.split(","))
    vs = [v for v in variants() if v["kind"] in kinds and a.only in v["id"]]
    os.environ.setdefault("ESV_ST_WORKERS", "4")
    t0 = time.time()
    with ThreadPoolExecutor(a.jobs) as ex:
        recs = list(ex.map(lambda v: run_variant(v, a.all_checks), vs))
    bad = 0
    for r in recs:
        st = r["status"]
        line = f"{st:15s} {r['kind']:7s} {r['id']:45s} " + (",".join(f"{p}:{'/'.join(x[4:] for x in rs)}" for p, rs in r.get("fired", {}).items()) or r.get("why", ""))
        print(line[:240])
        if st in ("MISSED", "FALSE-ALARM", "broken-variant"):
            bad += 1
            if r.get("first"):
                print("      ", r["first"])
            if r.get("analysis_errors"):
                print("      ", r["analysis_errors"])
    summary: dict[str, int] = {}
    for r in recs:
        summary[f"{r['kind']}:{r['status']}"] = summary.get(f"{r['kind']}:{r['status']}", 0) + 1
    print(f"== selftest variants={len(recs)} wall={time.time() - t0:.0f}s " + " ".join(f"{k}={v}" for k, v in sorted(summary.items())))
    if a.write:
        for r in recs:
            r.pop("wall_s", None)
        json.dump({"summary": summary, "variants": recs}, open(VERIF / "selftest_matrix.json", "w"), indent=1, sort_keys=True, default=str)
    return 1 if bad else 0


if __name__ == "__main__":
    sys.exit(main())
