"""A model of the part of python-igraph's Graph API the repository uses (directed multigraphs with attributes).

igraph is an external C library; the decompiler's graph passes are written against its exact semantics, above all:
vertex/edge handles are *positions* (deleting compacts the sequences, so a handle kept across a deletion names another element or
none), `incident`/`in_edges`/`out_edges` are ordered by the other endpoint (not by insertion), attributes exist graph-wide
(unset = None, unknown name = KeyError).  The model is differential-tested against the real library by
/verif/witness/migraph_diff.py (a triage script, not part of any check).
"""

from __future__ import annotations

from typing import Any, Iterator

OUT, IN, ALL = 1, 2, 3
_MODES = {"out": OUT, "in": IN, "all": ALL, OUT: OUT, IN: IN, ALL: ALL}


class MGraphError(Exception):
    """An error raised by the library (igraph's InternalError / ValueError / KeyError); .kind is the Python class name."""

    def __init__(self, kind: str, msg: str) -> None:
        super().__init__(msg)
        self.kind = kind
        self.msg = msg


def _mode(m: Any) -> int:
    if isinstance(m, str):
        m = m.lower()
    if m not in _MODES:
        raise MGraphError("ValueError", f"no such mode: {m!r}")
    return _MODES[m]


class MVertex:
    def __init__(self, g: "MGraph", index: int) -> None:
        self.graph = g
        self._i = index

    @property
    def index(self) -> int:
        return self._i

    def _check(self) -> None:
        if not (0 <= self._i < len(self.graph._v)):
            raise MGraphError("ValueError", "Vertex object refers to a nonexistent vertex")

    def __eq__(self, o: object) -> bool:
        return isinstance(o, MVertex) and o.graph is self.graph and o._i == self._i

    def __ne__(self, o: object) -> bool:
        return not self.__eq__(o)

    def __hash__(self) -> int:
        return hash((self.graph.uid, self._i, "v"))  # not the address: verdicts must not depend on memory layout

    def __getitem__(self, k: str) -> Any:
        self._check()
        if k not in self.graph._vattrs:
            raise MGraphError("KeyError", "Attribute does not exist")
        return self.graph._v[self._i].get(k)

    def __setitem__(self, k: str, val: Any) -> None:
        self._check()
        if k not in self.graph._vattrs:
            self.graph._vattrs.append(k)
        self.graph._v[self._i][k] = val

    def attributes(self) -> dict[str, Any]:
        self._check()
        return {k: self.graph._v[self._i].get(k) for k in self.graph._vattrs}

    def attribute_names(self) -> list[str]:
        return list(self.graph._vattrs)

    def update_attributes(self, *a: Any, **kw: Any) -> None:
        for d in a:
            for k, v in dict(d).items():
                self[k] = v
        for k, v in kw.items():
            self[k] = v

    def out_edges(self) -> list["MEdge"]:
        self._check()
        return [MEdge(self.graph, i) for i in self.graph.incident(self, OUT)]

    def in_edges(self) -> list["MEdge"]:
        self._check()
        return [MEdge(self.graph, i) for i in self.graph.incident(self, IN)]

    def all_edges(self) -> list["MEdge"]:
        self._check()
        return [MEdge(self.graph, i) for i in self.graph.incident(self, ALL)]

    def successors(self) -> list["MVertex"]:
        return [MVertex(self.graph, self.graph._e[i][1]) for i in self.graph.incident(self, OUT)]

    def predecessors(self) -> list["MVertex"]:
        return [MVertex(self.graph, self.graph._e[i][0]) for i in self.graph.incident(self, IN)]

    def degree(self, mode: Any = ALL) -> int:
        return len(self.graph.incident(self, mode))

    def indegree(self) -> int:
        return len(self.graph.incident(self, IN))

    def outdegree(self) -> int:
        return len(self.graph.incident(self, OUT))

    def __repr__(self) -> str:
        return f"<vertex {self._i}>"


class MEdge:
    def __init__(self, g: "MGraph", index: int) -> None:
        self.graph = g
        self._i = index

    @property
    def index(self) -> int:
        return self._i

    def _check(self) -> None:
        if not (0 <= self._i < len(self.graph._e)):
            raise MGraphError("ValueError", "Edge object refers to a nonexistent edge")

    def __eq__(self, o: object) -> bool:
        return isinstance(o, MEdge) and o.graph is self.graph and o._i == self._i

    def __ne__(self, o: object) -> bool:
        return not self.__eq__(o)

    def __hash__(self) -> int:
        return hash((self.graph.uid, self._i, "e"))

    @property
    def source(self) -> int:
        self._check()
        return self.graph._e[self._i][0]

    @property
    def target(self) -> int:
        self._check()
        return self.graph._e[self._i][1]

    @property
    def tuple(self) -> tuple[int, int]:
        self._check()
        return (self.graph._e[self._i][0], self.graph._e[self._i][1])

    @property
    def source_vertex(self) -> MVertex:
        return MVertex(self.graph, self.source)

    @property
    def target_vertex(self) -> MVertex:
        return MVertex(self.graph, self.target)

    def __getitem__(self, k: str) -> Any:
        self._check()
        if k not in self.graph._eattrs:
            raise MGraphError("KeyError", "Attribute does not exist")
        return self.graph._e[self._i][2].get(k)

    def __setitem__(self, k: str, val: Any) -> None:
        self._check()
        if k not in self.graph._eattrs:
            self.graph._eattrs.append(k)
        self.graph._e[self._i][2][k] = val

    def attributes(self) -> dict[str, Any]:
        self._check()
        return {k: self.graph._e[self._i][2].get(k) for k in self.graph._eattrs}

    def attribute_names(self) -> list[str]:
        return list(self.graph._eattrs)

    def update_attributes(self, *a: Any, **kw: Any) -> None:
        for d in a:
            for k, v in dict(d).items():
                self[k] = v
        for k, v in kw.items():
            self[k] = v

    def delete(self) -> None:
        self._check()
        self.graph.delete_edges(self._i)

    def __repr__(self) -> str:
        return f"<edge {self._i}>"


class _Seq:
    """g.vs / g.es: a live view (length is read at every step of an iteration, as in the library)."""

    def __init__(self, g: "MGraph", kind: str) -> None:
        self.graph = g
        self.kind = kind

    def _n(self) -> int:
        return len(self.graph._v) if self.kind == "v" else len(self.graph._e)

    def _h(self, i: int) -> Any:
        return MVertex(self.graph, i) if self.kind == "v" else MEdge(self.graph, i)

    def __len__(self) -> int:
        return self._n()

    def __iter__(self) -> Iterator[Any]:
        i = 0
        while i < self._n():
            yield self._h(i)
            i += 1

    def __getitem__(self, k: Any) -> Any:
        if isinstance(k, bool):
            raise MGraphError("TypeError", "bad index")
        if isinstance(k, int):
            n = self._n()
            if k < 0:
                k += n
            if not (0 <= k < n):
                raise MGraphError("IndexError", f"{'vertex' if self.kind == 'v' else 'edge'} index out of range")
            return self._h(k)
        if isinstance(k, str):
            tab = self.graph._v if self.kind == "v" else [e[2] for e in self.graph._e]
            names = self.graph._vattrs if self.kind == "v" else self.graph._eattrs
            if k not in names:
                raise MGraphError("KeyError", "Attribute does not exist")
            return [d.get(k) for d in tab]
        if isinstance(k, (list, tuple, set, frozenset)):
            return [self[i.index if isinstance(i, (MVertex, MEdge)) else i] for i in k]
        if isinstance(k, slice):
            return [self._h(i) for i in range(*k.indices(self._n()))]
        raise MGraphError("TypeError", f"unsupported index {k!r}")


_graph_uid = iter(range(1, 1 << 62))


class MGraph:
    def __init__(self, n: int = 0, edges: Any = None, directed: bool = False, **kw: Any) -> None:
        if not directed:
            raise MGraphError("Unsupported", "undirected graphs are not modelled")
        self.uid = 10_000_000 + next(_graph_uid)  # what id(graph) evaluates to: never reused, so the evaluation is deterministic
        self._v: list[dict[str, Any]] = [dict() for _ in range(n)]
        self._e: list[tuple[int, int, dict[str, Any]]] = []
        self._vattrs: list[str] = []
        self._eattrs: list[str] = []
        for s, t in (edges or []):
            self.add_edge(s, t)

    # ------------------------------------------------------------------ views
    @property
    def vs(self) -> _Seq:
        return _Seq(self, "v")

    @property
    def es(self) -> _Seq:
        return _Seq(self, "e")

    def vcount(self) -> int:
        return len(self._v)

    def ecount(self) -> int:
        return len(self._e)

    def is_directed(self) -> bool:
        return True

    # ------------------------------------------------------------------ ids
    def _vid(self, x: Any) -> int:
        if isinstance(x, MVertex):
            x._check()
            return x._i
        if isinstance(x, bool):
            raise MGraphError("TypeError", "only numbers, strings or igraph.Vertex objects can be converted to vertex IDs")
        if isinstance(x, int):
            if not (0 <= x < len(self._v)):
                raise MGraphError("ValueError", f"vertex IDs must be positive, got: {x}" if x < 0 else f"no such vertex: {x}")
            return x
        if isinstance(x, str):
            for i, d in enumerate(self._v):
                if d.get("name") == x:
                    return i
            raise MGraphError("ValueError", f"no such vertex: {x!r}")
        raise MGraphError("TypeError", "only numbers, strings or igraph.Vertex objects can be converted to vertex IDs")

    def _eids(self, x: Any) -> list[int]:
        if x is None:
            return list(range(len(self._e)))
        if isinstance(x, MEdge):
            x._check()
            return [x._i]
        if isinstance(x, bool):
            raise MGraphError("TypeError", "bad edge id")
        if isinstance(x, int):
            if not (0 <= x < len(self._e)):
                raise MGraphError("ValueError", f"no such edge: {x}")
            return [x]
        if isinstance(x, _Seq):
            return list(range(len(self._e)))
        out: list[int] = []
        for y in x:
            if isinstance(y, tuple) and len(y) == 2:
                out.append(self.get_eid(y[0], y[1]))
            else:
                out.extend(self._eids(y))
        return out

    # ------------------------------------------------------------------ construction
    def add_vertex(self, name: Any = None, **kw: Any) -> MVertex:
        self._v.append({})
        v = MVertex(self, len(self._v) - 1)
        if name is not None:
            v["name"] = name
        for k, val in kw.items():
            v[k] = val
        return v

    def add_vertices(self, n: Any) -> None:
        if isinstance(n, int):
            for _ in range(n):
                self._v.append({})
        else:
            for nm in n:
                self.add_vertex(nm)

    def add_edge(self, source: Any, target: Any, **kw: Any) -> MEdge:
        s, t = self._vid(source), self._vid(target)
        self._e.append((s, t, {}))
        e = MEdge(self, len(self._e) - 1)
        for k, val in kw.items():
            e[k] = val
        return e

    def add_edges(self, es: Any) -> None:
        for s, t in es:
            self.add_edge(s, t)

    def delete_edges(self, x: Any = None) -> None:
        ids = set(self._eids(x))
        self._e = [e for i, e in enumerate(self._e) if i not in ids]

    def delete_vertices(self, x: Any = None) -> None:
        if x is None:
            ids = set(range(len(self._v)))
        elif isinstance(x, (MVertex, int, str)) and not isinstance(x, bool):
            ids = {self._vid(x)}
        else:
            ids = {self._vid(y) for y in x}
        remap: dict[int, int] = {}
        nv = []
        for i, d in enumerate(self._v):
            if i not in ids:
                remap[i] = len(nv)
                nv.append(d)
        self._v = nv
        self._e = [(remap[s], remap[t], a) for s, t, a in self._e if s in remap and t in remap]

    def copy(self) -> "MGraph":
        g = MGraph(directed=True)
        g._v = [dict(d) for d in self._v]
        g._e = [(s, t, dict(a)) for s, t, a in self._e]
        g._vattrs = list(self._vattrs)
        g._eattrs = list(self._eattrs)
        return g

    # ------------------------------------------------------------------ queries
    def incident(self, vertex: Any, mode: Any = OUT) -> list[int]:
        v = self._vid(vertex)
        m = _mode(mode)
        # ordered by the other endpoint; edges with the same endpoints come in descending id order (the library's index sort)
        outs = sorted(((t, -i) for i, (s, t, _a) in enumerate(self._e) if s == v))
        ins = sorted(((s, -i) for i, (s, t, _a) in enumerate(self._e) if t == v))
        if m == OUT:
            return [-i for _t, i in outs]
        if m == IN:
            return [-i for _s, i in ins]
        # ALL: merge of the two lists by the other endpoint; on equal endpoints one out-edge, then one in-edge
        res: list[int] = []
        a = b = 0
        while a < len(outs) and b < len(ins):
            if outs[a][0] < ins[b][0]:
                res.append(-outs[a][1])
                a += 1
            elif outs[a][0] > ins[b][0]:
                res.append(-ins[b][1])
                b += 1
            else:
                res.append(-outs[a][1])
                res.append(-ins[b][1])
                a += 1
                b += 1
        res.extend(-i for _t, i in outs[a:])
        res.extend(-i for _s, i in ins[b:])
        return res

    def neighbors(self, vertex: Any, mode: Any = ALL) -> list[int]:
        v = self._vid(vertex)
        m = _mode(mode)
        outs = sorted(t for (s, t, _a) in self._e if s == v)
        ins = sorted(s for (s, t, _a) in self._e if t == v)
        if m == OUT:
            return outs
        if m == IN:
            return ins
        return sorted(outs + ins)

    def successors(self, vertex: Any) -> list[int]:
        return self.neighbors(vertex, OUT)

    def predecessors(self, vertex: Any) -> list[int]:
        return self.neighbors(vertex, IN)

    def are_adjacent(self, v1: Any, v2: Any) -> bool:
        a, b = self._vid(v1), self._vid(v2)
        return any(s == a and t == b for s, t, _x in self._e)

    are_connected = are_adjacent

    def get_eid(self, v1: Any, v2: Any, directed: bool = True, error: bool = True) -> int:
        a, b = self._vid(v1), self._vid(v2)
        # with parallel edges the library answers with the highest id among the edges a -> b, and only if there is none (and the
        # direction is to be ignored) with the highest id among b -> a (measured on 3 000 random multigraphs, witness/migraph_diff.py)
        fwd = [i for i, (s, t, _x) in enumerate(self._e) if s == a and t == b]
        if fwd:
            return fwd[-1]
        if not directed:
            bwd = [i for i, (s, t, _x) in enumerate(self._e) if s == b and t == a]
            if bwd:
                return bwd[-1]
        if error:
            raise MGraphError("InternalError", "Cannot get edge ID, no such edge")
        return -1

    def bfsiter(self, vid: Any, mode: Any = OUT, advanced: bool = False) -> Any:
        start = self._vid(vid)
        m = _mode(mode)
        seen = {start}
        order = [(start, 0, None)]
        q = [(start, 0)]
        while q:
            v, d = q.pop(0)
            for w in self.neighbors(v, m):
                if w not in seen:
                    seen.add(w)
                    order.append((w, d + 1, v))
                    q.append((w, d + 1))
        if advanced:
            return iter([(MVertex(self, v), d, MVertex(self, p) if p is not None else None) for v, d, p in order])
        return iter([MVertex(self, v) for v, _d, _p in order])

    def get_all_simple_paths(self, v: Any, to: Any = None, cutoff: int = -1, mode: Any = OUT) -> list[list[int]]:
        start = self._vid(v)
        m = _mode(mode)
        if to is None:
            targets = None
        elif isinstance(to, (MVertex, int, str)) and not isinstance(to, bool):
            targets = {self._vid(to)}
        else:
            targets = {self._vid(x) for x in to}
        out: list[list[int]] = []
        path = [start]
        on = {start}

        def rec() -> None:
            if cutoff >= 0 and len(path) - 1 >= cutoff:
                return
            for w in sorted(set(self.neighbors(path[-1], m))):
                if w in on:
                    continue
                path.append(w)
                on.add(w)
                if targets is None or w in targets:
                    out.append(list(path))
                rec()
                on.discard(w)
                path.pop()
        rec()
        return out

    def get_shortest_paths(self, v: Any, to: Any = None, weights: Any = None, mode: Any = OUT, output: str = "vpath") -> list[list[int]]:
        if weights is not None or output != "vpath":
            raise MGraphError("Unsupported", "weighted / epath shortest paths are not modelled")
        start = self._vid(v)
        m = _mode(mode)
        parent: dict[int, int | None] = {start: None}
        q = [start]
        while q:
            x = q.pop(0)
            # the library walks the incident edges (ordered by the other endpoint)
            for w in self.neighbors(x, m):
                if w not in parent:
                    parent[w] = x
                    q.append(w)
        if to is None:
            tgts = list(range(len(self._v)))
        elif isinstance(to, (MVertex, int, str)) and not isinstance(to, bool):
            tgts = [self._vid(to)]
        else:
            tgts = [self._vid(x) for x in to]
        res = []
        for t in tgts:
            if t not in parent:
                res.append([])
                continue
            p = [t]
            while parent[p[-1]] is not None:
                p.append(parent[p[-1]])  # type: ignore[arg-type]
            res.append(list(reversed(p)))
        return res

    def is_dag(self) -> bool:
        try:
            return len(self._topo()) == len(self._v)
        except MGraphError:
            return False

    def _topo(self, mode: int = OUT) -> list[int]:
        n = len(self._v)
        deg = [0] * n
        for s, t, _a in self._e:
            if mode == OUT:
                deg[t] += 1
            else:
                deg[s] += 1
        q = [i for i in range(n) if deg[i] == 0]
        out = []
        while q:
            x = q.pop(0)
            out.append(x)
            for w in self.neighbors(x, mode):
                deg[w] -= 1
                if deg[w] == 0:
                    q.append(w)
        return out

    def topological_sorting(self, mode: Any = OUT) -> list[int]:
        out = self._topo(_mode(mode))
        if len(out) != len(self._v):
            raise MGraphError("InternalError", "The graph has cycles; topological sorting is only possible in acyclic graphs")
        return out
