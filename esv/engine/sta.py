"""Sequence-template analysis: program skeletons -> abstract compilation -> flow graph, and the specified flow graph.

A *skeleton* is a small abstract program: control constructs with symbolic leaves (every leaf op and every test has a
unique name).  ``AbstractCompiler`` builds the handler tree the statement visitor would build for it (handlers are added
to their parents in grammar order) and evaluates the handlers' ``collect()`` and the label post-passes with the abstract
interpreter.  ``spec_graph`` gives the flow graph the language specification assigns to the same skeleton.
``bisimilar`` compares both as deterministic labelled transition systems in which plain jumps are silent.
"""

from __future__ import annotations

from dataclasses import dataclass, field
from typing import Any, Iterator

from .absint import Interp, AObj, ACtx, Tok, ClassVal, PyExc, Unsupported, EnumVal
from .loader import Repo, AnalysisError

CH = "explorerscript.ssb_converting.compiler.compile_handlers"
UTILS = "explorerscript.ssb_converting.compiler.utils"

# --------------------------------------------------------------------------- skeleton AST


@dataclass
class Plain:
    name: str


@dataclass
class Ctl:
    kind: str  # return | end | hold | continue | break | break_loop


@dataclass
class Jump:
    label: str


@dataclass
class Call:
    label: str


@dataclass
class Label:
    name: str


@dataclass
class Hdr:
    """One condition `$V<k> == <k>` (unique k)."""
    k: int


@dataclass
class If:
    neg: bool
    hdrs: list[Hdr]
    body: list[Any]
    elifs: list[tuple[bool, list[Hdr], list[Any]]] = field(default_factory=list)
    els: list[Any] | None = None


@dataclass
class Case:
    values: list[int]  # case headers sharing this body position (each its own single_case_block; all but the last have empty bodies)
    body: list[Any]


@dataclass
class Default:
    body: list[Any]


@dataclass
class Switch:
    k: int
    items: list[Any]  # Case | Default in source order


@dataclass
class Forever:
    body: list[Any]


@dataclass
class While:
    neg: bool
    hdr: Hdr
    body: list[Any]


@dataclass
class For:
    init: Plain
    hdr: Hdr
    incr: Plain
    body: list[Any]


@dataclass
class With:
    kind: str  # actor | object | performer
    stmt: Any


def show(stmts: list[Any], ind: int = 0) -> str:
    out = []
    for s in stmts:
        out.append(_show1(s))
    return " ".join(out)


def _hd(neg: bool, hs: list[Hdr]) -> str:
    return ("not " if neg else "") + "(" + " || ".join(f"$V{h.k} == {h.k}" for h in hs) + ")"


def _show1(s: Any) -> str:
    if isinstance(s, Plain):
        return f"{s.name}();"
    if isinstance(s, Ctl):
        return f"{s.kind};"
    if isinstance(s, Jump):
        return f"jump @{s.label};"
    if isinstance(s, Call):
        return f"call @{s.label};"
    if isinstance(s, Label):
        return f"§{s.name};"
    if isinstance(s, If):
        t = f"if {_hd(s.neg, s.hdrs)} {{ {show(s.body)} }}"
        for n, h, b in s.elifs:
            t += f" elseif {_hd(n, h)} {{ {show(b)} }}"
        if s.els is not None:
            t += f" else {{ {show(s.els)} }}"
        return t
    if isinstance(s, Switch):
        t = f"switch ($S{s.k}) {{ "
        for it in s.items:
            if isinstance(it, Default):
                t += f"default: {show(it.body)} "
            else:
                for v in it.values[:-1]:
                    t += f"case {v}: "
                t += f"case {it.values[-1]}: {show(it.body)} "
        return t + "}"
    if isinstance(s, Forever):
        return f"forever {{ {show(s.body)} }}"
    if isinstance(s, While):
        return f"while {_hd(s.neg, [s.hdr])} {{ {show(s.body)} }}"
    if isinstance(s, For):
        return f"for ({_show1(s.init)} $V{s.hdr.k} == {s.hdr.k}; {_show1(s.incr)}) {{ {show(s.body)} }}"
    if isinstance(s, With):
        return f"with ({s.kind} 7) {{ {_show1(s.stmt)} }}"
    return "?"


# --------------------------------------------------------------------------- flow graphs


@dataclass
class Node:
    label: str  # observable identity; "" for silent
    kind: str  # op | test | stop | silent
    nxt: Any = None  # successor (op/silent)
    t: Any = None  # taken successor (test)
    f: Any = None  # fall-through successor (test)
    uid: int = 0


class Graph:
    def __init__(self) -> None:
        self.nodes: list[Node] = []
        self.stop = self.mk("STOP", "stop")

    def mk(self, label: str, kind: str, **kw: Any) -> Node:
        n = Node(label, kind, uid=len(self.nodes), **kw)
        self.nodes.append(n)
        return n


def _skip(n: Node, seen: set[int] | None = None) -> Node | None:
    """Follow silent nodes; None = silent cycle (divergence)."""
    seen = seen or set()
    while n.kind == "silent":
        if n.uid in seen:
            return None
        seen.add(n.uid)
        if n.nxt is None:
            raise AnalysisError("unresolved silent node")
        n = n.nxt
    return n


def bisimilar(a: Node, b: Node) -> tuple[bool, str]:
    """Both graphs deterministic: equal labels along all outcome sequences."""
    seen: set[tuple[int, int]] = set()
    todo = [(a, b, "entry")]
    while todo:
        x, y, path = todo.pop()
        xs, ys = _skip(x), _skip(y)
        if xs is None or ys is None:
            if xs is None and ys is None:
                continue
            return False, f"{path}: one side loops silently forever, the other reaches {(xs or ys).label}"  # type: ignore[union-attr]
        if (xs.uid, ys.uid) in seen:
            continue
        seen.add((xs.uid, ys.uid))
        if xs.kind != ys.kind or xs.label != ys.label:
            return False, f"{path}: compiled code performs {xs.label or xs.kind}, the specification says {ys.label or ys.kind}"
        if xs.kind == "op":
            todo.append((xs.nxt, ys.nxt, f"{path} > {xs.label}"))
        elif xs.kind == "test":
            todo.append((xs.t, ys.t, f"{path} > {xs.label}=T"))
            todo.append((xs.f, ys.f, f"{path} > {xs.label}=F"))
    return True, ""


# --------------------------------------------------------------------------- specification semantics

FLOW_END = {"return": "Return", "end": "End", "hold": "Hold"}


class SpecError(Exception):
    """The specification rejects the program (statically meaningless)."""


def spec_graph(routines: list[list[Any]]) -> tuple[Graph, list[Node]]:
    g = Graph()
    labels: dict[str, Node] = {}
    for r in routines:
        for name in _labels_in(r):
            if name not in labels:
                labels[name] = g.mk("", "silent")
    defined: set[str] = set()

    def test_label(h: Hdr) -> str:
        return f"Branch[$V{h.k},{h.k}]"

    def seq(stmts: list[Any], nxt: Node, cx: dict[str, Any]) -> Node:
        cur = nxt
        for s in reversed(stmts):
            cur = one(s, cur, cx)
        return cur

    def cond(neg: bool, hdrs: list[Hdr], into: Node, skip: Node) -> Node:
        """Test headers left to right; positive: first true enters; negative: first true skips."""
        cur = skip if not neg else into
        for h in reversed(hdrs):
            cur = g.mk(test_label(h), "test", t=(into if not neg else skip), f=cur)
        return cur

    def one(s: Any, nxt: Node, cx: dict[str, Any]) -> Node:
        if isinstance(s, Plain):
            return g.mk(s.name, "op", nxt=nxt)
        if isinstance(s, Ctl):
            if s.kind in FLOW_END:
                if s.kind == "return":
                    return g.stop  # Return == leaving the routine
                return g.mk(FLOW_END[s.kind], "op", nxt=g.stop)
            key = {"continue": "continue", "break_loop": "break_loop", "break": "break"}[s.kind]
            if cx.get(key) is None:
                raise SpecError(f"{s.kind} outside of its construct")
            return cx[key]
        if isinstance(s, Jump):
            return labels[s.label]
        if isinstance(s, Call):
            return g.mk("Call", "test", t=labels[s.label], f=nxt)
        if isinstance(s, Label):
            if s.name in defined:
                raise SpecError("label defined twice")
            defined.add(s.name)
            labels[s.name].nxt = nxt
            return labels[s.name]
        if isinstance(s, If):
            # alternatives from last to first
            after = nxt
            alt = seq(s.els, after, cx) if s.els is not None else after
            for neg, hdrs, body in reversed(s.elifs):
                alt = cond(neg, hdrs, seq(body, after, cx), alt)
            return cond(s.neg, s.hdrs, seq(s.body, after, cx), alt)
        if isinstance(s, Switch):
            after = nxt
            if not s.items:
                return g.mk(f"Switch[$S{s.k}]", "op", nxt=after)
            last = s.items[-1]
            if (isinstance(last, Case) and not last.body) or (isinstance(last, Default) and not last.body):
                raise SpecError("switch ends in an empty case")
            if sum(isinstance(i, Default) for i in s.items) > 1:
                raise SpecError("two defaults")
            cx2 = dict(cx, **{"break": after})
            # bodies in source order with fall-through
            entry_of: list[Node] = [None] * len(s.items)  # type: ignore[list-item]
            cur = after
            for i in range(len(s.items) - 1, -1, -1):
                it = s.items[i]
                if it.body:
                    cur = seq(it.body, cur, cx2)
                entry_of[i] = cur  # empty body: shares the next non-empty body
            default_entry = after
            for i, it in enumerate(s.items):
                if isinstance(it, Default):
                    default_entry = entry_of[i]
            chain = default_entry
            tests: list[tuple[int, Node]] = []
            for i, it in enumerate(s.items):
                if isinstance(it, Case):
                    for v in it.values:
                        tests.append((v, entry_of[i]))
            for v, tgt in reversed(tests):
                chain = g.mk(f"Case[{v}]", "test", t=tgt, f=chain)
            return g.mk(f"Switch[$S{s.k}]", "op", nxt=chain)
        if isinstance(s, Forever):
            head = g.mk("", "silent")
            cx2 = dict(cx, **{"continue": head, "break_loop": nxt})
            head.nxt = seq(s.body, head, cx2)
            return head
        if isinstance(s, While):
            head = g.mk("", "silent")
            cx2 = dict(cx, **{"continue": head, "break_loop": nxt})
            body = seq(s.body, head, cx2)
            head.nxt = cond(s.neg, [s.hdr], body, nxt)
            return head
        if isinstance(s, For):
            test = g.mk("", "silent")
            incr = g.mk(s.incr.name, "op", nxt=test)
            cx2 = dict(cx, **{"continue": incr, "break_loop": nxt})
            body = seq(s.body, incr, cx2)
            test.nxt = cond(False, [s.hdr], body, nxt)
            return g.mk(s.init.name, "op", nxt=test)
        if isinstance(s, With):
            opn = {"actor": "lives", "object": "object", "performer": "performer"}[s.kind]
            if isinstance(s.stmt, Label):
                raise SpecError("label in with")
            if isinstance(s.stmt, Ctl) and s.stmt.kind in FLOW_END:
                inner = g.mk(FLOW_END[s.stmt.kind], "op", nxt=nxt)  # ends the script of the actor; the routine goes on
            else:
                inner = one(s.stmt, nxt, cx)
            return g.mk(f"{opn}[7]", "op", nxt=inner)
        raise AnalysisError(f"skeleton statement {s!r}")

    entries = []
    for r in routines:
        entries.append(seq(r, g.stop, {}))
    for name, n in labels.items():
        if name not in defined:
            raise SpecError(f"label {name} is not defined")
    return g, entries


def _labels_in(stmts: list[Any]) -> Iterator[str]:
    for s in stmts:
        if isinstance(s, (Jump, Call)):
            yield s.label
        elif isinstance(s, Label):
            yield s.name
        elif isinstance(s, If):
            yield from _labels_in(s.body)
            for _n, _h, b in s.elifs:
                yield from _labels_in(b)
            if s.els is not None:
                yield from _labels_in(s.els)
        elif isinstance(s, Switch):
            for it in s.items:
                yield from _labels_in(it.body)
        elif isinstance(s, (Forever, While, For)):
            yield from _labels_in(s.body)
        elif isinstance(s, With):
            yield from _labels_in([s.stmt])


# --------------------------------------------------------------------------- abstract compilation


class AbstractCompiler:
    def __init__(self, repo: Repo, fold: Any) -> None:
        self.repo = repo
        self.fold = fold
        self.I = Interp(repo, fold)
        f = repo.find_class
        self.cls = {n: f(n) for n in (
            "CompilerCtx", "Counter", "SourceMapBuilder", "SimpleDefCompileHandler", "OperationCompileHandler", "ControlStatementCompileHandler",
            "JumpCompileHandler", "CallCompileHandler", "LabelCompileHandler", "IfBlockCompileHandler", "ElseIfBlockCompileHandler", "ElseBlockCompileHandler",
            "IfHeaderCompileHandler", "IfHeaderOperatorCompileHandler", "IntegerLikeCompileHandler", "ConditionalOperatorCompileHandler",
            "SwitchBlockCompileHandler", "SwitchHeaderCompileHandler", "CaseBlockCompileHandler", "DefaultCaseBlockCompileHandler", "CaseHeaderCompileHandler",
            "ForeverBlockCompileHandler", "WhileBlockCompileHandler", "ForBlockCompileHandler", "CtxBlockCompileHandler", "LabelFinalizer",
            "OpsLabelJumpToRemover")}
        self.line = 1

    def ctx(self, rule: str, tokens: dict[str, Any] | None = None, subs: dict[str, Any] | None = None) -> ACtx:
        self.line += 1
        return ACtx(rule, tokens, subs, line=self.line, column=4)

    def h(self, cname: str, ctx: ACtx, cc: AObj, **kw: Any) -> AObj:
        return self.I.new(self.cls[cname], ctx, cc, **kw)

    def add(self, parent: AObj, child: AObj) -> None:
        m = self.repo.find_method(parent.cls, "add")
        if m is None:
            raise Unsupported(f"{parent.cls.name}.add")
        self.I.call_func(m, [parent, child], {})

    def int_like(self, cc: AObj, tok: str, text: str) -> AObj:
        return self.h("IntegerLikeCompileHandler", self.ctx("integer_like", {tok: Tok(text)}), cc)

    def header(self, cc: AObj, hd: Hdr) -> AObj:
        ih = self.h("IfHeaderCompileHandler", self.ctx("if_header"), cc)
        op = self.h("IfHeaderOperatorCompileHandler", self.ctx("if_h_op"), cc)
        self.add(op, self.int_like(cc, "VARIABLE", f"$V{hd.k}"))
        self.add(op, self.h("ConditionalOperatorCompileHandler", self.ctx("conditional_operator", {"OP_EQ": Tok("==")}), cc))
        self.add(op, self.int_like(cc, "INTEGER", str(hd.k)))
        self.add(ih, op)
        return ih

    def stmts(self, parent: AObj, cc: AObj, body: list[Any]) -> None:
        for s in body:
            self.add(parent, self.stmt(cc, s))

    def stmt(self, cc: AObj, s: Any) -> AObj:
        if isinstance(s, Plain):
            return self.h("OperationCompileHandler", self.ctx("operation", {"IDENTIFIER": Tok(s.name)}, {"inline_ctx": None}), cc)
        if isinstance(s, Ctl):
            return self.h("ControlStatementCompileHandler", self.ctx("cntrl_stmt", {s.kind.upper(): Tok(s.kind)}), cc)
        if isinstance(s, Jump):
            return self.h("JumpCompileHandler", self.ctx("jump", {"IDENTIFIER": Tok(s.label)}), cc)
        if isinstance(s, Call):
            return self.h("CallCompileHandler", self.ctx("call", {"IDENTIFIER": Tok(s.label)}), cc)
        if isinstance(s, Label):
            return self.h("LabelCompileHandler", self.ctx("label", {"IDENTIFIER": Tok(s.name)}), cc)
        if isinstance(s, If):
            ib = self.h("IfBlockCompileHandler", self.ctx("if_block", {"NOT": Tok("not")} if s.neg else {}), cc)
            for hd in s.hdrs:
                self.add(ib, self.header(cc, hd))
            self.stmts(ib, cc, s.body)
            for neg, hdrs, body in s.elifs:
                eb = self.h("ElseIfBlockCompileHandler", self.ctx("elseif_block", {"NOT": Tok("not")} if neg else {}), cc)
                for hd in hdrs:
                    self.add(eb, self.header(cc, hd))
                self.stmts(eb, cc, body)
                self.add(ib, eb)
            if s.els is not None:
                el = self.h("ElseBlockCompileHandler", self.ctx("else_block"), cc)
                self.stmts(el, cc, s.els)
                self.add(ib, el)
            return ib
        if isinstance(s, Switch):
            sb = self.h("SwitchBlockCompileHandler", self.ctx("switch_block"), cc)
            sh = self.h("SwitchHeaderCompileHandler", self.ctx("switch_header"), cc)
            self.add(sh, self.int_like(cc, "VARIABLE", f"$S{s.k}"))
            self.add(sb, sh)
            for it in s.items:
                if isinstance(it, Default):
                    d = self.h("DefaultCaseBlockCompileHandler", self.ctx("default"), cc)
                    self.stmts(d, cc, it.body)
                    self.add(sb, d)
                else:
                    for i, v in enumerate(it.values):
                        cb = self.h("CaseBlockCompileHandler", self.ctx("single_case_block"), cc)
                        chd = self.h("CaseHeaderCompileHandler", self.ctx("case_header"), cc)
                        self.add(chd, self.int_like(cc, "INTEGER", str(v)))
                        self.add(cb, chd)
                        if i == len(it.values) - 1:
                            self.stmts(cb, cc, it.body)
                        self.add(sb, cb)
            return sb
        if isinstance(s, Forever):
            fb = self.h("ForeverBlockCompileHandler", self.ctx("forever_block"), cc)
            self.stmts(fb, cc, s.body)
            return fb
        if isinstance(s, While):
            wb = self.h("WhileBlockCompileHandler", self.ctx("while_block", {"NOT": Tok("not")} if s.neg else {}), cc)
            self.add(wb, self.header(cc, s.hdr))
            self.stmts(wb, cc, s.body)
            return wb
        if isinstance(s, For):
            fb = self.h("ForBlockCompileHandler", self.ctx("for_block"), cc)
            self.add(fb, self.stmt(cc, s.init))
            self.add(fb, self.header(cc, s.hdr))
            self.add(fb, self.stmt(cc, s.incr))
            self.stmts(fb, cc, s.body)
            return fb
        if isinstance(s, With):
            hdr = self.ctx("ctx_header", {"IDENTIFIER": Tok(s.kind)})
            wb = self.h("CtxBlockCompileHandler", self.ctx("ctx_block", {}, {"ctx_header": hdr}), cc)
            self.add(wb, self.int_like(cc, "INTEGER", "7"))
            self.add(wb, self.stmt(cc, s.stmt))
            return wb
        raise AnalysisError(f"skeleton statement {s!r}")

    def compile(self, routines: list[list[Any]]) -> list[list[AObj]]:
        """routine op lists after strip_last_label, LabelFinalizer and OpsLabelJumpToRemover (all interpreted)."""
        I = self.I
        I.steps = 0
        smb = I.new(self.cls["SourceMapBuilder"])
        cc = I.new(self.cls["CompilerCtx"], I.new(self.cls["Counter"]), smb, {}, I.new(self.cls["Counter"]), "$PERF", {})
        routine_ops = []
        for r in routines:
            root = self.h("SimpleDefCompileHandler", self.ctx("simple_def", {"INTEGER": Tok(str(len(routine_ops)))}), cc)
            self.stmts(root, cc, r)
            m = self.repo.find_method(root.cls, "collect")
            res = I.call_func(m, [root], {})  # type: ignore[arg-type]
            if not (isinstance(res, tuple) and len(res) == 2 and isinstance(res[1], list)):
                raise Unsupported("SimpleDefCompileHandler.collect() does not return (routine info, ops)")
            routine_ops.append(res[1])
        self.last_ctx = cc
        ordered = self.repo.func(f"{UTILS}:routine_op_offsets_are_ordered")
        if not I.truth(I.call_func(ordered, [routine_ops], {})):
            raise PyExc("SsbCompilerError", "routine op offsets not ordered")
        strip = self.repo.func(f"{UTILS}:strip_last_label")
        stripped = I.call_func(strip, [routine_ops], {})
        fin = I.new(self.cls["LabelFinalizer"], stripped)
        rem = I.new(self.cls["OpsLabelJumpToRemover"], fin.attrs["routines"], fin.attrs["label_offsets"])
        return rem.attrs["routines"]


CTX_OPS = ("lives", "object", "performer")  # the op after one of these runs in the context of that actor / object / performer


def compiled_graph(I: Interp, routines: list[list[AObj]], branch_ops: set[str], end_ops: set[str], jump_name: str = "Jump") -> tuple[Graph, list[Node]]:
    """Flow graph of compiled op lists on the SSB machine model.  A flow-ending op that directly follows a context op (`with (actor X) { end; }`)
    ends the script of that actor, not the routine: the routine goes on with the next op (language_spec: a with-block "runs a statement in the
    context of an actor"; compiler and decompiler agree, see does_op_end_control_flow)."""
    consts = I.fold.const("explorerscript.ssb_converting.ssb_special_ops:OPS_CTX")
    if tuple(consts) != CTX_OPS:
        raise AnalysisError(f"OPS_CTX of the repository is {consts!r}; the machine model of /verif knows {CTX_OPS!r}")
    g = Graph()
    by_off: dict[int, Node] = {}
    flat: list[tuple[int, AObj, int]] = []
    for ri, r in enumerate(routines):
        for op in r:
            off = op.attrs["offset"]
            if off in by_off:
                raise AnalysisError(f"duplicate offset {off}")
            by_off[off] = g.mk("", "silent")
            flat.append((ri, op, off))
    entries = []
    for ri, r in enumerate(routines):
        entries.append(by_off[r[0].attrs["offset"]] if r else g.stop)
    for idx, (ri, op, off) in enumerate(flat):
        name = op.attrs["op_code"].attrs["name"]
        params = list(op.attrs["params"])
        nxt = by_off[flat[idx + 1][2]] if idx + 1 < len(flat) and flat[idx + 1][0] == ri else g.stop
        n = by_off[off]

        def ptxt(ps: list[Any]) -> str:
            # the value of a parameter, not its printed form (which depends on the layout hint `indent`)
            out = []
            for p in ps:
                if isinstance(p, AObj) and "indent" in p.attrs:
                    out.append(p.cls.name + repr(sorted((k, v if not isinstance(v, dict) else sorted(v.items())) for k, v in p.attrs.items() if k != "indent")))
                else:
                    out.append(I.str_(p))
            return ",".join(out)
        if name == jump_name:
            tgt = params[-1] if params else None
            if not isinstance(tgt, int) or tgt not in by_off:
                raise AnalysisError(f"Jump at {off} has target {tgt!r} which is no op of the result")
            n.nxt = by_off[tgt]
        elif name in branch_ops:
            tgt = params[-1] if params else None
            if not isinstance(tgt, int) or tgt not in by_off:
                raise AnalysisError(f"{name} at {off} has target {tgt!r} which is no op of the result")
            lab = f"{name}[{ptxt(params[:-1])}]" if name != "Call" else None
            if name == "Call":
                lab = None
            real = g.mk(lab or "Call", "test", t=by_off[tgt], f=nxt)
            n.nxt = real
        elif name in end_ops and idx > 0 and flat[idx - 1][0] == ri and flat[idx - 1][1].attrs["op_code"].attrs["name"] in CTX_OPS:
            n.nxt = g.mk(name, "op", nxt=nxt)
        elif name in end_ops:
            if name == "Return":
                n.nxt = g.stop
            else:
                n.nxt = g.mk(name, "op", nxt=g.stop)
        else:
            n.nxt = g.mk(f"{name}[{ptxt(params)}]" if params else name, "op", nxt=nxt)
    return g, entries


# --------------------------------------------------------------------------- generic tree -> handler construction


class TreeCompiler:
    """Builds the handler tree for a grammar parse tree exactly as the statement visitor does (a handler per dispatched rule,
    children visited in order, the finished handler added to its parent) and evaluates collect() abstractly."""

    def __init__(self, repo: Repo, fold: Any, dispatch: dict[str, Any]) -> None:
        self.repo = repo
        self.I = Interp(repo, fold)
        self.dispatch = dispatch
        self._ctx_cache: dict[int, ACtx] = {}
        self._keep: list[Any] = []
        f = repo.find_class
        self.cc_cls = {n: f(n) for n in ("CompilerCtx", "Counter", "SourceMapBuilder")}

    def new_context(self, perf: str) -> AObj:
        I = self.I
        I.steps = 0
        self._ctx_cache = {}
        self._keep = []
        return I.new(self.cc_cls["CompilerCtx"], I.new(self.cc_cls["Counter"]), I.new(self.cc_cls["SourceMapBuilder"]), {}, I.new(self.cc_cls["Counter"]), perf, {})

    def ctx_of(self, node: Any) -> ACtx:
        if id(node) in self._ctx_cache:
            return self._ctx_cache[id(node)]
        tokens: dict[str, list[Tok]] = {}
        subs: dict[str, list[ACtx]] = {}
        c = ACtx(node.rule, tokens, subs)  # type: ignore[arg-type]
        self._ctx_cache[id(node)] = c
        self._keep.append(node)  # ids are only unique while the node lives
        for ch in node.children:
            if hasattr(ch, "rule"):
                subs.setdefault(ch.rule, []).append(self.ctx_of(ch))
            else:
                tokens.setdefault(ch.type, []).append(Tok(ch.text))
        # sub-rule accessors return the single context (or None) unless called with an index: mirror ANTLR
        c.tokens = tokens
        c.subs = {k: (v if len(v) > 1 else v[0]) for k, v in subs.items()}  # type: ignore[assignment]
        return c

    def build(self, node: Any, cc: AObj) -> list[AObj]:
        d = self.dispatch.get(node.rule)
        kids: list[AObj] = []
        if d is not None and d.handler is not None:
            h = self.I.new(d.handler, self.ctx_of(node), cc, **dict(d.kwargs))
            for ch in node.children:
                if hasattr(ch, "rule"):
                    for k in self.build(ch, cc):
                        m = self.repo.find_method(h.cls, "add")
                        self.I.call_func(m, [h, k], {})  # type: ignore[arg-type]
            return [h]
        for ch in node.children:
            if hasattr(ch, "rule"):
                kids.extend(self.build(ch, cc))
        return kids

    def collect(self, h: AObj) -> Any:
        m = self.repo.find_method(h.cls, "collect")
        return self.I.call_func(m, [h], {})  # type: ignore[arg-type]

    def param_repr(self, p: Any) -> str:
        if isinstance(p, bool):
            return str(int(p))
        if isinstance(p, int):
            return str(p)
        if isinstance(p, AObj):
            n = p.cls.name
            if n == "SsbOpParamConstant":
                return f"const:{p.attrs.get('name')}"
            if n == "SsbOpParamConstString":
                return f"str:{p.attrs.get('name')}"
            if n == "SsbOpParamFixedPoint":
                return f"fixed:{p.attrs.get('value')}"
            if n == "SsbOpParamLanguageString":
                return "lang:" + ",".join(f"{k}={v}" for k, v in p.attrs.get("strings", {}).items())
            if n == "SsbOpParamPositionMarker":
                a = p.attrs
                return f"pos:{a.get('name')}:{a.get('x_relative')}+{a.get('x_offset')}:{a.get('y_relative')}+{a.get('y_offset')}"
            return f"<{n}>"
        return repr(p)


# --------------------------------------------------------------------------- whole compiler on source text


class WholeCompiler:
    """Source text -> the grammar's parse tree (engine.g4) -> RoutineVisitor / StatementVisitor / handlers / post-passes, all interpreted.

    Nothing of the compiler is mirrored by hand: visitor dispatch is the parser runtime's protocol (absint), accessor shapes come from the
    grammar's element frequencies, and the steps after the visitor are those of ExplorerScriptSsbCompiler.compile() read from its source."""

    def __init__(self, repo: Repo, fold: Any, grammar: Any) -> None:
        self.repo = repo
        self.fold = fold
        self.g = grammar
        self.I = Interp(repo, fold)
        self._freq: dict[str, dict[str, int]] = {}
        f = repo.find_class
        self.cls = {n: f(n) for n in ("RoutineVisitor", "LabelFinalizer", "OpsLabelJumpToRemover")}

    def freq(self, rule: str) -> dict[str, int]:
        if rule not in self._freq:
            self._freq[rule] = self.g.element_frequencies(rule)
        return self._freq[rule]

    def to_ctx(self, node: Any, text: str, line_starts: list[int]) -> ACtx:
        import bisect

        def pos(p: int) -> tuple[int, int]:
            i = bisect.bisect_right(line_starts, p) - 1
            return i + 1, p - line_starts[i]

        def conv(n: Any) -> Any:
            if hasattr(n, "rule"):
                c = ACtx(n.rule)
                c.freq = self.freq(n.rule)
                c.children = [conv(k) for k in n.children]
                ft, lt = n.first_token(), n.last_token()
                if ft is not None:
                    c.line, c.column = pos(ft.pos)
                    c.stop_line, c.stop_column = pos(lt.pos)
                return c
            ln, col = pos(n.pos)
            return Tok(n.text, n.type, ln, col)
        return conv(node)

    def parse(self, text: str) -> ACtx:
        tree = self.g.parse_text("start", text)
        if tree is None:
            raise SpecError(f"source does not parse: {text[:80]}")
        starts = [0] + [i + 1 for i, ch in enumerate(text) if ch == "\n"]
        return self.to_ctx(tree, text, starts)

    def compile(self, text: str, perf: str = "$PERF") -> dict[str, Any]:
        """{routine_ops, routine_infos, named_coroutines} as compile() leaves them; PyExc for the exception compile() raises."""
        I = self.I
        I.steps = 0
        tree = self.parse(text)
        rv = I.new(self.cls["RoutineVisitor"], perf, {})
        try:
            I.visit_dispatch(rv, tree)
        except PyExc as e:
            if e.cls_name == "AssertionError":
                raise PyExc("ValueError", e.msg, e.where)
            raise
        routine_ops = rv.attrs["routine_ops"]
        ordered = self.repo.func(f"{UTILS}:routine_op_offsets_are_ordered")
        if not I.truth(I.call_func(ordered, [routine_ops], {})):
            raise PyExc("SsbCompilerError", "The routines must be defined in the order of their IDs.")
        strip = self.repo.func(f"{UTILS}:strip_last_label")
        stripped = I.call_func(strip, [routine_ops], {})
        fin = I.new(self.cls["LabelFinalizer"], stripped)
        rem = I.new(self.cls["OpsLabelJumpToRemover"], fin.attrs["routines"], fin.attrs["label_offsets"])
        return {"routine_ops": rem.attrs["routines"], "routine_infos": rv.attrs["routine_infos"], "named_coroutines": rv.attrs["named_coroutines"],
                "visitor": rv}
