"""Regular-expression model on top of ``re._parser`` parse trees.

Provides: nullability, first-character sets, the "guaranteed" first-character
set (characters on which a prefix match is certain), over an exact interval
representation of Unicode code-point sets.
"""

from __future__ import annotations

import re
import re._constants as C  # type: ignore[import-not-found]
import re._parser as P  # type: ignore[import-not-found]
from functools import lru_cache
from typing import Any, Iterable

MAXCP = 0x10FFFF


class CharSet:
    """Set of code points as sorted, disjoint, inclusive intervals."""

    __slots__ = ("iv",)

    def __init__(self, iv: Iterable[tuple[int, int]] = ()) -> None:
        self.iv = self._normalise(list(iv))

    @staticmethod
    def _normalise(iv: list[tuple[int, int]]) -> list[tuple[int, int]]:
        iv = sorted((lo, hi) for lo, hi in iv if lo <= hi)
        out: list[tuple[int, int]] = []
        for lo, hi in iv:
            if out and lo <= out[-1][1] + 1:
                out[-1] = (out[-1][0], max(out[-1][1], hi))
            else:
                out.append((lo, hi))
        return out

    @classmethod
    def of(cls, *chars: str) -> "CharSet":
        return cls((ord(c), ord(c)) for c in chars)

    @classmethod
    def all(cls) -> "CharSet":
        return cls([(0, MAXCP)])

    def union(self, other: "CharSet") -> "CharSet":
        return CharSet(self.iv + other.iv)

    def complement(self) -> "CharSet":
        out = []
        prev = 0
        for lo, hi in self.iv:
            if lo > prev:
                out.append((prev, lo - 1))
            prev = hi + 1
        if prev <= MAXCP:
            out.append((prev, MAXCP))
        return CharSet(out)

    def intersect(self, other: "CharSet") -> "CharSet":
        return self.complement().union(other.complement()).complement()

    def minus(self, other: "CharSet") -> "CharSet":
        return self.intersect(other.complement())

    def is_total(self) -> bool:
        return self.iv == [(0, MAXCP)]

    def is_empty(self) -> bool:
        return not self.iv

    def __contains__(self, ch: str) -> bool:
        o = ord(ch)
        return any(lo <= o <= hi for lo, hi in self.iv)

    def size(self) -> int:
        return sum(hi - lo + 1 for lo, hi in self.iv)

    def describe(self, limit: int = 6) -> str:
        if self.is_total():
            return "<all>"
        parts = []
        for lo, hi in self.iv[:limit]:
            a = repr(chr(lo)) if 32 <= lo < 127 else f"U+{lo:04X}"
            b = repr(chr(hi)) if 32 <= hi < 127 else f"U+{hi:04X}"
            parts.append(a if lo == hi else f"{a}-{b}")
        if len(self.iv) > limit:
            parts.append(f"... ({len(self.iv)} intervals)")
        return "{" + ", ".join(parts) + "}"


@lru_cache(maxsize=None)
def _category(name: str) -> CharSet:
    """Exact Unicode membership of the str-mode categories (computed from str predicates, not from repo code)."""
    preds = {
        "DIGIT": lambda ch: ch.isdecimal(),
        "SPACE": lambda ch: ch.isspace(),
        "WORD": lambda ch: ch.isalnum() or ch == "_",
    }
    pred = preds[name]
    iv = []
    start = None
    for cp in range(MAXCP + 1):
        if pred(chr(cp)):
            if start is None:
                start = cp
        elif start is not None:
            iv.append((start, cp - 1))
            start = None
    if start is not None:
        iv.append((start, MAXCP))
    return CharSet(iv)


def category(code: Any) -> CharSet:
    n = str(code)
    neg = "NOT_" in n
    base = n.replace("CATEGORY_", "").replace("NOT_", "").replace("UNI_", "").replace("LOC_", "")
    if base == "LINEBREAK":
        cs = CharSet.of("\n")
    elif base in ("DIGIT", "SPACE", "WORD"):
        cs = _category(base)
    else:
        raise ValueError(f"unknown category {n}")
    return cs.complement() if neg else cs


def parse(pattern: str, flags: int = 0) -> Any:
    return P.parse(pattern, flags)


def _items(tree: Any) -> list[tuple[Any, Any]]:
    return list(tree)


def nullable(tree: Any) -> bool:
    """Can the pattern match the empty string (at some position)?  Assertions count as empty matches."""
    for op, av in _items(tree):
        if not _item_nullable(op, av):
            return False
    return True


def _item_nullable(op: Any, av: Any) -> bool:
    if op in (C.LITERAL, C.NOT_LITERAL, C.IN, C.ANY):
        return False
    if op is C.AT:
        return True
    if op in (C.ASSERT, C.ASSERT_NOT):
        return True
    if op is C.BRANCH:
        return any(nullable(alt) for alt in av[1])
    if op is C.SUBPATTERN:
        return nullable(av[3])
    if op in (C.MAX_REPEAT, C.MIN_REPEAT, getattr(C, "POSSESSIVE_REPEAT", None)):
        lo, hi, sub = av
        return lo == 0 or nullable(sub)
    if op is getattr(C, "ATOMIC_GROUP", object()):
        return nullable(av)
    if op is C.GROUPREF:
        return True  # may refer to an empty group
    if op is C.GROUPREF_EXISTS:
        return True
    return True  # unknown op: conservatively nullable


def _single_set(op: Any, av: Any, flags: int) -> CharSet | None:
    """Character set of an item that consumes exactly one character, else None."""
    if op is C.LITERAL:
        cs = CharSet([(av, av)])
        if flags & re.IGNORECASE:
            ch = chr(av)
            cs = cs.union(CharSet.of(*set(ch.lower() + ch.upper()) - {""}))
        return cs
    if op is C.NOT_LITERAL:
        return CharSet([(av, av)]).complement()
    if op is C.ANY:
        return CharSet.all() if flags & re.DOTALL else CharSet.of("\n").complement()
    if op is C.IN:
        neg = False
        cs = CharSet()
        for iop, iav in av:
            if iop is C.NEGATE:
                neg = True
            elif iop is C.LITERAL:
                cs = cs.union(CharSet([(iav, iav)]))
            elif iop is C.RANGE:
                cs = cs.union(CharSet([iav]))
            elif iop is C.CATEGORY:
                cs = cs.union(category(iav))
            else:
                return None
        return cs.complement() if neg else cs
    return None


def first_set(tree: Any, flags: int = 0) -> CharSet:
    """Over-approximation of the characters a non-empty match can start with."""
    cs = CharSet()
    for op, av in _items(tree):
        cs = cs.union(_item_first(op, av, flags))
        if not _item_nullable(op, av):
            break
    return cs


def _item_first(op: Any, av: Any, flags: int) -> CharSet:
    s = _single_set(op, av, flags)
    if s is not None:
        return s
    if op is C.BRANCH:
        cs = CharSet()
        for alt in av[1]:
            cs = cs.union(first_set(alt, flags))
        return cs
    if op is C.SUBPATTERN:
        return first_set(av[3], flags)
    if op in (C.MAX_REPEAT, C.MIN_REPEAT, getattr(C, "POSSESSIVE_REPEAT", None)):
        return first_set(av[2], flags)
    if op in (C.AT, C.ASSERT, C.ASSERT_NOT):
        return CharSet()
    return CharSet.all()


def guaranteed_first(tree: Any, flags: int = 0) -> CharSet:
    """Under-approximation of {c : every text starting with c is matched (as a prefix) by the pattern}."""
    items = _items(tree)
    if not items:
        return CharSet()
    op, av = items[0]
    rest = items[1:]
    head: CharSet | None = None
    s = _single_set(op, av, flags)
    if s is not None:
        head = s
    elif op in (C.MAX_REPEAT, C.MIN_REPEAT) and av[0] >= 1 and len(_items(av[2])) == 1:
        sop, sav = _items(av[2])[0]
        s2 = _single_set(sop, sav, flags)
        # x{n,} with n > 1 needs n characters of the class: only n == 1 is certain from one character
        if s2 is not None and av[0] == 1:
            head = s2
    elif op is C.SUBPATTERN:
        inner = guaranteed_first(av[3], flags)
        if not rest:
            return inner
        head = inner if _rest_certain(rest) else CharSet()
        return head
    elif op is C.BRANCH:
        cs = CharSet()
        for alt in av[1]:
            cs = cs.union(guaranteed_first(alt, flags))
        return cs if _rest_certain(rest) else CharSet()
    if head is None:
        return CharSet()
    return head if _rest_certain(rest) else CharSet()


def _rest_certain(rest: list[tuple[Any, Any]]) -> bool:
    """The remainder of a sequence matches the empty string unconditionally (no assertions)."""
    for op, av in rest:
        if op in (C.MAX_REPEAT, C.MIN_REPEAT) and av[0] == 0:
            continue
        if op is C.SUBPATTERN and _rest_certain(_items(av[3])):
            continue
        return False
    return True


def literal_words_pattern(words: Iterable[str], prefix: str = "", suffix: str = "") -> str:
    """Semantic equivalent of pygments.lexer.words(...) (regex_opt builds an optimised but equivalent pattern)."""
    ws = sorted(set(words), key=lambda w: (-len(w), w))
    return f"{prefix}(?:{'|'.join(re.escape(w) for w in ws)}){suffix}"


# ----------------------------------------------------------------------------------------------------------------------
# Exponential ambiguity (catastrophic backtracking)
#
# A backtracking matcher needs time exponential in the input when the pattern has a loop through which some string can be
# matched in two different ways (``(x+)*``, ``(a|a)*``, ``(x*)*``) and the part after the loop can fail.  The decision below is
# made on a Thompson automaton of the parse tree in which look-around and anchor items are *blocked*: every path of that
# automaton is a path the matcher can take whatever the context, so an ambiguity found in it is real (under-approximation;
# an ambiguity that exists only through an assertion is not reported).

class _NFA:
    def __init__(self) -> None:
        self.eps: list[list[int]] = []
        self.chars: list[tuple[int, CharSet, int]] = []  # (source, set, target)

    def new(self) -> int:
        self.eps.append([])
        return len(self.eps) - 1


def _build(nfa: _NFA, tree: Any, flags: int, start: int) -> int | None:
    """Adds the items of `tree` after state `start`; returns the end state (None if the sequence is blocked)."""
    cur: int | None = start
    for op, av in _items(tree):
        if cur is None:
            return None
        s = _single_set(op, av, flags)
        if s is not None:
            t = nfa.new()
            nfa.chars.append((cur, s, t))
            cur = t
        elif op is C.BRANCH:
            end = nfa.new()
            any_alt = False
            for alt in av[1]:
                a0 = nfa.new()
                nfa.eps[cur].append(a0)
                a1 = _build(nfa, alt, flags, a0)
                if a1 is not None:
                    nfa.eps[a1].append(end)
                    any_alt = True
            cur = end if any_alt else None
        elif op is C.SUBPATTERN:
            cur = _build(nfa, av[3], flags, cur)
        elif op is getattr(C, "ATOMIC_GROUP", object()):
            cur = _build(nfa, av, flags, cur)
        elif op in (C.MAX_REPEAT, C.MIN_REPEAT, getattr(C, "POSSESSIVE_REPEAT", None)):
            lo, hi, sub = av
            for _ in range(min(lo, 3)):
                if cur is None:
                    break
                cur = _build(nfa, sub, flags, cur)
            if cur is None:
                return None
            if hi == C.MAXREPEAT:
                loop = nfa.new()
                nfa.eps[cur].append(loop)
                body0 = nfa.new()
                nfa.eps[loop].append(body0)
                body1 = _build(nfa, sub, flags, body0)
                if body1 is not None:
                    nfa.eps[body1].append(loop)
                out = nfa.new()
                nfa.eps[loop].append(out)
                cur = out
            else:
                out = nfa.new()
                nfa.eps[cur].append(out)
                for _ in range(min(hi - lo, 3)):
                    b0 = nfa.new()
                    nfa.eps[cur].append(b0)
                    b1 = _build(nfa, sub, flags, b0)
                    if b1 is None:
                        break
                    nfa.eps[b1].append(out)
                    cur = b1
                cur = out
        else:
            return None  # AT, ASSERT, ASSERT_NOT, GROUPREF, ...: blocked
    return cur


def exponential_ambiguity(tree: Any, flags: int = 0) -> str | None:
    """A description of a loop of the pattern through which one string is matched in two ways while the rest of the pattern can
    still fail, or None if the (assertion-free part of the) pattern has none."""
    nfa = _NFA()
    s0 = nfa.new()
    acc = _build(nfa, tree, flags, s0)
    n_edges = len(nfa.chars)
    if n_edges == 0:
        return None
    by_source: dict[int, list[int]] = {}
    for i, (src, _cs, _t) in enumerate(nfa.chars):
        by_source.setdefault(src, []).append(i)

    def eps_paths(frm: int) -> dict[int, int]:
        """state -> number (capped at 2) of distinct eps-walks from `frm` that use no eps-edge twice."""
        count: dict[int, int] = {}
        budget = [20000]

        def dfs(s: int, used: frozenset[tuple[int, int]]) -> None:
            count[s] = min(2, count.get(s, 0) + 1)
            budget[0] -= 1
            if budget[0] < 0:
                raise OverflowError("pattern too large for the ambiguity analysis")
            for t in nfa.eps[s]:
                if (s, t) not in used:
                    dfs(t, used | {(s, t)})
        dfs(frm, frozenset())
        return count

    # edge graph: e -> e' with multiplicity
    nxt: list[dict[int, int]] = []
    reaches_accept: list[bool] = []
    for (_src, _cs, tgt) in nfa.chars:
        cnt = eps_paths(tgt)
        d: dict[int, int] = {}
        for st, k in cnt.items():
            for e2 in by_source.get(st, ()):
                d[e2] = min(2, d.get(e2, 0) + k)
        nxt.append(d)
        reaches_accept.append(acc is not None and acc in cnt)
    inter: dict[tuple[int, int], bool] = {}

    def meet(a: int, b: int) -> bool:
        k = (a, b) if a <= b else (b, a)
        if k not in inter:
            inter[k] = not nfa.chars[a][1].intersect(nfa.chars[b][1]).is_empty()
        return inter[k]

    # product graph over pairs of edges that can consume the same character
    import sys
    nodes = [(a, b) for a in range(n_edges) for b in range(n_edges) if meet(a, b)]
    succ: dict[tuple[int, int], list[tuple[int, int]]] = {}
    for (a, b) in nodes:
        out = []
        for a2 in nxt[a]:
            for b2 in nxt[b]:
                if meet(a2, b2):
                    out.append((a2, b2))
        succ[(a, b)] = out
    # strongly connected components (iterative Tarjan)
    index: dict[tuple[int, int], int] = {}
    low: dict[tuple[int, int], int] = {}
    comp: dict[tuple[int, int], int] = {}
    stack: list[tuple[int, int]] = []
    on_stack: set[tuple[int, int]] = set()
    counter = 0
    ncomp = 0
    for root in nodes:
        if root in index:
            continue
        work = [(root, iter(succ[root]))]
        index[root] = low[root] = counter
        counter += 1
        stack.append(root)
        on_stack.add(root)
        while work:
            v, it = work[-1]
            advanced = False
            for w in it:
                if w not in index:
                    index[w] = low[w] = counter
                    counter += 1
                    stack.append(w)
                    on_stack.add(w)
                    work.append((w, iter(succ[w])))
                    advanced = True
                    break
                if w in on_stack:
                    low[v] = min(low[v], index[w])
            if advanced:
                continue
            work.pop()
            if work:
                low[work[-1][0]] = min(low[work[-1][0]], low[v])
            if low[v] == index[v]:
                while True:
                    w = stack.pop()
                    on_stack.discard(w)
                    comp[w] = ncomp
                    if w == v:
                        break
                ncomp += 1
    members: dict[int, list[tuple[int, int]]] = {}
    for v, c in comp.items():
        members.setdefault(c, []).append(v)
    for c, vs in members.items():
        cyclic = len(vs) > 1 or vs[0] in succ[vs[0]]
        if not cyclic:
            continue
        diag = [v for v in vs if v[0] == v[1]]
        if not diag:
            continue
        off = [v for v in vs if v[0] != v[1]]
        double = [(v, w) for v in diag for w in succ[v] if w[0] == w[1] and comp.get(w) == c and nxt[v[0]].get(w[0], 0) >= 2]
        if not off and not double:
            continue
        e = diag[0][0]
        if all(reaches_accept[v[0]] for v in diag):
            continue  # the pattern can end right after the loop: the first attempt succeeds, nothing is retried
        how = ("two different iterations of the loop consume the same text" if off else
               "the loop can be re-entered in two ways after the same text")
        return f"a loop over {nfa.chars[e][1].describe()} is ambiguous ({how}) and the rest of the pattern can fail afterwards"
    return None
