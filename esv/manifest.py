"""Generates /verif/MANIFEST.json from the table below (python -m esv.manifest)."""

from __future__ import annotations

import importlib
import json
from pathlib import Path

VERIF = Path(__file__).resolve().parents[1]

BASELINE = ("cd /repo && /venv/bin/python -m pytest -ra -q -p no:cacheprovider --timeout=900 "
            "--continue-on-collection-errors")

# id -> (category, technique, level text, level note, design ref, n/a reason while the check is not built)
TABLE: dict[str, dict[str, str]] = {
    "C01": dict(cat="other", tech="form-table extraction (opcode/parameter roles per syntax form) + abstract interpretation of the op-list builders against specified flow graphs + def-use rules on the post-passes; whole compiler (visitors, handlers, post-passes) interpreted from its syntax trees on grammar parse trees: 169 syntactic forms and routine headers vs. the language form table, exhaustive bounded family of schematic programs vs. specified flow graphs by bisimulation; macro projects vs. their hand-inlined programs",
                text="Decides for all programs: opcode and parameter order of every condition/header/case/assignment form, the label/jump skeleton every block construct emits for every body-shape class, and the op-removal discipline of the post-passes. Does not decide whole-program behaviour (user label graphs, interplay of passes). Interpreter-based rules decide the enumerated shapes for every outcome of every test, not all programs (DESIGN.md 9.2).",
                note="Oracle tables under esv/spec written from docs/language_spec.rst and the SSB machine model; CPython ast; the grammar reader esv/engine/g4.py.", ref="§4 C01"),
    "C02": dict(cat="other", tech="grammar-parsed print templates pushed through the compiler's form model (writer/reader agreement) + dispatch exhaustiveness + edge-attribute conventions + entry preservation; round trip compile -> decompile -> compile with every stage interpreted (parser runtime, graph library and file system modelled) over general, nested and flat program families, a fixed pseudo-random sample of deeper mixed programs, hand-made routine sets and two exhaustive families of small routines (every routine of up to 3/4 ops over plain, End, Jump, Branch, Call, Return; one Switch with up to three cases and up to three ops behind them), flow graphs compared by bisimulation; both orders of every iterated set of graph elements",
                text="Decides necessary conditions only: every special opcode is printed in a spelling that compiles back to the same op with equal parameters, dispatch tables are exhaustive, producer/consumer conventions of edge attributes agree, the routine entry vertex is never deleted. The structuring heuristics themselves are not decided. R7 decides behaviour preservation for the enumerated program shapes and for every routine of up to 3 ops (thorough: 4 ops) over plain op / End / Jump / Branch, for all test outcomes.",
                note="Same trusted base as C01; the 1 600 lines of graph rewriting are outside any sound static argument in reach.", ref="§4 C02"),
    "C03": dict(cat="other", tech="type-flow and who-may-write rules on the op list (no pseudo-op survives, target appended last, offset sources, table lengths); compile() interpreted on program families and macro projects: offsets unique, jump targets closed, no pseudo op, tables of one length",
                text="Decides the structural half of every clause of C03 for all programs: only real ops reach routine_ops, the jump target is appended last and agrees with the decompiler's index table, every offset comes from the monotone counter or replaces an op one-for-one, label offsets denote surviving ops, the three routine tables grow together. Not decided: raw user-written jump opcodes.",
                note="CPython ast; folded tables of ssb_special_ops.", ref="§4 C03"),
    "C04": dict(cat="other", tech="escape/unescape table agreement, quoted-hole escaping, numeral-shape vs. token-language inclusion, parameter-type exhaustiveness; print -> parse identity with printers and readers interpreted on a table of values built from the character classes the printers distinguish, in three printing contexts and several depths; every op with special syntax x value classes per parameter slot through the interpreted decompiler and compiler",
                text="Decides the table-level half of print/parse identity: escape pairs of printer and reader, escaping of every quoted interpolation, that printed numerals are tokens of the grammar, that every parameter type has a printer and a parse path, integer base handling. Value-dependent parts (multi-line dedent arithmetic) are not decided. R7 evaluates the value table; other values are covered by the table-level rules. R8 decides the statements with special syntax (operator tables, dungeon-mode constants, flag forms, the performance variable) for one value of every class per slot.",
                note="re._parser for regexes built from the .g4 token rules.", ref="§4 C04"),
    "C05": dict(cat="other", tech="def-use/typestate rules on ExplorerScriptMacro.build (fresh labels, return->jump-to-end, parameter substitution), call binding, import resolution order, dependency-order rule; compile() interpreted on multi-file macro projects (virtual files) against hand-inlined programs by bisimulation; meaningless projects rejected",
                text="Decides the expansion template of build(), the binding of arguments to macro variables, the import search order and the recursion guard, and that the macro order is produced by a topological sort of the dependency graph. Behaviour of expanded ops inherits C01's limits.",
                note="igraph.Graph.topological_sorting is trusted to return a topological order.", ref="§4 C05"),
    "C06": dict(cat="other", tech="raise-set inference over the resolved call graph vs. the fallback handler; marker writer/reader agreement; backup-before-mutation dominance; round trip with every stage interpreted: convert() returns for every program of the families, fallback text reproduces the ops one for one, text without the marker is accepted by the ExplorerScript compiler; resolver totality (end-of-table guard), handler-bound names, fresh collectors of the fallback reader",
                text="Decides that no exception class raised under convert()'s try escapes its handler, that the fallback prefix is recognised by parse_exps_meta_attributes with an accepted value, and that the raw ops are backed up before any pass touches them. Exactness of the fallback text is C07.",
                note="Library callee summaries (open/int/next/list.index ...) are hand-written.", ref="§4 C06"),
    "C07": dict(cat="other", tech="grammar-parsed SsbScript print templates vs. the listener's reading (writer/reader agreement), jump-argument position, label binding, order preservation; SsbScript decompiler and compiler interpreted on hand-made routine sets and compiled families (op for op)",
                text="Decides that every SsbScript print template parses under SsbScript.g4 and is read back by the listener into the same opcode/parameters/routine kind, that the jump marker is printed and consumed as the last argument, that labels bind to the next op, and that neither side reorders. String values are C04.",
                note="Grammar reader; listener methods read as ast.", ref="§4 C07"),
    "C08": dict(cat="other", tech="must-follow registration rule per op construction site, position-expression shape rule, return-address counting rule; whole compiler interpreted on laid-out sample programs: every emitted op has an entry at the line/column where its statement, condition, switch or case header begins",
                text="Decides that every op construction is followed by exactly one source-map registration with the same number, that all positions are <ctx>.start.line - 1 / start.column of the handler's own context, that the macro return address counts exactly the non-label blueprint ops plus one, and that file names are relative to the base file.",
                note="CPython ast.", ref="§4 C08"),
    "C09": dict(cat="other", tech="who-may-write rule on the line counter, register-before-write dominance, coverage of statement writers, offset-aliasing rule; round trip with every stage interpreted: each entry of the decompiler's map points at the first character of its op's statement and recompilation agrees on the line",
                text="Decides that the line counter is advanced by exactly the newlines written, that source_map_add_opcode dominates the statement's write with nothing written in between, that every statement writer registers, and that synthetic vertices do not overwrite real entries.",
                note="CPython ast.", ref="§4 C09"),
    "C10": dict(cat="other", tech="raise-set inference over the resolved call graph vs. the documented exception classes; presence table of documented rejections; stack pairing; parse-listener guard; whole compiler interpreted on the meaningless and degenerate program shapes of the specification (rejected with a documented error, nothing else escapes), also as second program on a used compiler object; counter-indexed loop conditions are bounded",
                text="Decides that no explicitly raised exception class other than ParseError/SsbCompilerError/ValueError can leave compile(), that every documented rejection has its raise site, that loop/case stacks are paired, and two named implicit-exception patterns. Implicit exceptions in general are not decided.",
                note="Narrowing asserts (is not None / isinstance) are assumed not to fire.", ref="§4 C10"),
    "C11": dict(cat="other", tech="shared-state inventory (who-may-write), reset-before-use on compile(), input non-mutation, memo-clear typestate; call histories evaluated in one interpreter instance against a fresh one (other/same/failing inputs first, reused compiler object, the same routine-set objects decompiled repeatedly by both decompilers); no order-visible iteration over a set of strings or enum members (hash randomisation)",
                text="Decides that the only run-time written shared cells are the audited ones, that class-level mutable defaults are shadowed per instance, that compile() resets its result attributes before anything can raise, and that decompilation writes to its input only through the audited indent cell.",
                note="GC timing and igraph internals (address-based hashes of graph elements) are outside.", ref="§4 C11"),
    "C12": dict(cat="other", tech="confinement: shared-state inventory + memo keyed by a call-local graph object",
                text="Decides confinement: two concurrent calls share no mutable state beyond the audited memo table, whose entries are keyed by the id of a graph local to one call. Interleavings inside the ANTLR runtime are not decided.",
                note="CPython's GIL makes single dict operations atomic; ANTLR runtime caches and igraph are outside the analysis.", ref="§4 C12"),
    "C13": dict(cat="other", tech="data-dependence rule on the join search (traversal liveness) + marker producer/consumer agreement; flat programs (singles, ordered pairs; triples in the thorough tier) taken through compile -> decompile with every stage interpreted: ExplorerScript without jump, each operation once; typestate of jump roots across passes; stale edge ids; memo discipline",
                text="Decides necessary conditions only: the common-next-vertex search advances along the graph's adjacency, and every end marker a pass attaches has a writer-side consumer that stops on the same id. Completeness of the structuring heuristics is not decided. R6 decides the property for the enumerated flat shapes (832 quick / 8 608 thorough), not for all flat programs.",
                note="CPython ast.", ref="§4 C13"),
    "C14": dict(cat="other", tech="sibling/writer-reader field agreement on serialize/deserialize/__init__, equality coverage, shape rule on rewrite_offsets, no truth test of an int | None value; serialize/deserialize/rewrite_offsets interpreted on maps of interpreted macro projects (read back from text and as the compiler hands them out) under twelve offset mappings, with re-reads after rewrites",
                text="Decides for all maps: field order and JSON keys agree between writer and reader, int keys and tuples are restored, SourceMap.__eq__ compares value-comparable entries, rewrite_offsets rebuilds both tables through the mapping and moves return addresses forward to the next surviving op.",
                note="CPython ast; json module semantics (arrays come back as lists, keys as strings).", ref="§4 C14"),
    "C15": dict(cat="other", tech="tag-table agreement compile CLI / decompile CLI / docs, offset-renumbering rule, coroutine-id rule, docs example types vs. reader operations, exit paths; build_routines_json/read_routines interpreted on compiled programs; the __main__ blocks of both command-line modules interpreted on a virtual file system (argument vector, working directory, exit status, standard output/error, files written)",
                text="Decides that the type tags and keys written by the compile CLI equal those read by the decompile CLI and those documented, that jump parameters are translated to list positions, that coroutine names are registered under their routine index, that documented JSON leaf types are accepted, and that no error path exits with status 0. R7 runs both commands as programs on 22 scenarios: the documented call, the structure of the printed document, compile | decompile | compile, a document with every documented routine and argument type, 17 success/failure statuses.",
                note="reST reader for docs/cli_api_usage.rst.", ref="§4 C15"),
    "C16": dict(cat="other", tech="grammar facts (skip channel, lexer order, alternative spellings) + position taint in the compiler + spelling tables; re-spellings of a base program compiled with the whole compiler interpreted: identical ops, routine table, marks; the serialized ATNs of the generated lexers/parsers compared rule by rule with the .g4 files (language equality of finite automata)",
                text="Decides that whitespace/comments/line joining are skipped, keywords precede IDENTIFIER, both label and target spellings exist and map to the same values, and that token positions and skipped tokens flow only into source-map calls and messages. ANTLR's prediction on arbitrary token juxtapositions is not decided.",
                note="ANTLR's adaptive prediction is trusted; that the generated tables are the grammar's is decided (C16-R5) and is a precondition of every check that reads a .g4 file.", ref="§4 C16"),
    "C17": dict(cat="proof", tech="regex nullability, first-set totality and exponential-ambiguity (product automaton) analysis over the Pygments token table; the table run by a model of the RegexLexer loop on sample texts, callback actions and a driver override of the class interpreted",
                text="Proof over the token table: every rule regex is non-nullable (termination), every action is a plain token type (losslessness), and in every enterable state the rules that are certain to match from their first character cover the alphabet reachable there in accepted sources (no Error token, also not by an explicit Error action); no pattern has a loop that is ambiguous before a part that can fail (catastrophic backtracking); R6 lexes 36 sample texts with the table itself.",
                note="Trusted: pygments RegexLexer.get_tokens_unprocessed main loop, re._parser, equivalence of words() with an alternation.", ref="§4 C17"),
    "C18": dict(cat="other", tech="visitor traversal rule against grammar reachability, span-expression shape rule, shared argument parser (sibling agreement); the listing visitor interpreted on sample sources against the grammar's own parse tree; printed marks compiled back; a mark printed, edited in place and printed again",
                text="Decides that the position-mark visitor cuts no subtree that can contain a Position literal, aggregates in visit order, builds spans from start.line-1/start.column/stop.line-1/stop.column of the literal's own context, and shares handler classes and the argument parser with the compiler.",
                note="Grammar reader; CPython ast.", ref="§4 C18"),
}


def built(pid: str) -> bool:
    try:
        importlib.import_module(f"esv.rules.{pid.lower()}")
        return True
    except ModuleNotFoundError:
        return False


def main() -> None:
    checks = []
    na = []
    for pid, t in TABLE.items():
        if not built(pid):
            na.append({"property_id": pid, "reason": "static check for this property is not built yet in this revision of /verif "
                                                      f"(planned technique: {t['tech']})"})
            continue
        checks.append({
            "property_id": pid,
            "quick_cmd": f"/venv/bin/python -m esv check {pid} --tier quick",
            "thorough_cmd": f"/venv/bin/python -m esv check {pid} --tier thorough",
            "evidence_file": f"/verif/evidence/{pid}.json",
            "replay_cmd_template": f"/venv/bin/python -m esv check {pid} --replay {{path}}",
            "engine": "esv",
            "level_claimed": {"category": t["cat"], "text": t["text"], "design_ref": f"DESIGN.md {t['ref']}"},
            "level_note": t["note"],
            "technique": t["tech"],
        })
    manifest = {
        "version": 1,
        "setup_cmd": "/venv/bin/python -m compileall -q /verif/esv",
        "hooks": {
            "guard": "EXPLORERSCRIPT_VERIF",
            "enable": "none needed: the checks parse /repo's working tree with ast and never import or run it (no instrumentation)",
            "baseline_off_cmd": BASELINE,
            "source_commits": [],
            "add_only": True,
        },
        "engines": [{
            "name": "esv",
            "path": "/verif/esv",
            "serves_properties": [c["property_id"] for c in checks],
            "kind_free_text": "repository-specific static analysis: ast-based loader/symbol table, constant folder, call graph and raise-set "
                              "inference, ANTLR .g4 reader with tokenizer/parser, regex model, and an interpreter of the repository's syntax trees over "
                              "abstract objects (with models of the parser runtime, the graph library and the file system) that evaluates the "
                              "compiler and both decompilers on schematic programs and value tables without importing or running repository code",
        }],
        "checks": checks,
        "notes": "All checks are static: they parse /repo's current working tree on every run. Exit 0 = all rule instances hold (known findings "
                 "printed as KNOWN-FINDING), exit 1 + 'VIOLATION property=<id> replay=<path>' = a construct contradicts a rule, exit 2 + "
                 "'ANALYSIS-ERROR' = the analysis met an idiom it does not model (never reported as a violation). "
                 "Genuine defects repaired in /repo are listed with status 'fixed:' in /verif/known_findings.json.",
        "not_applicable": na,
    }
    (VERIF / "MANIFEST.json").write_text(json.dumps(manifest, indent=1) + "\n")
    print(f"MANIFEST.json: {len(checks)} checks, {len(na)} not_applicable")


if __name__ == "__main__":
    main()
