from wlib import *
for src in ["def 0 { a(); switch ($S) { default: case 10: break; } }", "def 0 { a(); switch ($S) { default: case 10: jump @x; } §x; b(); }", "def 0 { a(); switch ($S) { case 1: case 10: break; } b(); }"]:
    print(src)
    try: show(comp(src))
    except Exception as e: print("  ->", type(e).__name__, e)
