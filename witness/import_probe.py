"""REAL code: import resolution on random directory layouts: relative to the importing file, absolute, lookup paths in order; cycles and missing files rejected."""
import random, os, sys, tempfile, collections, logging, warnings, shutil
warnings.filterwarnings("ignore"); logging.disable(logging.CRITICAL)
from explorerscript.ssb_converting.ssb_compiler import ExplorerScriptSsbCompiler
from explorerscript.error import SsbCompilerError
c=collections.Counter(); shown=0
for seed in range(int(sys.argv[1]),int(sys.argv[2])):
    r=random.Random(seed)
    root=tempfile.mkdtemp()
    dirs=["proj","proj/sub","lib1","lib2","proj/sub/deep"]
    for d in dirs: os.makedirs(os.path.join(root,d),exist_ok=True)
    # macro files: each defines macro named after a unique tag so we can see which file was taken
    files={}
    names=["a.exps","b.exps","c.exps"]
    for nm in names:
        for d in dirs:
            if r.random()<0.45:
                tag=f"{d.replace('/','_')}_{nm[0]}"
                files[(d,nm)]=tag
    lookups=[l for l in ["lib1","lib2","proj/sub"] if r.random()<0.6]; r.shuffle(lookups)
    main_dir=r.choice(["proj","proj/sub"])
    # imports of main
    imports=[]; expect=[]
    for nm in r.sample(names, r.randint(1,3)):
        kind=r.choice(["rel","rel-up","abs","lookup"])
        if kind=="rel":
            spec="./"+nm; target=(main_dir,nm)
        elif kind=="rel-up":
            spec="../"+nm; target=(os.path.dirname(main_dir) or ".", nm)
            if target[0]==".": target=None
        elif kind=="abs":
            d=r.choice(dirs); spec=os.path.join(root,d,nm); target=(d,nm)
        else:
            spec=nm; target=next(((l,nm) for l in lookups if (l,nm) in files), None)
        imports.append(spec); expect.append(target if target in files else None)
    for (d,nm),tag in files.items():
        open(os.path.join(root,d,nm),"w").write(f"macro m_{tag}() {{ op_{tag}(); }}\n")
    calls="".join(f"~m_{files[t]}(); " for t in expect if t is not None)
    src="".join(f"import '{i}';\n" for i in imports)+f"def 0 {{ {calls} end; }}\n"
    mainp=os.path.join(root,main_dir,"main.exps"); open(mainp,"w").write(src)
    cc=ExplorerScriptSsbCompiler("$PERF",[os.path.join(root,l) for l in lookups])
    try:
        cc.compile(src,mainp); ok=True; err=None
    except SsbCompilerError as ex: ok=False; err=str(ex)
    except Exception as ex: ok=False; err="OTHER "+type(ex).__name__+str(ex)[:60]
    want_ok=all(t is not None for t in expect)
    if ok!=want_ok or (err and err.startswith("OTHER")):
        c['BAD']+=1
        if shown<4: shown+=1; print("BAD",seed,"ok" if ok else err,"expected",expect,"imports",imports,"lookups",lookups,"main in",main_dir,sorted(files))
    else:
        if ok:
            got=[o.op_code.name for rr in cc.routine_ops for o in rr if o.op_code.name.startswith("op_")]
            want=[f"op_{files[t]}" for t in expect]
            if got!=want:
                c['BAD']+=1
                if shown<4: shown+=1; print("BAD-WHICH",seed,got,want,imports,lookups)
            else: c['ok']+=1
        else: c['rejected-ok']+=1
    shutil.rmtree(root)
print(dict(c))
