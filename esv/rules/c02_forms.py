"""C02-R1: every spelling the ExplorerScript decompiler prints for a special opcode reads back as that opcode.

For each print site the f-string is turned into a template; holes are filled with traceable placeholder lexemes
(`P0_`, `901`, `'P0_'` — the first class that parses), operator holes with every operator notation in turn; the text is
tokenised and parsed with the grammar model and read with the language's form table (spec/language_forms.py).
"""

from __future__ import annotations

import ast
import copy
import itertools
from typing import Any, Iterator

from ..engine import astq
from ..engine.fstr import template_of, Hole
from ..engine.g4 import Node, Token
from ..engine.loader import AnalysisError, Func, dotted, norm, walk_no_nested
from ..engine.report import Check, fkey
from ..spec import language_forms as LF

WH = "explorerscript.ssb_converting.decompiler.write_handlers"
SPECIAL = "explorerscript.ssb_converting.ssb_special_ops"
DT = "explorerscript.ssb_converting.ssb_data_types"
PERF = "$PERF"


# methods of the class under analysis, so that `return self._helper(op, 0, "debug")` is read through the helper's own returns
_HELPERS: dict[str, ast.FunctionDef] = {}


class _Subst(ast.NodeTransformer):
    def __init__(self, m: dict[str, ast.expr]) -> None:
        self.m = m

    def visit_Name(self, node: ast.Name) -> ast.AST:
        if isinstance(node.ctx, ast.Load) and node.id in self.m:
            return copy.deepcopy(self.m[node.id])
        return node

    def visit_JoinedStr(self, node: ast.JoinedStr) -> ast.AST:
        self.generic_visit(node)
        vals: list[ast.expr] = []
        for v in node.values:
            if isinstance(v, ast.FormattedValue) and v.conversion == -1 and v.format_spec is None and isinstance(v.value, ast.Constant) and isinstance(v.value.value, str):
                vals.append(ast.Constant(value=v.value.value))  # a substituted text constant is literal text
            elif isinstance(v, ast.FormattedValue) and v.conversion == -1 and v.format_spec is None and isinstance(v.value, ast.JoinedStr):
                vals.extend(v.value.values)  # a substituted f-string is spliced in
            else:
                vals.append(v)
        merged: list[ast.expr] = []
        for v in vals:
            if merged and isinstance(v, ast.Constant) and isinstance(merged[-1], ast.Constant):
                merged[-1] = ast.Constant(value=merged[-1].value + v.value)
            else:
                merged.append(v)
        return ast.copy_location(ast.JoinedStr(values=merged), node)


def _through_helper(call: ast.expr, depth: int = 0) -> list[tuple[list[tuple[ast.expr, bool]], ast.expr]] | None:
    """`self.helper(args)` -> [(guards, returned expression)] with the helper's parameters replaced by the arguments."""
    if not (isinstance(call, ast.Call) and isinstance(call.func, ast.Attribute) and isinstance(call.func.value, ast.Name) and call.func.value.id in ("self", "cls")
            and call.func.attr in _HELPERS and not call.keywords and depth < 3):
        return None
    fn = _HELPERS[call.func.attr]
    params = [a.arg for a in fn.args.args]
    if params and params[0] in ("self", "cls") and not any(isinstance(d, ast.Name) and d.id == "staticmethod" for d in fn.decorator_list):
        params = params[1:]
    if len(params) != len(call.args):
        return None
    sub = _Subst(dict(zip(params, call.args)))
    out = []
    for g, e, env in _variants(fn.body, [], {}, None):
        if env:
            e = _Subst(env).visit(copy.deepcopy(e))
        e2 = ast.fix_missing_locations(sub.visit(copy.deepcopy(e)))
        g2 = [(ast.fix_missing_locations(sub.visit(copy.deepcopy(t))), b) for t, b in g]
        inner = _through_helper(e2, depth + 1)
        if inner is not None:
            out.extend((g2 + gi, ei) for gi, ei in inner)
        else:
            out.append((g2, e2))
    return out


def _variants(stmts: list[ast.stmt], guards: list[tuple[ast.expr, bool]], env: dict[str, ast.expr], sink: str | None) -> Iterator[tuple[list[tuple[ast.expr, bool]], ast.expr, dict[str, ast.expr]]]:
    """(guards, printed expression, local env) for every `return <expr>` / `<sink>(<expr>)` reachable in stmts."""
    env = dict(env)
    for st in stmts:
        if isinstance(st, ast.Return) and st.value is not None and sink is None:
            th = _through_helper(st.value)
            if th is not None:
                for g, e in th:
                    yield guards + g, e, env
                return
            yield guards, st.value, env
            return
        if isinstance(st, ast.Expr) and isinstance(st.value, ast.Call) and sink is not None and isinstance(st.value.func, ast.Attribute) \
                and st.value.func.attr == sink and st.value.args:
            yield guards, st.value.args[0], env
        elif isinstance(st, ast.If):
            yield from _variants(st.body, guards + [(st.test, True)], env, sink)
            yield from _variants(st.orelse, guards + [(st.test, False)], env, sink)
            if st.body and isinstance(st.body[-1], (ast.Return, ast.Raise)) and not st.orelse:
                guards = guards + [(st.test, False)]  # the rest of the block runs only when the test failed
        elif isinstance(st, ast.Assign) and isinstance(st.targets[0], ast.Name):
            env[st.targets[0].id] = st.value
        elif isinstance(st, ast.With):
            yield from _variants(st.body, guards, env, sink)


def opcode_branches(fn: ast.FunctionDef, fold: Any, mod: Any, sink: str | None) -> Iterator[tuple[list[str], list[tuple[ast.expr, bool]], ast.expr, dict[str, ast.expr]]]:
    """For an if-chain on op.op_code.name: (opcode names, inner guards, printed expression, env)."""
    def names_of(test: ast.expr) -> list[str] | None:
        if isinstance(test, ast.Compare) and len(test.ops) == 1 and norm(test.left).endswith("op_code.name"):
            v = fold.try_expr(mod, test.comparators[0])
            if isinstance(test.ops[0], ast.Eq) and isinstance(v, str):
                return [v]
            if isinstance(test.ops[0], ast.In) and isinstance(v, (list, tuple)):
                return [x for x in v if isinstance(x, str)]
        return None

    def walk(stmts: list[ast.stmt]) -> Iterator[Any]:
        for st in stmts:
            if isinstance(st, ast.If):
                nm = names_of(st.test)
                if nm is not None:
                    for g, e, env in _variants(st.body, [], {}, sink):
                        yield nm, g, e, env
                    yield from walk(st.orelse)
                else:
                    yield from walk(st.body)
                    yield from walk(st.orelse)
    yield from walk(fn.body)


class Fill:
    """How the holes of one template variant are filled, and what each placeholder stands for."""

    def __init__(self) -> None:
        self.ph: dict[str, Any] = {}

    def param(self, i: int, cls: str) -> str:
        text = {"ident": f"P{i}_", "int": f"90{i}", "str": f"'P{i}_'"}[cls]
        self.ph[text] = ("param", i)
        return text


def classify(h: Hole) -> tuple[str, Any]:
    t = h.text
    e = h.expr
    if isinstance(e, ast.Subscript) and norm(e.value).endswith("params") and isinstance(e.slice, ast.Constant):
        return "param", e.slice.value
    if t.startswith("SsbOperator(") and t.endswith(".notation"):
        inner = e.value.args[0]  # type: ignore[attr-defined]
        return "condop", inner.slice.value if isinstance(inner, ast.Subscript) and isinstance(inner.slice, ast.Constant) else None
    if t.startswith("SsbCalcOperator(") and t.endswith(".notation"):
        inner = e.value.args[0]  # type: ignore[attr-defined]
        return "calcop", inner.slice.value if isinstance(inner, ast.Subscript) and isinstance(inner.slice, ast.Constant) else None
    if t.endswith(".notation") and "SsbOperator." in t:
        return "condconst", t.split("SsbOperator.")[1].split(".")[0]
    if t.endswith("performance_progress_list_var_name"):
        return "perf", None
    if "get_explorerscript_constant_for" in t:
        inner = e.args[0] if isinstance(e, ast.Call) and e.args else None
        return "dmode", inner.slice.value if isinstance(inner, ast.Subscript) and isinstance(inner.slice, ast.Constant) else None
    if t.endswith("op_code.name"):
        return "opname", None
    if "join(" in t and "params" in t:
        return "join", None
    return "other", t


def forms_rule(chk: Check, ctx: Any, rule: str) -> None:
    repo = ctx.repo
    fold = ctx.fold
    g = ctx.grammar_exps
    branch_ops = set(fold.const(f"{SPECIAL}:OPS_BRANCH"))
    dt = repo.mod(DT)
    cond_members = {k: v for k, v in fold.enum_members(dt.classes["SsbOperator"]).items()}
    calc_members = {k: v for k, v in fold.enum_members(dt.classes["SsbCalcOperator"]).items()}
    # operator tables of the code vs the language tables
    for name, members, table in (("SsbOperator", cond_members, LF.COND_NOTATION), ("SsbCalcOperator", calc_members, LF.CALC_NOTATION)):
        got = {m.code: m.notation for m in members.values()}
        chk.decide(rule, f"operator-table:{name}", got == table, dt, f"{name} (value -> notation) is {got}; the language's table is {table}", f"{len(table)} operators agree")
    n_templates = 0
    samples: list[str] = []

    def check_template(site: Func, opcode: str, guards: list[tuple[ast.expr, bool]], expr: ast.expr, env: dict[str, ast.expr], start: str, wrap: tuple[str, str],
                       reader: Any, switch_op: str = "Switch") -> None:
        nonlocal n_templates
        t = template_of(expr, lambda nm: env.get(nm.id))
        key = fkey(site, None, f"{opcode}:{'&'.join(('' if b else 'not ') + norm(gd) for gd, b in guards) or 'always'}")
        if t is None:
            chk.unknown(rule, key, site, f"print template of {opcode} not recognised: {norm(expr)[:60]}")
            return
        holes = [p for p in t if isinstance(p, Hole)]
        kinds = [classify(h) for h in holes]
        # conditional text holes (IfExp with constant arms) -> expand
        expand: list[list[tuple[str, Any]]] = []
        for h, (k, v) in zip(holes, kinds):
            if k == "other" and isinstance(h.expr, ast.IfExp):
                a, b = fold.try_expr(site.mod, h.expr.body), fold.try_expr(site.mod, h.expr.orelse)
                if isinstance(a, str) and isinstance(b, str):
                    expand.append([("text", (a, h.expr.test, True)), ("text", (b, h.expr.test, False))])
                    continue
            if k == "condop":
                expand.append([("condop", (m.code, m.notation, v)) for m in cond_members.values()])
            elif k == "calcop":
                expand.append([("calcop", (m.code, m.notation, v)) for m in calc_members.values()])
            elif k == "other":
                cv = fold.try_expr(site.mod, h.expr)
                if isinstance(cv, str):
                    expand.append([("text", (cv, ast.Constant(True), True))])
                    continue
                chk.unknown(rule, key, site, f"hole `{h.text}` in the template of {opcode} is not understood")
                return
            else:
                expand.append([(k, v)])
        n_templates += 1
        global _FOLD
        _FOLD = lambda node: fold.try_expr(site.mod, node)
        for combo in itertools.product(*expand) if expand else [()]:
            contradicted = False
            for k, v in combo:
                if k in ("condop", "calcop") and v[2] is not None:
                    for gd, branch in guards:
                        val = _eval_guard(gd, {v[2]: v[0]})
                        if val is not None and val != branch:
                            contradicted = True
            if contradicted:
                continue
            parsed = None
            used_fill = None
            for cls_order in (("ident",), ("int",), ("str",), ("ident", "int"), ("int", "ident")):
                fill = Fill()
                extra_guards: list[tuple[ast.expr, bool]] = []
                want_ops: dict[int, int] = {}
                out = []
                hi = 0
                pi = 0
                for p in t:
                    if isinstance(p, str):
                        out.append(p)
                        continue
                    k, v = combo[hi]
                    hi += 1
                    if k == "param":
                        cls = cls_order[min(pi, len(cls_order) - 1)]
                        pi += 1
                        out.append(fill.param(v, cls))
                    elif k in ("condop", "calcop"):
                        out.append(v[1])
                        if v[2] is not None:
                            want_ops[v[2]] = v[0]
                    elif k == "condconst":
                        out.append(cond_members[v].notation)
                    elif k == "perf":
                        out.append(PERF)
                    elif k == "dmode":
                        out.append("DMODE_K")
                        fill.ph["DMODE_K"] = ("param", v)
                    elif k == "opname":
                        out.append(opcode)
                    elif k == "join":
                        out.append(", ".join(fill.param(i, "ident") for i in range(2)))
                    elif k == "text":
                        out.append(v[0])
                        extra_guards.append((v[1], v[2]))
                text = wrap[0] + "".join(out) + wrap[1]
                try:
                    tree = g.parse_text(start, text, fill.ph)
                except AnalysisError:
                    tree = None
                if tree is not None:
                    parsed = (tree, text, fill, extra_guards, want_ops)
                    break
            if parsed is None:
                chk.violation(rule, key, site, f"the spelling printed for {opcode}, `{text}`, does not parse as {start} in ExplorerScript.g4")
                return
            tree, text, fill, extra_guards, want_ops = parsed
            try:
                got_op, got_params = reader(tree, switch_op)
            except LF.Rejected as ex:
                chk.violation(rule, key, site, f"`{text}` (printed for {opcode}) is rejected by the language: {ex}")
                return
            if len(samples) < 12:
                samples.append(f"{opcode}: {text} -> {got_op} {[getattr(p, 'text', p) for p in got_params]}")
            if got_op != opcode and not (opcode == "CaseScenario" and got_op == "CaseValue"):
                chk.violation(rule, key, site, f"`{text}` is printed for {opcode} but denotes {got_op} in the language")
                return
            # parameters in order
            for idx, p in enumerate(got_params):
                if isinstance(p, Token):
                    ph = p.placeholder
                    if ph is not None and ph[0] == "param":
                        if ph[1] != idx:
                            chk.violation(rule, key, site, f"`{text}`: parameter {ph[1]} of {opcode} is printed where the language reads parameter {idx}")
                            return
                    elif p.text == PERF:
                        pass
                elif isinstance(p, int):
                    if idx in want_ops:
                        if want_ops[idx] != p:
                            chk.violation(rule, key, site, f"`{text}`: operator value {want_ops[idx]} is printed with a notation the language reads as {p}")
                            return
                    else:
                        # polarity constant: must satisfy the guards under which this variant is printed
                        for gd, branch in list(guards) + extra_guards:
                            val = _eval_guard(gd, {idx: p})
                            if val is not None and val != branch:
                                chk.violation(rule, key, site, f"`{text}` reads back with parameter {idx} = {p}, but it is printed when `{norm(gd)}` is {branch}")
                                return
            # all printed params accounted for
            printed = {v[1] for v in fill.ph.values() if v[0] == "param"}
            seen = {p.placeholder[1] for p in got_params if isinstance(p, Token) and p.placeholder and p.placeholder[0] == "param"} | set(want_ops) | {
                i for i, p in enumerate(got_params) if isinstance(p, int)}
            if not printed <= seen | {None}:
                chk.violation(rule, key, site, f"`{text}`: printed parameters {sorted(printed - seen)} are not read back as parameters of {got_op}")
                return
        chk.hold(rule, key, site, f"{opcode}: printed spelling reads back as {opcode} with its parameters in order")

    # ---- if headers
    ih = repo.func(f"{WH}.label_jumps.if_start:IfWriteHandler._if_header_for")
    _HELPERS.clear()
    _HELPERS.update(ih.cls.methods if ih.cls is not None else {})
    for names, guards, expr, env in opcode_branches(ih.node, fold, ih.mod, None):
        for nm in names:
            check_template(ih, nm, guards, expr, env, "if_header", ("", ""), lambda tree, so: LF.if_header(tree, PERF, branch_ops))
    # ---- switch headers
    sh = repo.func(f"{WH}.label_jumps.switch_start:SwitchWriteHandler._switch_header_for")
    _HELPERS.clear()
    _HELPERS.update(sh.cls.methods if sh.cls is not None else {})
    for names, guards, expr, env in opcode_branches(sh.node, fold, sh.mod, None):
        for nm in names:
            check_template(sh, nm, guards, expr, env, "switch_header", ("", ""), lambda tree, so: LF.switch_header(tree))
    # ---- case headers
    chd = repo.func(f"{WH}.label_jumps.switch_start:SwitchWriteHandler._case_header_for")
    for names, guards, expr, env in opcode_branches(chd.node, fold, chd.mod, None):
        for nm in names:
            if any("is_switch_dungeon_mode" in norm(gd) and b for gd, b in guards):
                continue  # the dungeon-mode constant spelling of a Case value is covered by the plain variant
            check_template(chd, nm, [x for x in guards if "is_switch_dungeon_mode" not in norm(x[0])], expr, env, "case_header", ("", ""),
                           lambda tree, so, nm=nm: LF.case_header(tree, "SwitchScenario" if nm == "CaseScenario" else "Switch"))
    # ---- flag ops
    fl = repo.func(f"{WH}.simple_ops.flag:FlagSimpleOpWriteHandler.write_content")
    _HELPERS.clear()
    _HELPERS.update(fl.cls.methods if fl.cls is not None else {})
    for names, guards, expr, env in opcode_branches(fl.node, fold, fl.mod, "write_stmnt"):
        for nm in names:
            check_template(fl, nm, guards, expr, env, "simple_stmt", ("", ""), lambda tree, so: LF.simple_stmt(tree, PERF)[0])
    # ---- keyword ops: the decompiler's write_return/end/hold
    dec = repo.cls("explorerscript.ssb_converting.ssb_decompiler.ExplorerScriptSsbDecompiler")
    for meth, opn in (("write_return", "Return"), ("write_end", "End"), ("write_hold", "Hold")):
        m = dec.methods.get(meth)
        if m is None:
            chk.unknown(rule, f"keyword:{opn}", dec.mod, f"{meth} missing")
            continue
        f = Func(dec.mod, dec, m)
        for guards, expr, env in _variants(m.body, [], {}, "write_stmnt"):
            check_template(f, opn, guards, expr, env, "simple_stmt", ("", ""), lambda tree, so: LF.simple_stmt(tree, PERF)[0])
    kw = repo.func(f"{WH}.simple_ops.keyword:KeywordSimpleOpWriteHandler.write_content")
    pairs = {}
    for n in walk_no_nested(kw.node):
        if isinstance(n, ast.If) and isinstance(n.test, ast.Compare) and norm(n.test.left).endswith("op_code.name"):
            v = fold.try_expr(kw.mod, n.test.comparators[0])
            calls = [c.func.attr for s in n.body for c in ast.walk(s) if isinstance(c, ast.Call) and isinstance(c.func, ast.Attribute)]
            pairs[v] = calls
    want = {"Return": "_write_return", "End": "_write_end", "Hold": "_write_hold"}
    for opn, meth in want.items():
        chk.decide(rule, f"keyword-dispatch:{opn}", meth in pairs.get(opn, []), kw, f"{opn} is printed through {pairs.get(opn)}", f"{opn} -> {meth}")
        inner = repo.find_method(kw.cls, meth) if kw.cls else None
        if inner is not None:
            tgt = [c.func.attr for c in walk_no_nested(inner.node) if isinstance(c, ast.Call) and isinstance(c.func, ast.Attribute)]
            chk.decide(rule, f"keyword-dispatch:{opn}:inner", f"write_{opn.lower()}" in tgt, inner, f"{meth} calls {tgt}", f"{meth} -> write_{opn.lower()}")
    # ---- ctx ops
    cx = repo.func(f"{WH}.simple_ops.ctx:CtxSimpleOpWriteHandler.write_content")
    ctx_words = {}
    for n in walk_no_nested(cx.node):
        if isinstance(n, ast.If) and isinstance(n.test, ast.Compare) and norm(n.test.left).endswith("op_code.name"):
            opn = fold.try_expr(cx.mod, n.test.comparators[0])
            for s in n.body:
                if isinstance(s, ast.Assign) and norm(s.targets[0]) == "ctx":
                    t = template_of(s.value)
                    if t and isinstance(t[0], str):
                        ctx_words[opn] = t[0].split()[0]
    inv = {v: k for k, v in LF.CTX_OPS.items()}
    for opn in sorted(set(fold.const(f"{SPECIAL}:OPS_CTX"))):
        chk.decide(rule, f"ctx-word:{opn}", ctx_words.get(opn) == inv.get(opn), cx, f"context op {opn} is printed with the word {ctx_words.get(opn)!r}; the language reads {inv.get(opn)!r} as {opn}",
                   f"{opn} <-> {inv.get(opn)}")
    # with-form and inline form parse
    for text, start in (("with (actor P0_) { x(); }", "stmt"), ("x<actor P0_>(P1_);", "stmt")):
        try:
            ok = g.parse_text(start, text) is not None
        except AnalysisError:
            ok = False
        chk.decide(rule, f"ctx-spelling:{text}", ok, cx, f"`{text}` does not parse", "parses")
    wtxt = [template_of(c.args[0]) for c in walk_no_nested(cx.node) if isinstance(c, ast.Call) and isinstance(c.func, ast.Attribute) and c.func.attr == "write_stmnt" and c.args]
    chk.decide(rule, "ctx-with-template", any(t and isinstance(t[0], str) and t[0].startswith("with (") and isinstance(t[-1], str) and t[-1] == ")" for t in wtxt), cx,
               f"the with-header template is {wtxt}", "with (<ctx>)")
    # ---- simple ops and inline ctx
    ss = repo.func(f"{WH}.simple_ops.simple:SimpleSimpleOpWriteHandler.write_content")
    tpls = [template_of(c.args[0], lambda nm: None) for c in walk_no_nested(ss.node) if isinstance(c, ast.Call) and isinstance(c.func, ast.Attribute) and c.func.attr == "write_stmnt" and c.args]
    shapes = sorted("".join(p if isinstance(p, str) else "{}" for p in t) for t in tpls if t)
    chk.decide(rule, "simple-op:templates", shapes == ["{}({});", "{}<{}>({});"], ss, f"simple ops are printed as {shapes}", "name(params); / name<ctx>(params);")
    joins = [n for n in walk_no_nested(ss.node) if isinstance(n, ast.Assign) and norm(n.targets[0]) == "params" and isinstance(n.value, ast.Call) and "join" in norm(n.value.func)]
    ok = bool(joins) and fold.try_expr(ss.mod, joins[0].value.func.value) == ", " and "op.params" in norm(joins[0].value.args[0]) and "reversed" not in norm(joins[0].value)  # type: ignore[union-attr]
    chk.decide(rule, "simple-op:params", ok, ss, "parameters are not printed in order, separated by ', '", "parameters in order")
    # ---- call / jump / labels
    cw = repo.func(f"{WH}.label_jumps.call:CallWriteHandler.write_content")
    for c in walk_no_nested(cw.node):
        if isinstance(c, ast.Call) and isinstance(c.func, ast.Attribute) and c.func.attr == "write_stmnt":
            t = template_of(c.args[0])
            text = "".join(p if isinstance(p, str) else "7" for p in t) if t else ""
            try:
                tree = g.parse_text("stmt", text)
            except AnalysisError:
                tree = None
            ok = tree is not None and tree.sub("simple_stmt") is not None and tree.sub("simple_stmt").sub("call") is not None  # type: ignore[union-attr]
            chk.decide(rule, "call:template", ok and any(isinstance(p, Hole) and p.text.endswith("label.id") for p in t or []), cw, f"`{text}` is not a call statement to the op's label", f"`{text}`")
    d = repo.cls("explorerscript.ssb_converting.ssb_decompiler.ExplorerScriptSsbDecompiler")
    wj = Func(d.mod, d, d.methods["write_label_jump"])
    lw = repo.func(f"{WH}.label:LabelWriteHandler._write_label")
    # the statements written by write_label_jump itself and by the methods of the class it hands the writing to
    wj_nodes = [wj.node] + [d.methods[c.func.attr] for c in walk_no_nested(wj.node)
                            if isinstance(c, ast.Call) and isinstance(c.func, ast.Attribute) and isinstance(c.func.value, ast.Name) and c.func.value.id == "self"
                            and c.func.attr in d.methods and c.func.attr not in ("write_stmnt", "write_line")]
    jt = {"".join(p if isinstance(p, str) else "{}" for p in (template_of(c.args[0]) or [])) for wn in wj_nodes for c in walk_no_nested(wn)
          if isinstance(c, ast.Call) and isinstance(c.func, ast.Attribute) and c.func.attr == "write_stmnt"}
    lt = {"".join(p if isinstance(p, str) else "{}" for p in (template_of(c.args[0]) or [])) for c in walk_no_nested(lw.node)
          if isinstance(c, ast.Call) and isinstance(c.func, ast.Attribute) and c.func.attr == "write_stmnt"}
    chk.decide(rule, "jump-label:spelling", jt == {"jump @label_{};"} and lt == {"@label_{};"}, wj, f"jumps are printed as {jt}, labels as {lt}: the names must agree",
               "jump @label_N; <-> @label_N;")
    # ---- message switches
    msw = repo.func(f"{WH}.simple_ops.message_switches:MesageSwitchSimpleOpWriteHandler.write_content")
    n_ms = 0
    for n in walk_no_nested(msw.node):
        if isinstance(n, ast.If) and isinstance(n.test, ast.Compare) and norm(n.test.left).endswith("op_name"):
            opn = fold.try_expr(msw.mod, n.test.comparators[0])
            for c in (c for s in n.body for c in ast.walk(s) if isinstance(c, ast.Call) and isinstance(c.func, ast.Attribute) and c.func.attr == "write_stmnt"):
                t = template_of(c.args[0])
                text = "".join(p if isinstance(p, str) else "P0_" for p in t) + " { case 1: 'x' }" if t else ""
                try:
                    tree = g.parse_text("stmt", text)
                except AnalysisError:
                    tree = None
                mb = tree.sub("message_switch_block") if tree is not None else None
                tok = {"message_SwitchTalk": "MESSAGE_SWITCH_TALK", "message_SwitchMonologue": "MESSAGE_SWITCH_MONOLOGUE"}.get(opn)
                n_ms += 1
                chk.decide(rule, f"message-switch:{opn}", mb is not None and tok is not None and mb.tok(tok) is not None, msw,
                           f"`{text}` (printed for {opn}) is not a {opn} message switch in the grammar", f"{opn} header reads back")
    chk.floor(rule, "message switch headers", n_ms, 2)
    msc = repo.func(f"{WH}.simple_ops.message_switches_cases:MesageSwitchCasesSimpleOpWriteHandler.write_content")
    got = {}
    for n in walk_no_nested(msc.node):
        if isinstance(n, ast.If) and isinstance(n.test, ast.Compare) and norm(n.test.left).endswith("op_code.name"):
            opn = fold.try_expr(msc.mod, n.test.comparators[0])
            outs = [template_of(c.args[0]) or [Hole(c.args[0], norm(c.args[0]))] for s in n.body for c in ast.walk(s)
                    if isinstance(c, ast.Call) and isinstance(c.func, ast.Attribute) and c.func.attr == "write_stmnt"]
            got[opn] = ["".join(p if isinstance(p, str) else "{" + p.text + "}" for p in t) for t in outs]
    chk.decide(rule, "message-case:CaseText", got.get("CaseText") == ["case {op.params[0]}:", "{op.params[1]}"], msc,
               f"CaseText is printed as {got.get('CaseText')}; the language reads `case <value>: <string>` as CaseText [value, string]", "case P0: P1")
    chk.decide(rule, "message-case:DefaultText", got.get("DefaultText") == ["default:", "{op.params[0]}"], msc,
               f"DefaultText is printed as {got.get('DefaultText')}", "default: P0")
    # ---- routine headers (shared with the SsbScript decompiler: same spellings)
    from .c07 import routine_header_templates, listener_kind_table
    rw = repo.func(f"{WH}.routine:RoutineWriteHandler._write_routine_header")
    hdr = routine_header_templates(ctx, rw, "r_id", "r_info")
    ex = repo.func("explorerscript.ssb_converting.compiler.compile_handlers.functions.for_target_def:ForTargetDefCompileHandler.collect")
    kinds = listener_kind_table(ctx, ex)
    chk.floor(rule, "routine header templates", len(hdr), 5)
    for member, t in sorted(hdr.items()):
        text = "".join(p if isinstance(p, str) else ("7" if "r_id" in p.text and "named" not in p.text else "NAME_") for p in t) + " { x(); }"
        try:
            tree = g.parse_text("funcdef", text)
        except AnalysisError:
            tree = None
        want_rule = {"COROUTINE": "coro_def", "GENERIC": "simple_def"}.get(member, "for_target_def")
        ok = tree is not None and tree.children[0].rule == want_rule
        if ok and want_rule == "for_target_def":
            tg = tree.children[0].sub("for_target_def_target")
            word = tg.tok("IDENTIFIER").text if tg is not None and tg.tok("IDENTIFIER") else None
            ok = kinds.get(word or "") == member
        chk.decide(rule, f"routine-header:{member}", ok, rw, f"`{text}` (printed for {member} routines) does not read back as a {member} routine", f"`{text}`")
    chk.floor(rule, "print templates checked against the form table", n_templates, 35)
    chk.extra["forms"] = {"templates": n_templates, "samples": samples}


_FOLD: Any = None


def _eval_guard(gd: ast.expr, params: dict[int, int]) -> bool | None:
    """Evaluate a guard such as `op.params[0] > 0` / `op.params[1] == SsbOperator.EQ.value` for known integer parameters."""
    class T(ast.NodeTransformer):
        ok = True

        def visit_Attribute(self, node: ast.Attribute) -> ast.AST:
            if _FOLD is not None:
                v = _FOLD(node)
                if isinstance(v, (int, str)):
                    return ast.Constant(v)
            self.ok = False
            return node

        def visit_Subscript(self, node: ast.Subscript) -> ast.AST:
            if norm(node.value).endswith("params") and isinstance(node.slice, ast.Constant) and node.slice.value in params:
                return ast.Constant(params[node.slice.value])
            self.ok = False
            return node

        def visit_Name(self, node: ast.Name) -> ast.AST:
            self.ok = False
            return node

    import copy
    tr = T()
    e = tr.visit(copy.deepcopy(gd))
    if not tr.ok:
        return None
    try:
        return bool(eval(compile(ast.fix_missing_locations(ast.Expression(e)), "<guard>", "eval"), {"__builtins__": {}}, {}))
    except Exception:
        return None
