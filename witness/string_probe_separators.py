# real-code triage (never used by a check): string_probe with an alphabet of line-separator-like characters (CR, FF, VT, U+2028, tab, U+3000)
import itertools, sys, logging, warnings, random
warnings.filterwarnings("ignore"); logging.disable(logging.CRITICAL)
from explorerscript.ssb_converting.ssb_compiler import ExplorerScriptSsbCompiler
from explorerscript.ssb_converting.ssb_data_types import *
from explorerscript.ssb_converting.ssb_decompiler import ExplorerScriptSsbDecompiler
from explorerscript.ssb_script.ssb_converting.ssb_decompiler import SsbScriptSsbDecompiler
DMC = DungeonModeConstants("DMODE_CLOSED", "DMODE_OPEN", "DMODE_REQUEST", "DMODE_OPEN_AND_REQUEST")
def O(o,n,p): return SsbOperation(o, SsbOpCode(-1,n), p)
ALPH=["a"," ","\n","'","\x0c","\r","\u2028","\t","\x0b","　"]
def check(s, lang=False, nest=0):
    p = SsbOpParamLanguageString({"english": s, "german": s+"x"}) if lang else SsbOpParamConstString(s)
    ops=[O(0,"f",[p]),O(1,"End",[])]
    if nest:
        # inside an if inside a switch: deeper indent
        ops=[O(0,"Branch",[SsbOpParamConstant("$V"),1,2]),O(1,"End",[]),O(2,"f",[p]),O(3,"End",[])]
    infos=[SsbRoutineInfo(SsbRoutineType.GENERIC,0)]
    text,_=ExplorerScriptSsbDecompiler(infos,[ops],[],"$PERF",DMC).convert()
    c=ExplorerScriptSsbCompiler("$PERF"); c.compile(text,"/x.exps")
    back=[op for r in c.routine_ops for op in r if op.op_code.name=="f"][0].params[0]
    if lang: return back.strings=={"english": s, "german": s+"x"}, text
    return back.name==s, text
bad=0; n=0
rnd=random.Random(5)
cands=[]
for L in range(0,5):
    for t in itertools.product(ALPH, repeat=L): cands.append("".join(t))
rnd.shuffle(cands)
for s in cands[:int(sys.argv[1])]:
    for lang in (False,True):
        for nest in (0,1):
            n+=1
            try:
                ok,text=check(s,lang,nest)
            except Exception as ex:
                ok=False; text=f"{type(ex).__name__}: {ex}"
            if not ok:
                bad+=1
                if bad<=8: print("BAD",repr(s),"lang" if lang else "str","nest",nest); print(text[:300])
print(n,"checked",bad,"bad")
import collections
cls=collections.Counter()
ex={}
for s in cands[:int(sys.argv[1])]:
    try: ok,text=check(s,False,0)
    except Exception as e: ok=False; text=type(e).__name__
    if not ok:
        key=("CRLF" if "\r\n" in s else "") + ("|CR" if "\r" in s.replace("\r\n","") else "") + ("|FF" if "\x0c" in s else "") + ("|LF" if "\n" in s.replace("\r\n","") else "")+("|exc" if text in ("ParseError",) else "")
        cls[key]+=1; ex.setdefault(key, s)
print(cls); print({k: repr(v) for k,v in ex.items()})
