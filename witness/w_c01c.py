from wlib import *
for src in ["def 0 { a(); switch ($S) { default: case 10: b(); break; } c(); }", "def 0 { a(); switch ($S) { case 10: b(); break; default: c(); } d(); }", "def 0 { a(); switch ($S) { default: c(); break; case 10: b(); } d(); }"]:
    print(src)
    try: show(comp(src))
    except Exception as e: print("  ->", type(e).__name__, e)
