"""REAL code: compile-time source map on random laid-out programs with macros: every op named opN maps to where `opN` stands."""
import random, re, sys, os, tempfile, collections, logging, warnings
warnings.filterwarnings("ignore"); logging.disable(logging.CRITICAL)
from explorerscript.ssb_converting.ssb_compiler import ExplorerScriptSsbCompiler
WS=[" ","\n","\n    ","  ","\t"," /* c */ ","\n// x\n"]
c=collections.Counter(); shown=0
for seed in range(int(sys.argv[1]),int(sys.argv[2])):
    r=random.Random(seed); n=[0]
    def op():
        n[0]+=1; return f"op{n[0]}({r.randint(0,9)});"
    w=lambda: r.choice(WS)
    lib="".join(f"macro lm{i}($a){w()}{{{w()}{op()}{w()}if ($a == 1){w()}{{{w()}{op()}{w()}return;{w()}}}{w()}{op()}{w()}}}{w()}" for i in range(r.randint(1,2)))
    main_macros=f"macro mm($b){w()}{{{w()}{op()}{w()}~lm0($b);{w()}{op()}{w()}}}{w()}"
    body=[]
    for _ in range(r.randint(2,5)):
        k=r.random()
        if k<0.4: body.append(op())
        elif k<0.6: body.append(f"~mm({r.randint(0,3)});")
        elif k<0.75: body.append(f"~lm0({r.randint(0,3)});")
        else: body.append(f"if ($V == 1){w()}{{{w()}{op()}{w()}}}")
    main="import './lib.exps';"+w()+main_macros+"def 0"+w()+"{"+w()+w().join(body)+w()+"end;"+w()+"}\n"
    d=tempfile.mkdtemp(); os.makedirs(d+"/sub"); open(d+"/sub/main.exps","w").write(main); open(d+"/sub/lib.exps","w").write(lib)
    try:
        cc=ExplorerScriptSsbCompiler("$PERF",[]); cc.compile(main,d+"/sub/main.exps")
    except Exception as ex:
        c['not-compiled']+=1
        if shown<2: shown+=1; print("NC",seed,type(ex).__name__,str(ex)[:100]); print(main[:300])
        continue
    sm=cc.source_map
    def where(text,name):
        i=text.index(name+"("); return text.count("\n",0,i), i-(text.rfind("\n",0,i)+1)
    probs=[]
    for rr in cc.routine_ops:
        for o in rr:
            nm=o.op_code.name
            if not re.match(r"op\d+$",nm): continue
            if o.offset in sm._mappings:
                e=sm._mappings[o.offset]
                if nm+"(" not in main: probs.append(f"{nm} direct entry but not in main"); continue
                if (e.line,e.column)!=where(main,nm): probs.append(f"{nm} direct at {(e.line,e.column)} want {where(main,nm)}")
            elif o.offset in sm._mappings_macros:
                e=sm._mappings_macros[o.offset]
                in_lib=(nm+"(") in lib
                text=lib if in_lib else main
                if (e.relpath_included_file is not None)!=in_lib: probs.append(f"{nm} file {e.relpath_included_file}")
                elif in_lib and e.relpath_included_file!="lib.exps": probs.append(f"{nm} relpath {e.relpath_included_file}")
                if (e.line,e.column)!=where(text,nm): probs.append(f"{nm} macro at {(e.line,e.column)} want {where(text,nm)}")
                if e.return_addr is None: probs.append(f"{nm} no return address")
            else: probs.append(f"{nm} no entry")
    if probs:
        c['BAD']+=1
        if shown<5: shown+=1; print('BAD',seed,probs[:3]); print(main); print(lib)
    else: c['ok']+=1
print(dict(c))
