"""Constant folding of module-level and class-level literals (no execution of repository code)."""

from __future__ import annotations

import ast
from dataclasses import dataclass
from typing import Any

from .loader import Repo, Mod, Cls, dotted, AnalysisError


class NotConst(Exception):
    pass


@dataclass(frozen=True)
class EnumMember:
    cls: str
    name: str
    value: Any  # the full folded right-hand side (tuple for (value, notation) enums)

    @property
    def code(self) -> Any:
        return self.value[0] if isinstance(self.value, tuple) else self.value

    @property
    def notation(self) -> Any:
        return self.value[1] if isinstance(self.value, tuple) and len(self.value) > 1 else None


@dataclass(frozen=True)
class ClassRef:
    qual: str


@dataclass(frozen=True)
class Opaque:
    """A value that is known to exist but is not a literal (e.g. ``Lock()``)."""

    text: str


class Folder:
    def __init__(self, repo: Repo) -> None:
        self.repo = repo
        self._cache: dict[tuple[str, str], Any] = {}
        self._busy: set[tuple[str, str]] = set()
        self._post: dict[str, dict[str, Any]] = {}

    # ------------------------------------------------------------------ public
    def name(self, mod: Mod, name: str) -> Any:
        """Value of a module-level name after all top-level statements of the module ran."""
        env = self.module_env(mod)
        if name in env:
            v = env[name]
            if isinstance(v, NotConst):
                raise v
            return v
        r = self.repo.resolve(mod, name)
        if r is None:
            raise NotConst(f"{mod.name}.{name} unresolved")
        kind, obj = r
        if kind == "const":
            m2, n2 = obj  # type: ignore[misc]
            return self.name(m2, n2)
        if kind == "class":
            return ClassRef(obj.qual)  # type: ignore[union-attr]
        raise NotConst(f"{mod.name}.{name} is {kind}")

    def const(self, spec: str) -> Any:
        """``module.path:NAME``"""
        modname, _, n = spec.partition(":")
        m = self.repo.mod(modname)
        try:
            return self.name(m, n)
        except NotConst as e:
            raise AnalysisError(f"constant {spec} cannot be folded: {e}")

    def expr(self, mod: Mod, e: ast.AST, local: dict[str, Any] | None = None) -> Any:
        return self._eval(mod, e, local or {})

    def try_expr(self, mod: Mod, e: ast.AST, local: dict[str, Any] | None = None) -> Any:
        try:
            return self._eval(mod, e, local or {})
        except NotConst:
            return None

    def enum_members(self, cls: Cls) -> dict[str, EnumMember]:
        out = {}
        for k, v in cls.class_assigns.items():
            if k.startswith("_"):
                continue
            try:
                out[k] = EnumMember(cls.name, k, self._eval(cls.mod, v, {}))
            except NotConst:
                continue
        return out

    # ------------------------------------------------------------------ module env
    def module_env(self, mod: Mod) -> dict[str, Any]:
        if mod.name in self._post:
            return self._post[mod.name]
        env: dict[str, Any] = {}
        self._post[mod.name] = env  # (cycles: partially filled env is visible)
        self._exec_block(mod, mod.tree.body, env)
        return env

    def class_env(self, cls: Cls) -> dict[str, Any]:
        env: dict[str, Any] = {}
        self._exec_block(cls.mod, cls.node.body, env, in_class=True)
        return env

    def _exec_block(self, mod: Mod, body: list[ast.stmt], env: dict[str, Any], in_class: bool = False) -> None:
        for st in body:
            try:
                self._exec(mod, st, env, in_class)
            except NotConst:
                continue

    def _exec(self, mod: Mod, st: ast.stmt, env: dict[str, Any], in_class: bool) -> None:
        if isinstance(st, ast.Assign):
            try:
                val = self._eval(mod, st.value, env)
            except NotConst as e:
                val = NotConst(str(e))
            for t in st.targets:
                self._assign(mod, t, val, env)
        elif isinstance(st, ast.AnnAssign) and st.value is not None:
            try:
                val = self._eval(mod, st.value, env)
            except NotConst as e:
                val = NotConst(str(e))
            self._assign(mod, st.target, val, env)
        elif isinstance(st, ast.AugAssign):
            if isinstance(st.target, ast.Name) and st.target.id in env:
                cur = env[st.target.id]
                val = self._eval(mod, st.value, env)
                if isinstance(st.op, ast.Add) and not isinstance(cur, NotConst):
                    env[st.target.id] = cur + val
        elif isinstance(st, ast.Expr) and isinstance(st.value, ast.Call):
            c = st.value
            if isinstance(c.func, ast.Attribute) and isinstance(c.func.value, ast.Name):
                tgt = c.func.value.id
                if tgt in env and not isinstance(env[tgt], NotConst):
                    args = [self._eval(mod, a, env) for a in c.args]
                    if c.func.attr == "update" and isinstance(env[tgt], dict) and len(args) == 1:
                        env[tgt] = {**env[tgt], **args[0]}
                    elif c.func.attr == "append" and isinstance(env[tgt], list) and len(args) == 1:
                        env[tgt] = env[tgt] + [args[0]]
                    elif c.func.attr == "extend" and isinstance(env[tgt], list) and len(args) == 1:
                        env[tgt] = env[tgt] + list(args[0])
        elif isinstance(st, ast.For):
            it = self._eval(mod, st.iter, env)
            if isinstance(it, dict):
                it = list(it.keys())
            if not isinstance(it, (list, tuple)):
                raise NotConst("for over non-literal")
            for item in it:
                self._assign(mod, st.target, item, env)
                self._exec_block(mod, st.body, env, in_class)
        elif isinstance(st, ast.If):
            # only fold `if` with foldable test; otherwise run both arms (type-checking / version guards)
            try:
                t = self._eval(mod, st.test, env)
            except NotConst:
                self._exec_block(mod, st.body, env, in_class)
                self._exec_block(mod, st.orelse, env, in_class)
                return
            self._exec_block(mod, st.body if t else st.orelse, env, in_class)
        elif isinstance(st, ast.Try):
            self._exec_block(mod, st.body, env, in_class)

    def _assign(self, mod: Mod, t: ast.AST, val: Any, env: dict[str, Any]) -> None:
        if isinstance(t, ast.Name):
            env[t.id] = val
        elif isinstance(t, ast.Subscript) and isinstance(t.value, ast.Name) and t.value.id in env:
            cur = env[t.value.id]
            if isinstance(cur, dict) and not isinstance(val, NotConst):
                key = self._eval(mod, t.slice, env)
                env[t.value.id] = {**cur, key: val}
        elif isinstance(t, (ast.Tuple, ast.List)) and isinstance(val, (tuple, list)) and len(val) == len(t.elts):
            for tt, vv in zip(t.elts, val):
                self._assign(mod, tt, vv, env)

    # ------------------------------------------------------------------ expressions
    def _eval(self, mod: Mod, e: ast.AST, env: dict[str, Any]) -> Any:
        if isinstance(e, ast.Constant):
            return e.value
        if isinstance(e, ast.Name):
            if e.id in env:
                v = env[e.id]
                if isinstance(v, NotConst):
                    raise v
                return v
            if e.id in ("True", "False", "None"):
                return {"True": True, "False": False, "None": None}[e.id]
            if e.id in ("str", "int", "float", "list", "dict", "tuple", "set", "bool", "type", "object"):
                return Opaque(e.id)
            menv = self._post.get(mod.name)
            if menv is not None and env is not menv and e.id in menv:
                v = menv[e.id]
                if isinstance(v, NotConst):
                    raise v
                return v
            r = self.repo.resolve(mod, e.id)
            if r is None:
                raise NotConst(f"name {e.id}")
            kind, obj = r
            if kind == "const":
                m2, n2 = obj  # type: ignore[misc]
                if m2 is mod and env is self._post.get(mod.name):
                    raise NotConst(f"name {e.id} not yet bound")
                return self.name(m2, n2)
            if kind == "class":
                return ClassRef(obj.qual)  # type: ignore[union-attr]
            if kind == "func":
                return Opaque(f"func:{obj.qual}")  # type: ignore[union-attr]
            raise NotConst(f"name {e.id} is {kind}")
        if isinstance(e, ast.Attribute):
            d = dotted(e)
            if d is not None:
                r = self.repo.resolve(mod, d)
                if r is not None:
                    kind, obj = r
                    if kind == "classattr":
                        c, attr = obj  # type: ignore[misc]
                        val = self._eval(c.mod, c.class_assigns[attr], {})
                        if self._is_enum(c):
                            return EnumMember(c.name, attr, val)
                        return val
                    if kind == "const":
                        m2, n2 = obj  # type: ignore[misc]
                        return self.name(m2, n2)
                    if kind == "class":
                        return ClassRef(obj.qual)  # type: ignore[union-attr]
            base = self._eval(mod, e.value, env)
            if isinstance(base, EnumMember):
                if e.attr == "value":
                    return base.code
                if e.attr == "notation":
                    return base.notation
                if e.attr == "name":
                    return base.name
            if isinstance(base, Opaque) and base.text == "re":
                return Opaque(f"re.{e.attr}")
            raise NotConst(f"attribute {ast.unparse(e)}")
        if isinstance(e, (ast.List, ast.Tuple, ast.Set)):
            items = []
            for x in e.elts:
                if isinstance(x, ast.Starred):
                    items.extend(self._eval(mod, x.value, env))
                else:
                    items.append(self._eval(mod, x, env))
            if isinstance(e, ast.List):
                return items
            if isinstance(e, ast.Tuple):
                return tuple(items)
            return set(items)
        if isinstance(e, ast.Dict):
            out = {}
            for k, v in zip(e.keys, e.values):
                if k is None:
                    out.update(self._eval(mod, v, env))
                else:
                    out[self._eval(mod, k, env)] = self._eval(mod, v, env)
            return out
        if isinstance(e, ast.BinOp):
            l = self._eval(mod, e.left, env)
            r = self._eval(mod, e.right, env)
            try:
                if isinstance(e.op, ast.Add):
                    return l + r
                if isinstance(e.op, ast.Mult):
                    return l * r
                if isinstance(e.op, ast.Sub):
                    return l - r
                if isinstance(e.op, ast.BitOr):
                    if isinstance(l, Opaque) or isinstance(r, Opaque):
                        return Opaque(f"{getattr(l, 'text', l)}|{getattr(r, 'text', r)}")
                    return l | r
                if isinstance(e.op, ast.Mod):
                    return l % r
            except TypeError:
                raise NotConst("binop types")
            raise NotConst("binop")
        if isinstance(e, ast.UnaryOp):
            v = self._eval(mod, e.operand, env)
            if isinstance(e.op, ast.USub):
                return -v
            if isinstance(e.op, ast.Not):
                return not v
            raise NotConst("unary")
        if isinstance(e, ast.JoinedStr):
            parts = []
            for p in e.values:
                if isinstance(p, ast.Constant):
                    parts.append(str(p.value))
                elif isinstance(p, ast.FormattedValue):
                    v = self._eval(mod, p.value, env)
                    if isinstance(v, (Opaque, ClassRef, EnumMember)):
                        raise NotConst("fstring hole")
                    parts.append(str(v))
            return "".join(parts)
        if isinstance(e, ast.Subscript):
            base = self._eval(mod, e.value, env)
            idx = self._eval(mod, e.slice, env)
            try:
                return base[idx]
            except Exception:
                raise NotConst("subscript")
        if isinstance(e, ast.Call):
            fn = dotted(e.func)
            if fn in ("set", "list", "tuple", "dict", "frozenset") and len(e.args) <= 1 and not e.keywords:
                arg = self._eval(mod, e.args[0], env) if e.args else ()
                return {"set": set, "list": list, "tuple": tuple, "dict": dict, "frozenset": frozenset}[fn](arg)
            if fn == "type" and len(e.args) == 1:
                v = self._eval(mod, e.args[0], env)
                if v is None:
                    return ClassRef("builtins.NoneType")
            if isinstance(e.func, ast.Attribute) and e.func.attr == "keys" and not e.args:
                base = self._eval(mod, e.func.value, env)
                if isinstance(base, dict):
                    return list(base.keys())
            if isinstance(e.func, ast.Attribute) and e.func.attr == "copy" and not e.args:
                return self._eval(mod, e.func.value, env)
            return Opaque(ast.unparse(e))
        if isinstance(e, ast.ListComp) and len(e.generators) == 1 and not e.generators[0].ifs:
            g = e.generators[0]
            it = self._eval(mod, g.iter, env)
            out = []
            for item in it:
                sub = dict(env)
                self._assign(mod, g.target, item, sub)
                out.append(self._eval(mod, e.elt, sub))
            return out
        if isinstance(e, ast.IfExp):
            return self._eval(mod, e.body if self._eval(mod, e.test, env) else e.orelse, env)
        if isinstance(e, ast.Compare) and len(e.ops) == 1:
            l = self._eval(mod, e.left, env)
            r = self._eval(mod, e.comparators[0], env)
            op = e.ops[0]
            try:
                if isinstance(op, ast.Eq):
                    return l == r
                if isinstance(op, ast.NotEq):
                    return l != r
                if isinstance(op, ast.In):
                    return l in r
                if isinstance(op, ast.NotIn):
                    return l not in r
                if isinstance(op, ast.GtE):
                    return l >= r
                if isinstance(op, ast.Gt):
                    return l > r
                if isinstance(op, ast.Lt):
                    return l < r
                if isinstance(op, ast.LtE):
                    return l <= r
            except TypeError:
                raise NotConst("compare")
        raise NotConst(type(e).__name__)

    def _is_enum(self, c: Cls) -> bool:
        for b in c.base_exprs:
            d = dotted(b)
            if d and d.split(".")[-1] in ("Enum", "IntEnum", "Flag"):
                return True
        return False
